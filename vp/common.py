"""Shared machinery of the /verif checks: paths, Coq build (own dependency resolver, full .vo
builds through coqc), assumption audit, extraction + OCaml model driver, C harness compilation,
correspondence bookkeeping, evidence, violation / known-finding reporting."""
import fcntl
import hashlib
import json
import os
import re
import shutil
import subprocess
import sys
import time
from concurrent.futures import ThreadPoolExecutor

from .rng import Rng

ROOT = os.path.dirname(os.path.dirname(os.path.abspath(__file__)))
REPO = os.environ.get("VERIF_REPO", "/repo")
TOOLKIT = os.path.join(REPO, "src/target/trx_toolkit")
WORK = os.path.join(ROOT, "work")
COQ = os.path.join(ROOT, "coq")
if os.path.realpath(REPO) != "/repo":
    # a scratch copy of the repository is being checked (mutation experiments): use a private copy of the Coq tree and
    # private build outputs so that Gen files / .vo files of the real tree are never disturbed
    _tag = hashlib.sha1(os.path.realpath(REPO).encode()).hexdigest()[:10]
    WORK = os.path.join(ROOT, "work", "alt-" + _tag)
    COQ = os.path.join(WORK, "coq")
    os.makedirs(COQ, exist_ok=True)
    subprocess.run(["rsync", "-a", "--delete", "--exclude", "*.vo", "--exclude", "*.vok", "--exclude", "*.vos", "--exclude", "*.glob", "--exclude", ".*.aux",
                    "--exclude", "*.sig", "--exclude", "Gen/", os.path.join(ROOT, "coq", "theories") + "/", os.path.join(COQ, "theories") + "/"], check=False)
    os.makedirs(os.path.join(COQ, "theories", "Gen"), exist_ok=True)
    # evidence and replay files of scratch runs must never replace those of the real tree
    EVID = os.path.join(WORK, "evidence")
    OUT = os.path.join(WORK, "out")
TH = os.path.join(COQ, "theories")
if os.path.realpath(REPO) == "/repo":
    OUT = os.path.join(ROOT, "out")
    EVID = os.path.join(ROOT, "evidence")
PYTHON = "/venv/bin/python"
LIBOSMO = os.path.join(REPO, "src/shared/libosmocore")
NPROC = os.cpu_count() or 4

FORBIDDEN = re.compile(
    r"\b(Admitted|admit|Axiom|Axioms|Parameter|Parameters|Conjecture|Hypothesis|Hypotheses|Variable|Variables|"
    r"Admit Obligations|bypass_check)\b|Unset\s+Guard|Unset\s+Positivity|Unset\s+Universe|type-in-type|impredicative-set")

TRUSTED_BASE = [
    "Coq 8.16.1 kernel + VM (vm_compute used for finite sweeps; native_compute not used)",
    "axioms: none (every theorem must print 'Closed under the global context')",
    "extraction: ExtrOcamlBasic only (Extract Inductive bool/option/unit/list/prod/sumbool/sumor, "
    "Extract Inlined Constant andb/orb/negb/fst/snd); Z/positive/nat stay inductive; OCaml 4.13.1; generic int-line driver",
    "Gen translators (Python reflection / C dumpers that #include the real .c) and correspondence harnesses (differential testing)",
]


def sh(cmd, timeout=600, cwd=None, env=None, input=None):
    """run a command, return (rc, stdout+stderr)"""
    try:
        p = subprocess.run(cmd, shell=isinstance(cmd, str), cwd=cwd, env=env, input=input,
                           stdout=subprocess.PIPE, stderr=subprocess.STDOUT, timeout=timeout, text=True)
        return p.returncode, p.stdout
    except subprocess.TimeoutExpired as e:
        out = e.stdout or ""
        if isinstance(out, bytes):
            out = out.decode(errors="replace")
        return 124, out + "\n[timeout after %ss]" % timeout


def write_if_changed(path, text):
    os.makedirs(os.path.dirname(path), exist_ok=True)
    try:
        with open(path) as f:
            if f.read() == text:
                return False
    except FileNotFoundError:
        pass
    with open(path, "w") as f:
        f.write(text)
    return True


class Lock:
    def __init__(self, name="build"):
        os.makedirs(WORK, exist_ok=True)
        self.path = os.path.join(WORK, ".lock-" + name)

    def __enter__(self):
        self.f = open(self.path, "w")
        fcntl.flock(self.f, fcntl.LOCK_EX)
        return self

    def __exit__(self, *a):
        fcntl.flock(self.f, fcntl.LOCK_UN)
        self.f.close()


# ------------------------------------------------------------------ Coq build

REQ = re.compile(r"^\s*(?:From\s+OBB\s+)?Require\s+(?:Import\s+|Export\s+)?([^.]*(?:\.[A-Za-z_][^.\s]*)*)\s*\.\s*$")


def coq_deps(vfile):
    """logical OBB.* dependencies of a .v file -> list of .v paths (a Require sentence may span several lines)"""
    deps = []
    try:
        with open(vfile) as f:
            txt = f.read()
    except OSError:
        return deps
    for m in re.finditer(r"From\s+OBB\s+Require\s+(?:Import\s+|Export\s+)?([^.]*(?:\.[A-Za-z_][A-Za-z0-9_']*[^.]*)*)\.(?:\s|$)", txt):
        for n in m.group(1).split():
            deps.append(os.path.join(TH, *n.split(".")) + ".v")
    return deps


def coq_cone(vfile, seen=None, order=None):
    """topologically ordered list of files needed for vfile (including itself)"""
    if seen is None:
        seen, order = set(), []
    if vfile in seen:
        return order
    seen.add(vfile)
    for d in coq_deps(vfile):
        coq_cone(d, seen, order)
    order.append(vfile)
    return order


_SIG = {}


def coq_sig(v):
    """signature of a theory file: hash of its source text and of the signatures of everything it requires"""
    if v in _SIG:
        return _SIG[v]
    h = hashlib.sha256()
    try:
        with open(v, "rb") as f:
            h.update(f.read())
    except OSError:
        h.update(b"<missing>")
    for d in coq_deps(v):
        h.update(coq_sig(d).encode())
    _SIG[v] = h.hexdigest()
    return _SIG[v]


def _stale(v):
    vo = v[:-2] + ".vo"
    if not os.path.exists(vo):
        return True
    try:
        with open(vo + ".sig") as f:
            return f.read().strip() != coq_sig(v)
    except OSError:
        return True


def coqc(v, timeout=900, cwd=None):
    t0 = time.time()
    sig = coq_sig(v)
    rc, out = sh(["coqc", "-q", "-Q", TH, "OBB", v], timeout=timeout, cwd=cwd or COQ)
    if rc == 0 and cwd is None:
        try:
            with open(v[:-2] + ".vo.sig", "w") as f:
                f.write(sig)
        except OSError:
            pass
    return rc, out, time.time() - t0


def coq_build(targets, force=(), timeout=900, jobs=NPROC):
    """build the cone of the target .v files. Returns (ok, logs{file:(rc,out,secs)}, first_failure)."""
    _SIG.clear()
    order, seen = [], set()
    for t in targets:
        coq_cone(t, seen, order)
    missing = [v for v in order if not os.path.exists(v)]
    logs = {}
    if missing:
        for m in missing:
            logs[m] = (1, "missing source file " + m, 0.0)
        return False, logs, missing[0]
    done, failed = set(), None
    pending = list(order)
    # wave-parallel build
    with ThreadPoolExecutor(max_workers=jobs) as ex:
        while pending and failed is None:
            ready = [v for v in pending if all(d in done for d in coq_deps(v))]
            if not ready:
                failed = pending[0]
                logs[failed] = (1, "dependency cycle", 0.0)
                break
            todo = []
            for v in ready:
                if v in force or _stale(v):
                    todo.append(v)
                else:
                    done.add(v)
            def one(v):
                # per-file lock: concurrent checks may share parts of their cones
                with Lock("f-" + hashlib.sha1(v.encode()).hexdigest()[:12]):
                    if v not in force and not _stale(v):
                        return v, (0, "built by a concurrent process", 0.0)
                    return v, coqc(v, timeout)
            results = list(ex.map(one, todo))
            for v, (rc, out, secs) in results:
                logs[v] = (rc, out, secs)
                if rc != 0:
                    vo = v[:-2] + ".vo"
                    if os.path.exists(vo):
                        os.unlink(vo)
                    if failed is None:
                        failed = v
                else:
                    done.add(v)
            pending = [v for v in pending if v not in done]
    return failed is None, logs, failed


def parse_assumptions(props_v, log):
    """theorem names of a Props file, zipped with the Print Assumptions blocks of its coqc log"""
    with open(props_v) as f:
        src = f.read()
    thms = re.findall(r"^\s*Theorem\s+([A-Za-z0-9_']+)", src, re.M)
    prints = re.findall(r"^\s*Print Assumptions\s+([A-Za-z0-9_']+)\s*\.", src, re.M)
    blocks = []
    cur = None
    for line in log.splitlines():
        if line.startswith("Closed under the global context"):
            blocks.append([])
            cur = None
        elif line.startswith("Axioms:"):
            cur = []
            blocks.append(cur)
        elif cur is not None:
            if line and not line.startswith(" "):
                m = re.match(r"([A-Za-z0-9_.']+)\s*:", line)
                if m:
                    cur.append(m.group(1))
    res = {}
    for i, name in enumerate(prints):
        res[name] = blocks[i] if i < len(blocks) else ["<no Print Assumptions output>"]
    return thms, prints, res


def grep_forbidden(files):
    hits = []
    for v in files:
        with open(v) as f:
            txt = f.read()
        # strip comments (non-nested is enough for our sources)
        txt2 = re.sub(r"\(\*.*?\*\)", lambda m: "\n" * m.group(0).count("\n"), txt, flags=re.S)
        for i, line in enumerate(txt2.splitlines(), 1):
            if FORBIDDEN.search(line):
                hits.append("%s:%d: %s" % (os.path.relpath(v, ROOT), i, line.strip()))
    return hits


# ------------------------------------------------------------------ extraction / model binary

def model_binary(group):
    return os.path.join(WORK, "ocaml", group, "model")


def build_model(group, timeout=600):
    """Extract/Ext<group>.v -> work/ocaml/<group>/model (native). Returns (ok, log)."""
    ext = os.path.join(TH, "Extract", "Ext%s.v" % group)
    ok, logs, failed = coq_build([d for d in coq_deps(ext)])
    if not ok:
        return False, "model build failed at %s:\n%s" % (failed, logs[failed][1][-3000:])
    d = os.path.join(WORK, "ocaml", group)
    os.makedirs(d, exist_ok=True)
    binp = model_binary(group)
    with open(os.path.join(ROOT, "ocaml", "driver.ml"), "rb") as f:
        msig = coq_sig(ext) + hashlib.sha256(f.read()).hexdigest()
    try:
        with open(binp + ".sig") as f:
            if os.path.exists(binp) and f.read().strip() == msig:
                return True, "up to date"
    except OSError:
        pass
    for f in os.listdir(d):
        os.unlink(os.path.join(d, f))
    rc, out, _ = coqc(ext, timeout, cwd=d)
    for junk in ("Ext%s.vo", "Ext%s.glob", "Ext%s.vok", "Ext%s.vos", ".Ext%s.aux", "Ext%s.vo.sig"):
        p = os.path.join(TH, "Extract", junk % group)
        if os.path.exists(p):
            os.unlink(p)
    if rc != 0 or not os.path.exists(os.path.join(d, "model.ml")):
        return False, "extraction failed:\n" + out[-3000:]
    with open(os.path.join(d, "model.mli")) as f:
        mli = f.read()
    ops = re.findall(r"^val (w_[a-z0-9_]+) :", mli, re.M)
    with open(os.path.join(d, "table.ml"), "w") as f:
        f.write("let table = [\n" + "".join('  ("%s", Model.%s);\n' % (o, o) for o in ops) + "]\n")
    shutil.copy(os.path.join(ROOT, "ocaml", "driver.ml"), os.path.join(d, "driver.ml"))
    rc, out = sh("ocamlfind ocamlopt -O2 -w -a -o model model.mli model.ml table.ml driver.ml 2>&1 || "
                 "ocamlfind ocamlopt -w -a -o model model.mli model.ml table.ml driver.ml", cwd=d, timeout=timeout)
    if rc != 0 or not os.path.exists(binp):
        return False, "ocaml build failed:\n" + out[-3000:]
    with open(binp + ".sig", "w") as f:
        f.write(msig)
    return True, "built %d ops" % len(ops)


def run_model(group, lines, timeout=1800):
    """lines: list of 'op int int ...' -> list of list[int] (or None for an error line)"""
    if not lines:
        return []
    inp = "\n".join(lines) + "\n"
    p = subprocess.run([model_binary(group)], input=inp, stdout=subprocess.PIPE, stderr=subprocess.PIPE,
                       text=True, timeout=timeout)
    if p.returncode != 0:
        raise RuntimeError("model driver failed: " + p.stderr[-2000:])
    res = []
    for l in p.stdout.split("\n")[:len(lines)]:
        l = l.strip()
        if l.startswith("!"):
            res.append(None)
        else:
            res.append([int(x) for x in l.split()] if l else [])
    if len(res) != len(lines):
        raise RuntimeError("model driver returned %d lines for %d cases" % (len(res), len(lines)))
    return res


# ------------------------------------------------------------------ C harness

_CC_OUTPUTS = []


def cc(name, sources, flags="", compiler="gcc", sanitize=True, timeout=300):
    """compile a harness into work/c/<name>; always rebuilt from the current tree. Returns (ok, path, log)"""
    d = os.path.join(WORK, "c")
    os.makedirs(d, exist_ok=True)
    # one binary per checking process: several properties share harness names (the trx_if.c harness serves C04 C05 C14 C20) and
    # their checks may run at the same time - a check must never find its binary removed or half written by another one
    out = os.path.join(d, "%s.%d" % (name, os.getpid()))
    if os.path.exists(out):
        os.unlink(out)
    if out not in _CC_OUTPUTS:
        _CC_OUTPUTS.append(out)
        if len(_CC_OUTPUTS) == 1:
            import atexit
            atexit.register(lambda: [os.path.exists(f) and os.unlink(f) for f in _CC_OUTPUTS])
    san = "-fsanitize=address,undefined -fno-sanitize-recover=undefined -fno-omit-frame-pointer" if sanitize else ""
    cmd = "%s -g -O1 -w %s %s -o %s %s" % (compiler, san, flags, out, " ".join(sources))
    rc, log = sh(cmd, timeout=timeout)
    return rc == 0 and os.path.exists(out), out, cmd + "\n" + log


def c_function_text(path, name):
    """textual extraction (brace matching) of one C function definition"""
    with open(path) as f:
        src = f.read()
    m = re.search(r"^[A-Za-z_][^\n;{}()]*\b%s\s*\([^;{]*\)\s*\{" % re.escape(name), src, re.M)
    if not m:
        raise RuntimeError("function %s not found in %s" % (name, path))
    i = m.end() - 1
    depth = 0
    j = i
    while j < len(src):
        c = src[j]
        if c == "{":
            depth += 1
        elif c == "}":
            depth -= 1
            if depth == 0:
                return src[m.start():j + 1]
        j += 1
    raise RuntimeError("unbalanced braces in %s" % name)


# ------------------------------------------------------------------ Coq literal helpers

def zlist(xs):
    return "[" + ";".join(str(int(x)) if x >= 0 else "(%d)" % x for x in xs) + "]"


def gen_header(src):
    return ("(* GENERATED on every run from %s -- do not edit *)\n"
            "From Coq Require Import ZArith List.\nImport ListNotations.\nOpen Scope Z_scope.\n\n" % src)


# ------------------------------------------------------------------ per-check context

class Ctx:
    def __init__(self, pid, tier, seed, replay=None):
        self.pid = pid
        self.tier = tier
        self.seed = seed
        self.replay = replay
        self.rng = Rng(seed).fork(pid)
        self.t0 = time.time()
        self.notes = []
        self.proof_failures = []      # (theorem-or-file, text)
        self.corr_failures = []       # dict(case=..., model=..., impl=..., name=...)
        self.oracle_failures = []     # dict(case=..., what=..., key=...)
        self.theorems = []
        self.assumptions = {}
        self.evaluations = 0
        self.distinct = set()
        self.samples = []
        self.hist = {}
        self.extra = {}
        self.checker_cmds = []
        self.exhaustive = False
        self.findings = load_findings()
        self.known_hit = []
        self.traces = 0

    # ---- bookkeeping
    def note(self, s):
        self.notes.append(s)
        print("note: " + s, flush=True)

    def count(self, key, n=1):
        self.hist[key] = self.hist.get(key, 0) + n

    def sample(self, s, limit=6):
        if len(self.samples) < limit:
            self.samples.append(s)

    def nontrivial(self, key):
        self.distinct.add(key if isinstance(key, (str, int, tuple)) else json.dumps(key, sort_keys=True))

    # ---- Gen
    def gen(self, name, text):
        if not hasattr(self, "generated"):
            self.generated = set()
        self.generated.add(name)
        p = os.path.join(TH, "Gen", name + ".v")
        if write_if_changed(p, text):
            self.note("Gen/%s.v regenerated (content changed)" % name)

    # ---- proofs
    GEN_PROVIDERS = {"GsmTimeConst": "props.C19:gen", "GsmTimeSites": "props.C19:gen", "FwGsmtimeConst": "props.C08:gen", "CodecConst": "props.C16:gen", "TrxdProto": "props.C17:gen", "HoppingTab": "props.C07:gen",
                     "FwSchedConst": "props.C08:gen", "ClockConst": "props.C09:gen", "MframeFw": "props.C11:gen", "MframeTrxcon": "props.C11:gen",
                     "SercommConst": "props.C06:gen", "MobAllocConst": "props.C20:gen", "MobAllocSi4Const": "props.C20:gen",
                     "FakeTrxConst": "gen.faketrx:gen_faketrx", "TscTab": "gen.faketrx:gen_faketrx", "TrxdConst": "gen.trxd:gen_trxd", "TrxIfConst": "trxif_util:gen_trxif"}

    def ensure_gen(self, vfile):
        """every Gen file in the cone of vfile that this run has not (re)generated itself is regenerated now from the repository
        under test by the module that owns it (a property's cone may use tables another property's gen() produces: in a fresh
        private tree they do not exist yet, and in the shared tree they must not be stale)"""
        import importlib
        done = set()
        for v in coq_cone(vfile):
            if os.sep + "Gen" + os.sep not in v:
                continue
            name = os.path.splitext(os.path.basename(v))[0]
            if name in getattr(self, "generated", set()):
                continue
            prov = self.GEN_PROVIDERS.get(name)
            if prov is None or prov in done:
                continue
            done.add(prov)
            mod, fn = prov.split(":")
            try:
                getattr(importlib.import_module("vp." + mod), fn)(self)
            except Exception as e:  # noqa - the build below reports the missing file
                self.note("could not regenerate Gen/%s.v through %s: %s: %s" % (name, prov, type(e).__name__, e))

    def prove(self, allowed_axioms=()):
        """build the cone of Props/<pid>.v, audit assumptions and forbidden tokens"""
        props = os.path.join(TH, "Props", self.pid + ".v")
        self.ensure_gen(props)
        ok, logs, failed = coq_build([props], force=[props])
        self.checker_cmds.append("coqc -q -Q coq/theories OBB <cone of Props/%s.v> (full .vo build, %d files)" % (self.pid, len(coq_cone(props))))
        cone = coq_cone(props)
        self.extra["coq_files"] = [os.path.relpath(v, TH) for v in cone]
        self.extra["coq_seconds"] = round(sum(l[2] for l in logs.values()), 1)
        if not ok:
            rc, out, _ = logs[failed]
            self.proof_failures.append((os.path.relpath(failed, TH), out[-4000:]))
            try:
                with open(props) as f:
                    self.theorems = re.findall(r"^\s*Theorem\s+([A-Za-z0-9_']+)", f.read(), re.M)
            except OSError:
                pass
            return False
        thms, prints, ass = parse_assumptions(props, logs[props][1])
        self.theorems = thms
        self.assumptions = ass
        for t in thms:
            if t not in ass:
                self.proof_failures.append((t, "no Print Assumptions for theorem " + t))
        for t, ax in ass.items():
            bad = [a for a in ax if a not in allowed_axioms]
            if bad:
                self.proof_failures.append((t, "unexpected assumptions: " + ", ".join(bad)))
        hits = grep_forbidden(cone)
        if hits:
            self.proof_failures.append(("forbidden-token-audit", "\n".join(hits)))
        return not self.proof_failures

    def coqchk(self, timeout=1500):
        with Lock():
            rc, out = sh(["coqchk", "-silent", "-o", "-Q", TH, "OBB", "OBB.Props." + self.pid], timeout=timeout, cwd=COQ)
        self.checker_cmds.append("coqchk -silent -o -Q coq/theories OBB OBB.Props.%s" % self.pid)
        self.extra["coqchk_rc"] = rc
        tail = out[-3000:]
        self.extra["coqchk_tail"] = tail
        if rc != 0:
            self.proof_failures.append(("coqchk", tail))
        else:
            m = re.search(r"\* Axioms:(.*?)(?:\n\s*\n|\* |$)", out, re.S)
            ax = m.group(1).strip() if m else "?"
            self.extra["coqchk_axioms"] = ax
            if ax not in ("<none>",):
                self.proof_failures.append(("coqchk", "coqchk reports axioms: " + ax))
        return rc == 0

    # ---- model
    def model(self, group, lines):
        if not getattr(self, "_built_" + group, False):
            with Lock("model-" + group):
                ok, log = build_model(group)
            if not ok:
                self.proof_failures.append(("extraction:" + group, log))
                raise ModelUnavailable(log)
            setattr(self, "_built_" + group, True)
        return run_model(group, lines)

    def correspond(self, name, group, cases, line_of, impl_of, show=None):
        """cases: list; line_of(case)->model line; impl_of(case)->list[int].
        Compares model and implementation observations, returns list of (case, model, impl)."""
        lines = [line_of(c) for c in cases]
        try:
            mres = self.model(group, lines)
        except ModelUnavailable:
            return None
        out = []
        bad = 0
        for c, m in zip(cases, mres):
            i = impl_of(c)
            self.evaluations += 1
            self.traces += 1
            out.append((c, m, i))
            if m != i:
                bad += 1
                if len(self.corr_failures) < 20:
                    self.corr_failures.append(dict(name=name, case=show(c) if show else c, model=m, impl=i))
        self.count("corr:" + name, len(cases))
        if bad:
            self.count("corr_mismatch:" + name, bad)
        return out

    # ---- oracle
    def oracle_fail(self, what, case, key=None, expected=None, observed=None):
        if len(self.oracle_failures) < 50:
            self.oracle_failures.append(dict(what=what, case=case, key=key or what, expected=expected, observed=observed))
        self.count("oracle_fail:" + (key or what))

    # ---- finish
    def finish(self):
        wall = time.time() - self.t0
        viol = []
        os.makedirs(os.path.join(OUT, "replay"), exist_ok=True)
        # 1. concrete failing inputs on the implementation
        for k, f in enumerate(self.oracle_failures):
            kf = match_finding(self.findings, self.pid, f)
            if kf is not None:
                if kf["id"] not in self.known_hit:
                    self.known_hit.append(kf["id"])
                    print("KNOWN-FINDING: property=%s %s" % (self.pid, kf["what_fails"]), flush=True)
                continue
            path = os.path.join(OUT, "replay", "%s-%s-%d-%d.json" % (self.pid, self.tier, self.seed, len(viol)))
            with open(path, "w") as fh:
                json.dump(dict(property=self.pid, kind="input", side="implementation", what=f["what"], key=f["key"],
                               case=f["case"], expected=f["expected"], observed=f["observed"],
                               rerun="./bin/check %s --replay %s" % (self.pid, path)), fh, indent=1, default=str)
            viol.append("VIOLATION property=%s replay=%s" % (self.pid, path))
            if len(viol) >= 5:
                break
        # 2. proof or correspondence broken without a failing input
        if not viol and (self.proof_failures or self.corr_failures):
            # correspondence failures that coincide with an open known finding are covered by it only if
            # the finding declares that it also perturbs the correspondence (never the case by default)
            path = os.path.join(OUT, "replay", "%s-%s-%d-unproved.json" % (self.pid, self.tier, self.seed))
            with open(path, "w") as fh:
                json.dump(dict(property=self.pid, kind="theorem" if self.proof_failures else "correspondence",
                               theorems_or_files=[p[0] for p in self.proof_failures],
                               proof_log=[p[1] for p in self.proof_failures][:3],
                               correspondence=self.corr_failures[:10],
                               note="no input violating the property was found on the implementation; the property is no longer shown to hold",
                               rerun="./bin/check %s --tier %s" % (self.pid, self.tier)), fh, indent=1, default=str)
            viol.append("VIOLATION property=%s replay=%s no-failing-input-found" % (self.pid, path))
        n_thm = len(self.theorems)
        failed_thms = set(p[0] for p in self.proof_failures)
        discharged = 0 if any(p[0] not in self.theorems for p in self.proof_failures) else n_thm - len(failed_thms & set(self.theorems))
        cov = dict(
            obligations=max(n_thm, 1), discharged=discharged,
            checker_cmd="; ".join(self.checker_cmds) or "none",
            trusted_base=TRUSTED_BASE + self.extra.pop("trusted_extra", []),
            theorems=self.theorems, assumptions=self.assumptions,
            evaluations=self.evaluations, distinct_nontrivial=len(self.distinct),
            rule=self.extra.pop("rule", "generated correspondence cases; distinct = distinct canonical (input class, result) keys that are not the default branch"),
            samples=self.samples or ["<none>"], traces_validated_against_impl=self.traces,
            exhaustive=self.exhaustive, histogram=self.hist, notes=self.notes,
            known_findings_hit=self.known_hit,
            proof_failures=[p[0] for p in self.proof_failures],
            correspondence_mismatches=len(self.corr_failures), oracle_failures=len(self.oracle_failures),
        )
        cov.update(self.extra)
        ev = dict(property_id=self.pid, tier=self.tier, seed=self.seed, level="proof", coverage=cov,
                  assumptions=["theorems are about the Gallina model; the tie to /repo is Gen regeneration + differential correspondence (testing)"],
                  wall_s=round(wall, 2), violations=len(viol))
        os.makedirs(EVID, exist_ok=True)
        with open(os.path.join(EVID, self.pid + ".json"), "w") as fh:
            json.dump(ev, fh, indent=1, default=str)
        for v in viol:
            print(v, flush=True)
        print("%s %s: theorems %d/%d, correspondence cases %d (mismatches %d), oracle failures %d, known findings %d, %.1fs"
              % (self.pid, self.tier, discharged, n_thm, self.evaluations, len(self.corr_failures),
                 len(self.oracle_failures), len(self.known_hit), wall), flush=True)
        return 1 if viol else 0


class ModelUnavailable(Exception):
    pass


# ------------------------------------------------------------------ known findings

def load_findings():
    p = os.path.join(ROOT, "known_findings.json")
    try:
        with open(p) as f:
            return json.load(f)
    except FileNotFoundError:
        return {"findings": [], "fixed": []}


def match_finding(findings, pid, failure):
    """a failure matches an open finding iff property and key are equal (the key is specific:
    it names the failing input class / call site, see known_findings.json)"""
    for f in findings.get("findings", []):
        if f.get("property") == pid and f.get("status", "open") == "open" and f.get("key") == failure.get("key"):
            return f
    return None


# ------------------------------------------------------------------ toolkit import helper

def toolkit_env():
    e = dict(os.environ)
    e["PYTHONPATH"] = TOOLKIT
    e["PYTHONHASHSEED"] = "0"
    e["PYTHONDONTWRITEBYTECODE"] = "1"
    return e


def import_toolkit():
    sys.dont_write_bytecode = True
    if TOOLKIT not in sys.path:
        sys.path.insert(0, TOOLKIT)
