"""Gen/FakeTrxConst.v and Gen/TscTab.v: constants of fake_trx.py / ctrl_if.py / data_if.py / fake_pm.py and the
TrainingSeqGMSK table, read through the imported modules; receive sizes probed through fake sockets"""
from .. import common


def probe_recv_size(handle, sock, make):
    """largest datagram length delivered intact (probe 1..8192 by doubling + bisection on a recording recvfrom)"""
    seen = []
    orig = sock.recvfrom

    def rec(n):
        seen.append(n)
        return orig(n)
    sock.recvfrom = rec
    sock.inbox.append((make(), ("127.0.0.1", 1)))
    try:
        handle()
    except Exception:  # noqa
        pass
    sock.recvfrom = orig
    sock.inbox.clear()
    sock.sent.clear()
    return seen[0] if seen else -1


def gen_faketrx(ctx):
    from ..session import Session
    s = Session()
    try:
        F = s.fake_trx.FakeTRX
        t = s.trxs[0]
        consts = [("nominal_tx_power_default", F.NOMINAL_TX_POWER_DEFAULT), ("tx_att_default", F.TX_ATT_DEFAULT), ("path_loss_default", F.PATH_LOSS_DEFAULT),
                  ("toa256_base_default", F.TOA256_BASE_DEFAULT), ("ci_base_default", F.CI_BASE_DEFAULT),
                  ("toa256_noise_default", F.TOA256_NOISE_DEFAULT), ("rssi_noise_default", F.RSSI_NOISE_DEFAULT), ("ci_noise_default", F.CI_NOISE_DEFAULT)]
        consts.append(("trxc_delay_ms_max", F.TRXC_DELAY_MS_MAX))
        pm = s.app.fake_pm
        consts += [("pm_noise_min", pm.noise_min), ("pm_noise_max", pm.noise_max), ("pm_trx_min", pm.trx_min), ("pm_trx_max", pm.trx_max)]
        consts.append(("ctrl_recv_size", probe_recv_size(t.ctrl_if.handle_rx, t.ctrl_if.sock, lambda: b"CMD NOP\0")))
        consts.append(("data_recv_size", probe_recv_size(t.recv_data_msg, t.data_if.sock, lambda: bytes(8))))
        # defaults of a fresh FakeTRX, as the model's sim0/trx0 must reproduce them
        st, links, gen_running = s.state()
        fresh = st[0]
        txt = common.gen_header("fake_trx.py / fake_pm.py / ctrl_if.py / data_if.py (import, reflection, receive sizes probed on fake sockets)")
        for n, v in consts:
            txt += "Definition %s : Z := %s.\n" % (n, "%d" % v if v >= 0 else "(%d)" % v)
        txt += "Definition fresh_sim : list Z := %s.\n" % common.zlist(fresh["sim"])
        txt += "Definition fresh_ver : Z := %d.\n" % fresh["ver"]
        txt += "Definition fresh_idle : bool := %s.\n" % ("true" if (not fresh["run"] and fresh["rx"] is None and fresh["tx"] is None and fresh["fh"] is None and not fresh["q"] and not links and not gen_running) else "false")
        ctx.gen("FakeTrxConst", txt)
        import gsm_shared
        rows = []
        bt_code = {"NORMAL": 0, "ACCESS": 1, "SYNC": 2}
        for ts in list(gsm_shared.TrainingSeqGMSK):
            rows.append("(%d,%d,%d,%s)" % (ts.tsc, bt_code.get(ts.bt.name, 9), ts.tsc_set, common.zlist(list(ts.seq))))
        txt = common.gen_header("gsm_shared.TrainingSeqGMSK (members in enumeration order: tsc, burst type 0=NORMAL 1=ACCESS 2=SYNC, tsc_set, bits)")
        txt += "Definition tsc_tab : list (Z * Z * Z * list Z) := [%s].\n" % ";\n  ".join(rows)
        import rand_burst_gen
        txt += "Definition dummy_burst : list Z := %s.\n" % common.zlist(list(rand_burst_gen.RandBurstGen.db_bits)) if hasattr(rand_burst_gen.RandBurstGen, "db_bits") else ""
        ctx.gen("TscTab", txt)
    finally:
        s.close()
