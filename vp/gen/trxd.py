"""Gen/TrxdConst.v: constants and tables of data_msg.py / gsm_shared.py / data_dump.py read through the imported modules"""
from .. import common


def gen_trxd(ctx):
    common.import_toolkit()
    import data_msg
    import gsm_shared
    import data_dump
    M = data_msg
    mods = [(int(m.coding), int(m.bl)) for m in list(M.Modulation)]
    tsc = list(M.RxMsg.TSC_RANGE)
    assert tsc == list(range(tsc[0], tsc[-1] + 1))
    t = common.gen_header("data_msg.py / gsm_shared.py / data_dump.py (import + attribute reflection)")
    t += "Definition mods : list (Z * Z) := [%s].\n" % ";".join("(%d,%d)" % m for m in mods)
    t += "Definition mod_names : list (list Z) := [%s].\n" % ";".join(common.zlist(list(m.name.encode())) for m in list(M.Modulation))
    t += "Definition known_versions : list Z := %s.\n" % common.zlist(list(M.Msg.KNOWN_VERSIONS))
    t += "Definition chdr_version_max : Z := %d.\n" % M.Msg.CHDR_VERSION_MAX
    for name, val in [("gsm_hyperframe", gsm_shared.GSM_HYPERFRAME), ("gsm_superframe", gsm_shared.GSM_SUPERFRAME),
                      ("gmsk_burst_len", gsm_shared.GMSK_BURST_LEN), ("edge_burst_len", gsm_shared.EDGE_BURST_LEN),
                      ("pwr_min", M.TxMsg.PWR_MIN), ("pwr_max", M.TxMsg.PWR_MAX),
                      ("rssi_min", M.RxMsg.RSSI_MIN), ("rssi_max", M.RxMsg.RSSI_MAX),
                      ("toa256_min", M.RxMsg.TOA256_MIN), ("toa256_max", M.RxMsg.TOA256_MAX),
                      ("tsc_min", tsc[0]), ("tsc_max", tsc[-1]),
                      ("ci_min", M.RxMsg.CI_MIN), ("ci_max", M.RxMsg.CI_MAX), ("nope_ind", M.RxMsg.NOPE_IND),
                      ("dump_tag_tx", data_dump.DATADump.TAG_TxMsg),
                      ("dump_tag_rx", data_dump.DATADump.TAG_RxMsg),
                      ("dump_hdr_length", data_dump.DATADump.HDR_LENGTH)]:
        if isinstance(val, (bytes, bytearray)):
            val = val[0]
        t += "Definition %s : Z := %s.\n" % (name, "%d" % val if val >= 0 else "(%d)" % val)
    for name in ("_tab_usbit2sbit", "_tab_sbit2usbit", "_tab_sbit2ubit", "_tab_ubit2sbit"):
        tab = [int(x) for x in getattr(M.Msg, name)]
        assert len(tab) == 256
        t += "Definition %s : list Z := %s.\n" % (name[1:], common.zlist(tab))
    # header lengths as computed by the classes
    tx, rx = M.TxMsg(), M.RxMsg()
    hl = []
    for v in (0, 1):
        tx.ver = v
        rx.ver = v
        hl.append((v, int(tx.HDR_LEN), int(rx.HDR_LEN)))
    t += "Definition hdr_lens : list (Z * Z * Z) := [%s].\n" % ";".join("(%d,%d,%d)" % h for h in hl)
    t += "Definition chdr_len : Z := %d.\n" % int(tx.CHDR_LEN)
    ctx.gen("TrxdConst", t)
