"""C05 - every TRXC command gets exactly one well-formed response with documented effect.
Model: Model/Trx.v (handle_rx, parse_cmd, fake_handler) + Model/TrxIf.v (trxcon's command printers and response parser);
theorems: Props/C05.v.  Tie: Gen (receive sizes probed, TRXC_BUF_SIZE as compiled) + command sessions on the real Application vs the
extracted model + independent reference implementation of the documented command table + end to end with the real trx_if.c:
every command trxcon emits is answered by the toolkit and the reply is accepted by trxcon's response parser."""
from .. import common, session_check as SC, session_wire as W, trxif_util as TI
from ..session import Session


def gen(ctx):
    SC.gen_all(ctx)
    TI.gen_trxif(ctx)


class Ref:
    """the documented semantics, written independently of the model (Appendix B of DESIGN.md)"""
    def __init__(self, cfg):
        self.cfg = cfg
        self.t = [dict(run=False, rx=None, tx=None, fh=None, ver=0, muted=False, fake_rssi=False, txp=50, att=0, toa=0, toa_t=0, rssi=-60, rssi_t=0,
                       ci=90, ci_t=0, ta=0, drop=0, period=1, delay=0) for _ in cfg]

    def power(self, i, on):
        aff = [i] + (self.cfg[i]["children"] if self.cfg[i]["mgt"] and self.cfg[i]["idx"] == 0 else [])
        for j in aff:
            self.t[j]["run"] = on
            if not on:
                self.t[j]["fh"] = None

    def cmd(self, i, verb, a):
        """-> (status, extra results or 'RANGE(lo,hi)')"""
        t = self.t[i]
        n = len(a)
        if verb == "SETTA" and n == 1:
            t["ta"] = a[0]; return 0, []
        if verb == "FAKE_TOA" and n == 2:
            if a[1] < 0: return -1, []
            t["toa"], t["toa_t"] = a; return 0, []
        if verb == "FAKE_TOA" and n == 1:
            t["toa"] += a[0]; return 0, []
        if verb == "FAKE_RSSI" and n == 2:
            if a[1] < 0:
                t["fake_rssi"] = False; return 0, []
            t["rssi"], t["rssi_t"] = a; t["fake_rssi"] = True; return 0, []
        if verb == "FAKE_RSSI" and n == 1:
            t["rssi"] += a[0]; return 0, []
        if verb == "FAKE_CI" and n == 2:
            if a[1] < 0: return -1, []
            t["ci"], t["ci_t"] = a; return 0, []
        if verb == "FAKE_CI" and n == 1:
            t["ci"] += a[0]; return 0, []
        if verb == "FAKE_DROP" and n == 1:
            if a[0] < 0: return -1, []
            t["drop"], t["period"] = a[0], 1; return 0, []
        if verb == "FAKE_DROP" and n == 2:
            if a[0] < 0 or a[1] <= 0: return -1, []
            t["drop"], t["period"] = a; return 0, []
        if verb == "FAKE_TRXC_DELAY" and n == 1:
            if a[0] > 9223372036854: return -1, []      # more than time.sleep() takes (2^63-1 ns): refused since the repair of c14-trxc-delay-overflow
            t["delay"] = a[0]; return 0, []
        if verb == "POWERON" and n == 0:
            if t["run"] or not ((t["rx"] is not None and t["tx"] is not None) or t["fh"] is not None):
                return -1, []
            self.power(i, True); return 0, []
        if verb == "POWEROFF" and n == 0:
            self.power(i, False); return 0, []
        if verb == "RXTUNE" and n == 1:
            t["rx"] = a[0] * 1000; return 0, []
        if verb == "TXTUNE" and n == 1:
            t["tx"] = a[0] * 1000; return 0, []
        if verb == "MEASURE" and n == 1:
            if not self.cfg[i]["pm"]: return -1, []
            hit = any(u["run"] and u["fh"] is None and u["tx"] == a[0] * 1000 for u in self.t)
            return 0, ("RANGE", -75, -50) if hit else ("RANGE", -120, -105)
        if verb == "SETFH" and n >= 4:
            if not 0 <= a[0] <= 63: return -1, []
            fs = [f * 1000 for f in a[2:]]
            t["fh"] = (a[0], a[1], list(zip(fs[0::2], fs[1::2]))); return 0, []
        if verb == "SETFORMAT" and n == 1:
            if a[0] < 0 or a[0] > 15: return -1, []
            if a[0] in (0, 1):
                t["ver"] = a[0]; return a[0], []
            return 1, []
        if verb == "SETPOWER" and n == 1:
            t["att"] = a[0]; return 0, []
        if verb == "NOMTXPOWER" and n == 0:
            return 0, [str(t["txp"])]
        if verb == "RFMUTE" and n == 1:
            t["muted"] = a[0] > 0; return 0, []
        return 0, []

    def sim(self, i):
        t = self.t[i]
        return [int(t["muted"]), int(t["fake_rssi"]), t["txp"], t["att"], t["toa"], t["toa_t"], t["rssi"], t["rssi_t"], t["ci"], t["ci_t"], t["ta"], t["drop"], t["period"], t["delay"]]


def make_script(rng):
    defs = W.rand_trx_defs(rng)
    n = 2 + len(defs)
    ops = [("draws", [rng.below(1 << 16) for _ in range(60)])]
    for _ in range(rng.range(20, 90)):
        ops.append(("ctrl", rng.below(n), W.rand_cmd(rng, True)))
        if rng.chance(1, 12):
            ops.append(("ctrl", rng.below(n), list(rng.choice([b"IND CLOCK 5\0", b"RSP POWERON 0\0", b"", b"CM", b"cmd POWERON\0", b"XCMD POWERON\0",
                                                          b"CMD\0", b"CMD \0", b"CMD", b"CMD  \0"]))))
        if rng.chance(1, 8):
            ops.append(("ctrl", rng.below(n), W.rejected_cmd(rng)))      # refused (out-of-range HSN, version, period ...): status < 0 and NO effect,
                                                                          # in particular on what an earlier accepted command of the same verb set up
        if rng.chance(1, 10):
            ops.append(("state",))
    ops.append(("state",))
    return defs, ops


def oracle(ctx, script, real):
    defs, ops = script
    cfg, obs, events = real
    ref = Ref(cfg)
    for e in events:
        op = e["op"]
        if op[0] == "ctrl":
            data = bytes(op[2])
            o = e["obs"]
            if e.get("exc") or o[1] in (2, 3):
                ctx.oracle_fail("handle_rx raised or sent to another address / more than one reply", dict(cmd=data.decode("latin-1"), exc=e.get("exc")), key="c05-reply-count")
                continue
            if not data.startswith(b"CMD"):
                if o[1] != 0:
                    ctx.oracle_fail("a datagram without the CMD prefix was answered", dict(cmd=data.decode("latin-1")), key="c05-non-cmd-answered")
                continue
            if o[1] != 1:
                ctx.oracle_fail("a CMD datagram got no reply", dict(cmd=data.decode("latin-1")), key="c05-no-reply")
                continue
            reply = bytes(o[3:])
            toks = data[4:].decode().strip().strip("\0").split(" ")
            verb, args = toks[0], toks[1:]
            try:
                ia = [int(x) for x in args]
            except ValueError:
                continue      # not a well-formed command: C14's business
            st, extra = ref.cmd(op[1], verb, ia)
            ctx.nontrivial((verb, len(args), st, bool(cfg[op[1]]["children"]), cfg[op[1]]["idx"] > 0))
            if not reply.endswith(b"\0") or reply.count(b"\0") != 1 or not reply.startswith(b"RSP "):
                ctx.oracle_fail("reply is not 'RSP ... NUL'", dict(cmd=data.decode(), reply=list(reply)), key="c05-reply-shape")
                continue
            rt = reply[4:-1].decode().split(" ")
            want = [verb, str(st)] + args
            ok = rt[:len(want)] == want
            rest = rt[len(want):]
            if isinstance(extra, tuple):
                ok = ok and len(rest) == 1 and extra[1] <= int(rest[0]) <= extra[2]
            else:
                ok = ok and rest == extra
            if not ok:
                ctx.oracle_fail("reply differs from 'RSP <verb> <status> <original arguments> [results]' of the documented command table",
                                dict(cmd=data.decode(), reply=reply.decode("latin-1"), trx=op[1], ops=[SC.describe(x) for x in ops][:80]),
                                key="c05-status:" + verb, expected=want + (list(extra) if not isinstance(extra, tuple) else ["<dBm in %d..%d>" % extra[1:]]), observed=rt)
        elif "state" in e:
            st = e["state"][0]
            for i, t in enumerate(st):
                r = ref.t[i]
                got = (t["run"], t["rx"], t["tx"], t["fh"], t["ver"], t["sim"])
                want = (r["run"], r["rx"], r["tx"], r["fh"], r["ver"], ref.sim(i))
                if got != want:
                    ctx.oracle_fail("transceiver state after the commands differs from the documented effects", dict(trx=i, ops=[SC.describe(x) for x in ops][:80]),
                                    key="c05-effect", expected=want, observed=got)
                    return


def trxcon_end_to_end(ctx, rng):
    """every command kind trxcon emits -> real toolkit -> reply -> trxcon's real response parser"""
    n = 0
    cmds = [("poweroff",), ("setfreq_h0", 50), ("poweron",), ("measure", 50), ("setslot", 2, 1), ("setta", 3), ("poweroff",),
            ("setfreq_h1", 17, 3, [1, 5, 9, 100]), ("poweron",), ("poweroff",),
            ("setfreq_h1", 63, 63, list(range(1, 65))),            # the longest mobile allocation trxcon can encode
            ("setfreq_h1", 1, 0, list(range(955, 1019))), ("poweron",), ("setta", 63), ("measure", 1023), ("poweroff",)]
    for ta in (-128, -127, -64, -1, 0, 1, 64, 127, rng.range(-128, 127)):       # the documented range of trxcon's SETTA (distance spoofing below 0)
        cmds.append(("setta", ta))
    for _ in range(10 if ctx.tier == "quick" else 200):
        cmds.append(("setfreq_h1", rng.below(64), rng.below(64), sorted(set(rng.range(1, 124) for _ in range(rng.range(1, 64))))))
        cmds.append(("setfreq_h0", rng.choice([1, 124, 512, 885, 975, 1023])))
        cmds.append(("measure", rng.range(0, 1023)))
    s = Session()
    try:
        ms = 1
        for c in cmds:
            out = TI.c_ctrl_cmds(c)
            if out.get("rc") not in (0, "OK") and not out.get("crash"):
                continue      # trxcon itself refuses (e.g. an ARFCN outside every band)
            if out.get("crash"):
                ctx.oracle_fail("trxcon failed to compose a command", dict(cmd=c, out=str(out)[:300]), key="c05-trxcon-compose")
                continue
            for crit, text in out["queue"]:
                n += 1
                before = s.state()[0][ms]
                o, exc = s.ctrl(ms, list(text) + ([0] if not text.endswith(b"\0") else []))
                if exc or o[1] != 1:
                    ctx.oracle_fail("the toolkit did not answer a command emitted by trxcon", dict(cmd=text.decode("latin-1")[:100]), key="c05-trxcon-no-reply")
                    continue
                reply = bytes(o[3:])
                r = TI.c_ctrl_rsp(text.rstrip(b"\0"), list(reply), critical=crit)
                ctx.nontrivial(("trxcon", text.split(b" ")[1], r.get("outcome")))
                status = reply[4:-1].decode().split(" ")[1]
                if r.get("crash") or not (r["outcome"].startswith("accepted") or (r["outcome"] == "error" and status != "0")):
                    ctx.oracle_fail("trxcon's response parser does not accept the toolkit's reply", dict(cmd=text.decode("latin-1")[:120], reply=reply.decode("latin-1")[:120], result=str(r)[:300]),
                                    key="c05-trxcon-rejects-reply")
                if c[0] == "setta" and status == "0":
                    got_ta = s.state()[0][ms]["sim"][10]
                    if got_ta != c[1]:
                        ctx.oracle_fail("the timing advance the toolkit applies is not the one trxcon was asked to set", dict(ta=c[1], cmd=text.decode("latin-1"), reply=reply.decode("latin-1")),
                                        key="c05-trxcon-setta-value", expected=c[1], observed=got_ta)
                if text.startswith(b"CMD SETFH") and status == "0":
                    fh = s.state()[0][ms]["fh"]
                    want = len(c[3])
                    if fh is None or len(fh[2]) != want:
                        ctx.oracle_fail("SETFH from trxcon with %d channels configured %s channels although acknowledged with 0" % (want, None if fh is None else len(fh[2])),
                                        dict(cmd_len=len(text), cmd_head=text.decode()[:80]), key="c05-setfh-truncated", expected=want, observed=None if fh is None else len(fh[2]))
                ctx.evaluations += 1
    finally:
        s.close()
    ctx.count("trxcon_commands_end_to_end", n)
    # the SETFH composer against the specification on the lists that need the most room (16 characters per DCS / PCS pair: 62 fit,
    # 63 and 64 must be refused cleanly), and on every size around the limit in the other bands
    nspec = {}
    for base in (1, 61, 512, 700, 822, 975, 512 | 0x8000, 747 | 0x8000):
        for k in (1, 2, 31, 60, 61, 62, 63, 64):
            chans = [(base & 0x8000) | (((base & 0x3ff) + i) if (base & 0x3ff) + i <= (1023 if (base & 0x3ff) >= 955 else 885 if (base & 0x3ff) >= 512 else 124) else i - 40) for i in range(k)]
            r = TI.setfh_spec_check(ctx, rng.below(64), rng.below(64), chans, "c05")
            nspec[r] = nspec.get(r, 0) + 1
            ctx.nontrivial(("setfh-spec", base, k, r))
            ctx.evaluations += 1
    for r, k in nspec.items():
        ctx.count("setfh_composer:" + r, k)
    # trxcon's command printers against the model of trx_if.c (every command type, boundary parameters)
    pc = TI.sample_cmds(rng, 60 if ctx.tier == "quick" else 400)
    pobs = [TI.parse_cmd_obs(t) for t in TI.run_lines([TI.cmd_line(c, fork=(c[0] == "setslot")) for c in pc])]
    ctx.correspond("trx_if_handle_phyif_cmd", "TrxIf", list(range(len(pc))), lambda j: TI.m_cmd_line(pc[j]), lambda j: TI.cmd_wire(pobs[j]), show=lambda j: pc[j][:3])


def run(ctx):
    gen(ctx)
    ctx.prove()
    if ctx.tier == "thorough":
        ctx.coqchk()
    rng = ctx.rng
    n = 120 if ctx.tier == "quick" else 5000
    scripts = [make_script(rng) for _ in range(n)]
    reals = SC.run_scripts(ctx, "session", scripts)
    for s, r in zip(scripts, reals):
        oracle(ctx, s, r)
        W.refused_leaves_no_trace(ctx, s, r, "c05")
    # the documented EFFECT of the simulation-parameter commands (SETPOWER, SETTA, FAKE_RSSI / FAKE_TOA / FAKE_CI) is on the bursts
    # forwarded afterwards - judged on what the peer receives, not on the reply alone (generator and oracle shared with C10: the
    # parameters in force come from this module's reference of the command table applied to the command history)
    from . import C10 as _C10
    _bursts = _C10.gen_bursts(ctx.seed)
    _gi = {tuple(b[0]): (b[1], b[2], b[3]) for b in _bursts}
    eff = [_C10.make_script(rng, _bursts) for _ in range(40 if ctx.tier == "quick" else 1500)]
    ereals = SC.run_scripts(ctx, "effect-session", eff)
    for s, r in zip(eff, ereals):
        _C10.oracle(ctx, s, r, _gi)
    # the documented effect of SETFH is on the tuning in every frame: after 'RSP SETFH 0' the transceiver resolves its Rx / Tx frequency
    # through the list the command carried - ALL of its 1..64 channels, by TS 45.002 6.2.3 (independent transcription shared with C07)
    from . import C07 as _C07
    nfh = 0
    for n, hsn in [(n, h) for n in ([1, 2, 3, 31, 32, 33, 62, 63, 64] if ctx.tier == "quick" else list(range(1, 65))) for h in (0, 37, rng.range(1, 63))]:
        maio = rng.below(n)
        pairs = [(935000 + 200 * k, 890000 + 200 * k) for k in range(n)]
        rng.shuffle(pairs)
        sess = Session()
        text = "CMD SETFH %d %d %s" % (hsn, maio, " ".join("%d %d" % p for p in pairs))
        o, exc = sess.ctrl(0, W.cmd(text))
        rsp = bytes(o[3:]).decode("latin-1") if o and len(o) > 3 else ""
        if exc or not rsp.startswith("RSP SETFH 0 "):
            ctx.oracle_fail("SETFH with %d channels is not accepted" % n, dict(command=text[:80], reply=rsp[:80], exception=exc), key="c05-setfh-refused")
            continue
        t = sess.trxs[0]
        for fn in [0, 1, 50, 51, 1325, 1326, 2715647] + [rng.below(2715648) for _ in range(40)]:
            k = _C07.spec_mai(hsn, maio, n, fn)
            got = (t.get_rx_freq(fn), t.get_tx_freq(fn))
            nfh += 1
            if got != (pairs[k][0] * 1000, pairs[k][1] * 1000) and got != pairs[k]:
                ctx.oracle_fail("after an accepted SETFH the transceiver is not tuned to the channel TS 45.002 selects from the list the command carried",
                                dict(hsn=hsn, maio=maio, channels=n, fn=fn, mai=k, command=text[:60] + "..."), key="c05-setfh-effect",
                                expected=list(pairs[k]), observed=list(got))
                break
    ctx.count("setfh_effect_frames", nfh)
    ctx.evaluations += nfh
    trxcon_end_to_end(ctx, rng)
    ctx.sample([SC.describe(o) for o in scripts[0][1][1:12]])
    ctx.count("commands", sum(1 for s in scripts for o in s[1] if o[0] == "ctrl"))
    ctx.extra["rule"] = ("command sessions on 2..6 transceivers: every verb (incl. unknown ones) x natural and other argument counts 0..4 x boundary integers, SETFH with 0..16 frequencies, non-CMD datagrams; "
                         "reply octets, reply address/count and full state compared with the extracted model and with an independent reference of the documented table; "
                         "trxcon end to end: commands composed by the real trx_if.c (incl. SETFH with 64 channels) answered by the real toolkit and parsed by the real trx_ctrl_read_cb; "
                         "distinct_nontrivial = distinct (verb, argc, status, parent/child) and (trxcon verb, parser outcome)")
