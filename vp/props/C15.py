"""C15 - capture files return exactly what was stored, even after truncation.
Model: Model/Dump.v over Model/Trxd.v; theorems: Props/C15.v.
Tie: Gen/TrxdConst.v (tags, HDR_LENGTH by reflection on data_dump.DATADump) + correspondence of the real DATADumpFile
(on io.BytesIO, and on a real file opened through the str constructor) with the extracted model:
append_all (valid and invalid messages), _seek2msg (incl. the descriptor position), parse_msg(idx), parse_all(skip, count),
every one of them also on truncated and on damaged files."""
import io
import logging
import os
import tempfile

from .. import common
from .. import trxd_util as U
from ..gen.trxd import gen_trxd

HMASK = (1 << 30) - 1


def gen(ctx):
    common.import_toolkit()
    import data_dump
    D = data_dump.DATADump
    # the model keeps one octet per tag (Gen takes val[0]); a longer tag is a different format
    if len(D.TAG_TxMsg) != 1 or len(D.TAG_RxMsg) != 1:
        raise RuntimeError("DATADump tags are no longer single octets: %r %r" % (D.TAG_TxMsg, D.TAG_RxMsg))
    gen_trxd(ctx)


# ---------------------------------------------------------------- encodings (mirror enc_msg / enc_one / enc_pall of Model/Dump.v)

def enc_msg(m):
    e = U.enc(m)
    return [0 if m["kind"] == "tx" else 1, len(e)] + e


def enc_msgs(ms):
    out = []
    for m in ms:
        out += enc_msg(m)
    return out


def digest(l):
    h = 17
    for x in l:
        h = (h * 131 + x + 70001) & HMASK
    return h


def dig_pall(e):
    return [0, e[1], digest(e)] if e[0] == 0 else [e[0], 0, 0]


def dig_one(e):
    return [e[0], digest(e)]


def wopt(x):
    return [0, 0] if x is None else [1, int(x)]


# ---------------------------------------------------------------- the real class

class Real:
    def __init__(self):
        common.import_toolkit()
        import data_dump
        logging.disable(logging.CRITICAL)      # log.error() on every short read would flood the output
        self.DD = data_dump

    def open(self, octets, at_end=False):
        bio = io.BytesIO(bytes(octets))
        if at_end:
            bio.seek(0, 2)
        return self.DD.DATADumpFile(bio), bio

    def one(self, r):
        if r is None:
            return [1]
        if r is False:
            return [2]
        return [0] + enc_msg(U.from_real(r))

    def pall(self, r):
        if r is False:
            return [1]
        out = [0, len(r)]
        for o in r:
            out += enc_msg(U.from_real(o))
        return out

    def parse_msg_raw(self, octets, idx):
        ddf, _ = self.open(octets)
        return ddf.parse_msg(idx)

    def parse_msg(self, octets, idx):
        try:
            return self.one(self.parse_msg_raw(octets, idx))
        except Exception:  # noqa
            return [3]

    def parse_all_raw(self, octets, skip, count):
        ddf, _ = self.open(octets)
        return ddf.parse_all(skip=skip, count=count)

    def parse_all(self, octets, skip, count):
        try:
            return self.pall(self.parse_all_raw(octets, skip, count))
        except Exception:  # noqa
            return [3]

    def seek(self, octets, idx):
        ddf, bio = self.open(octets)
        try:
            rc = ddf._seek2msg(idx)
        except Exception:  # noqa
            return [3]
        return [0, bio.tell()] if rc else [1]

    def append(self, octets, msgs):
        ddf, bio = self.open(octets, at_end=True)
        try:
            ddf.append_all([U.real(m) for m in msgs])
            st = 0
        except Exception as e:  # noqa
            st = U.exc_class(e)[0]
        return [st] + list(bio.getvalue())

    def dump_msg(self, m):
        try:
            return [0] + list(self.DD.DATADump().dump_msg(U.real(m)))
        except Exception as e:  # noqa
            return U.exc_class(e)

    def file_roundtrip(self, msgs_a, msgs_b, read_between):
        """the str constructor (mode a+b) on a real file: append, optionally read, append again, read everything"""
        d = tempfile.mkdtemp(prefix="c15-", dir=os.path.join(common.WORK))
        p = os.path.join(d, "capture.bin")
        try:
            ddf = self.DD.DATADumpFile(p)
            ddf.append_all([U.real(m) for m in msgs_a])
            mid = None
            if read_between:
                mid = self.pall(ddf.parse_all())
                self.one(ddf.parse_msg(0))
            ddf.append_all([U.real(m) for m in msgs_b])
            ddf.f.flush()
            with open(p, "rb") as fh:
                content = list(fh.read())
            res = self.pall(ddf.parse_all())
            del ddf
            return content, mid, res
        finally:
            try:
                os.unlink(p)
            except OSError:
                pass
            os.rmdir(d)


# ---------------------------------------------------------------- expectations stated independently of the code

def in_domain(m):
    """the property's quantifier: a valid message; Rx soft bits in [-127, 127]"""
    if not U.spec_valid(m):
        return False
    return m["kind"] == "tx" or m["burst"] is None or all(-127 <= s <= 127 for s in m["burst"])


def spec_rec_len(m):
    """tag + 16-bit length + TRXD header of the version + burst"""
    bl = 0 if m["burst"] is None else len(m["burst"])
    if m["kind"] == "tx":
        return 3 + 6 + bl
    return 3 + (8 if m["ver"] == 0 else 11) + bl


def n_complete(lens, k):
    n, end = 0, 0
    for l in lens:
        end += l
        if end <= k:
            n += 1
        else:
            break
    return n


def spec_slice(ms, skip, count):
    if skip is not None and skip > len(ms):
        return False
    r = ms[max(skip or 0, 0):]
    if count is not None and count >= 1:
        r = r[:count]
    return r


def same_msgs(got, want):
    return len(got) == len(want) and all(U.carried(a) == U.carried(b) for a, b in zip(got, want))


def msg_class(m):
    if m["kind"] == "tx":
        return ("tx", m["ver"], len(m["burst"]) if m["burst"] is not None else None)
    return ("rx", m["ver"], bool(m["nope"]) if m["ver"] == 1 else None, m["mod"] if m["ver"] == 1 and not m["nope"] else None,
            len(m["burst"]) if m["burst"] is not None else None)


# ---------------------------------------------------------------- generators

def rand_valid(rng, soft_domain=True):
    while True:     # trxd_util's FN pool holds a few values beyond the hyperframe
        m = U.rand_tx(rng) if rng.chance(1, 3) else U.rand_rx(rng, soft_domain=soft_domain)
        if U.spec_valid(m):
            return m


def rand_invalid(rng):
    for _ in range(20):
        m = U.rand_tx(rng, valid=False) if rng.chance(1, 3) else U.rand_rx(rng, valid=False)
        if not U.spec_valid(m):
            return m
    m = U.rand_tx(rng)
    m["tn"] = 8
    return m


def small_valid(rng):
    """short records (NOPE, 148-bit bursts) so that whole-file sweeps stay cheap"""
    for _ in range(50):
        m = rand_valid(rng)
        if m["burst"] is None or len(m["burst"]) == 148:
            return m
    return U.rand_tx(rng)


def damage(rng, octets, bounds):
    """-> (kind, damaged file). bounds = record start offsets (plus the end)"""
    f = list(octets)
    how = rng.below(8)
    starts = bounds[:-1]
    if not starts:
        return "garbage", [rng.below(256) for _ in range(rng.below(12))]
    s = rng.choice(starts)
    if how == 0:                                    # unknown tag
        f[s] = rng.choice([0, 3, 4, 255, 0x10, 0x20])
        return "unknown-tag", f
    if how == 1:                                    # length too large (short read / seek beyond the end)
        f[s + 1] = rng.choice([0xff, 0x80, f[s + 1] + 1 & 0xff])
        return "length-larger", f
    if how == 2:                                    # length smaller: the reader resynchronises inside the body
        ln = f[s + 1] * 256 + f[s + 2]
        ln2 = rng.choice([0, 1, 4, 5, 6, 8, 11, max(ln - 1, 0), max(ln - 2, 0)])
        f[s + 1], f[s + 2] = ln2 >> 8, ln2 & 0xff
        return "length-smaller", f
    if how == 3:                                    # body no longer parses: version nibble
        f[s + 3] = (rng.choice([2, 3, 15]) << 4) | (f[s + 3] & 0x0f)
        return "body-bad-version", f
    if how == 4:                                    # tags swapped: a Tx body read as Rx or the other way round
        f[s] = 3 - f[s] if f[s] in (1, 2) else 1
        return "tag-swapped", f
    if how == 5:                                    # a whole zero-length record in front of a record
        return "zero-length-record", f[:s] + [rng.choice([1, 2]), 0, 0] + f[s:]
    if how == 6:                                    # a sound header whose body has an impossible length
        n = rng.choice([1, 4, 5, 7, 9, 10, 12, 100, 150])
        return "odd-body", f[:s] + [rng.choice([1, 2]), n >> 8, n & 0xff] + [rng.below(256) for _ in range(n)] + f[s:]
    k = rng.below(len(f) + 1)                       # random octets spliced in
    return "garbage-spliced", f[:k] + [rng.below(256) for _ in range(1 + rng.below(6))] + f[k:]


# ---------------------------------------------------------------- the check

def run(ctx):
    gen(ctx)
    ctx.prove()
    if ctx.tier == "thorough":
        ctx.coqchk()
    rng = ctx.rng
    quick = ctx.tier == "quick"
    R = Real()
    os.makedirs(common.WORK, exist_ok=True)

    def fl(octets):
        return " ".join(map(str, octets))

    # ---- 0. dump_msg on single messages (valid, invalid)
    singles = [rand_valid(rng, soft_domain=not rng.chance(1, 10)) if not rng.chance(1, 4) else rand_invalid(rng)
               for _ in range(150 if quick else 4000)]
    ctx.correspond("dump_msg", "Dump", singles,
                   lambda m: "w_dump_dump_msg %d %s" % (0 if m["kind"] == "tx" else 1, fl(U.enc(m))),
                   lambda m: R.dump_msg(m), show=U.short)
    for m in singles:
        o = R.dump_msg(m)
        if U.spec_valid(m):
            want = spec_rec_len(m)
            if o[0] != 0 or len(o) - 1 != want or o[1] != (1 if m["kind"] == "tx" else 2) or o[2] * 256 + o[3] != want - 3:
                ctx.oracle_fail("dump_msg of a valid message is not tag + BE16 length + message", U.short(m), key="c15-record-format",
                                expected=want, observed=o[:8])
            ctx.nontrivial(("dump",) + msg_class(m))
        elif o[0] == 0:
            ctx.oracle_fail("dump_msg accepts a message outside the protocol ranges", U.short(m), key="c15-dump-accepts-invalid")

    # ---- 1. lists of 0..6 mixed messages; append
    nlists = 36 if quick else 400
    lists = []
    for k in range(nlists):
        n = k % 7 if k < 14 else rng.below(7)
        small = rng.chance(1, 2)
        ms = [small_valid(rng) if small else rand_valid(rng) for _ in range(n)]
        kind = "valid"
        if rng.chance(1, 5):
            ms.insert(rng.below(len(ms) + 1), rand_invalid(rng))
            kind = "with-invalid"
        elif rng.chance(1, 8) and ms:
            j = rng.below(len(ms))
            if ms[j]["kind"] == "rx" and ms[j]["burst"] is not None:
                ms[j] = dict(ms[j], burst=[-128 if rng.chance(1, 3) else s for s in ms[j]["burst"]])
                kind = "soft-128"
        base = []
        if rng.chance(1, 4) and lists:
            base = lists[rng.below(len(lists))]["file"]      # append behind an existing capture
        L = dict(ms=ms, kind=kind, base=base)
        L["obs"] = R.append(L["base"], L["ms"])
        L["file"] = L["obs"][1:]
        lists.append(L)
    ctx.correspond("append_all", "Dump", lists,
                   lambda L: "w_dump_append %d %s %s" % (len(L["base"]), fl(L["base"]), fl(enc_msgs(L["ms"]))),
                   lambda L: L["obs"], show=lambda L: dict(kind=L["kind"], base=len(L["base"]), msgs=[U.short(m) for m in L["ms"]]))
    for L in lists:
        ms = L["ms"]
        nvalid = 0
        for m in ms:
            if not U.spec_valid(m):
                break
            nvalid += 1
        want_len = len(L["base"]) + sum(spec_rec_len(m) for m in ms[:nvalid])
        want_st = 0 if nvalid == len(ms) else 1
        if L["obs"][0] != want_st or len(L["file"]) != want_len or L["file"][:len(L["base"])] != L["base"]:
            ctx.oracle_fail("append_all: status / file length differ from 'records of the valid prefix behind the old content'",
                            dict(kind=L["kind"], msgs=[U.short(m) for m in ms]), key="c15-append",
                            expected=[want_st, want_len], observed=[L["obs"][0], len(L["file"])])
        ctx.nontrivial(("append", L["kind"], len(ms), nvalid, bool(L["base"])))

    # captures that lie in the property's domain: appended to an empty file, all messages valid and in the soft-bit domain
    caps = []
    for L in lists:
        if L["base"]:
            continue
        good = []
        for m in L["ms"]:
            if not U.spec_valid(m):
                break
            good.append(m)
        caps.append(dict(ms=good, file=L["file"], dom=all(in_domain(m) for m in good), lens=[spec_rec_len(m) for m in good]))
    ctx.count("captures", len(caps))
    ctx.count("captures_in_domain", sum(1 for c in caps if c["dom"]))

    def check_all(c, f, skip, count, cs, what, keyp, rest=None):
        """implementation-level oracle for parse_all on the real class. cs = the messages the file completely holds"""
        try:
            r = R.parse_all_raw(f, skip, count)
        except Exception as e:  # noqa
            ctx.oracle_fail("parse_all raises %s (%s)" % (type(e).__name__, what), dict(msgs=[U.short(m) for m in c["ms"]], skip=skip, count=count, cut=len(f)),
                            key=keyp + "-raises")
            return
        want = spec_slice(cs, skip, count)
        if want is False:
            if r is False:
                return
            if r == [] and rest is not None and rest >= 3 and skip == len(cs) + 1:
                ctx.count("cut_file_skip_one_beyond_gives_empty_list_not_False")     # c15_truncation_slice, second clause
                return
            ctx.oracle_fail("parse_all: skip beyond the stored messages does not give False (%s)" % what,
                            dict(msgs=[U.short(m) for m in c["ms"]], skip=skip, count=count, cut=len(f)), key=keyp + "-range")
            return
        if r is False or not same_msgs([U.from_real(o) for o in r], want):
            ctx.oracle_fail("parse_all does not return exactly the stored messages (%s)" % what,
                            dict(msgs=[U.short(m) for m in c["ms"]], skip=skip, count=count, cut=len(f)), key=keyp + "-differs",
                            expected=[U.short(m) for m in want], observed="False" if r is False else [U.short(U.from_real(o)) for o in r])

    def check_idx(c, f, i, cs, what, keyp):
        try:
            r = R.parse_msg_raw(f, i)
        except Exception as e:  # noqa
            ctx.oracle_fail("parse_msg raises %s (%s)" % (type(e).__name__, what), dict(msgs=[U.short(m) for m in c["ms"]], idx=i, cut=len(f)),
                            key=keyp + "-raises")
            return
        if 0 <= i < len(cs):
            ok = r is not None and r is not False and U.carried(U.from_real(r)) == U.carried(cs[i])
        else:
            ok = r is None
        if not ok:
            ctx.oracle_fail("parse_msg(%d) is not the stored message / None (%s)" % (i, what), dict(msgs=[U.short(m) for m in c["ms"]], idx=i, cut=len(f)),
                            key=keyp + "-differs")

    # ---- 2. full read, every index, seek positions, skip/count grid
    def batches(seq, n):
        for b0 in range(0, len(seq), n):
            yield seq[b0:b0 + n]

    def l_all(t):
        return "w_dump_parse_all %s %s %s" % (fl(wopt(t[1])), fl(wopt(t[2])), fl(t[0]))

    def l_idx(t):
        return "w_dump_parse_msg %d %s" % (t[1], fl(t[0]))

    def l_seek(t):
        return "w_dump_seek %d %s" % (t[1], fl(t[0]))

    def s_all(t):
        return dict(skip=t[1], count=t[2], file_len=len(t[0]), file_head=t[0][:40])

    def s_idx(t):
        return dict(idx=t[1], file_len=len(t[0]), file_head=t[0][:40])

    def three(suffix, p_all, p_idx, p_seek):
        ctx.correspond("parse_all" + suffix, "Dump", p_all, l_all, lambda t: R.parse_all(t[0], t[1], t[2]), show=s_all)
        ctx.correspond("parse_msg" + suffix, "Dump", p_idx, l_idx, lambda t: R.parse_msg(t[0], t[1]), show=s_idx)
        ctx.correspond("seek2msg" + suffix, "Dump", p_seek, l_seek, lambda t: R.seek(t[0], t[1]), show=s_idx)

    def read_cases(c, p_all, p_idx, p_seek):
        n = len(c["ms"])
        f = c["file"]
        for i in range(-1, n + 3):
            p_idx.append((f, i))
            p_seek.append((f, i))
            if c["dom"] and i >= 0:
                check_idx(c, f, i, c["ms"], "whole file", "c15-index")
        skips = sorted(set([0, 1, n - 1, n, n + 1, -1]))
        counts = sorted(set([1, 2, n, n + 1, 0, -1]))
        for s in [None] + skips:
            for cnt in [None] + counts:
                p_all.append((f, s, cnt))
                if c["dom"] and (s is None or s >= 0) and (cnt is None or cnt >= 1):
                    check_all(c, f, s, cnt, c["ms"], "whole file", "c15-slice" if (s, cnt) != (None, None) else "c15-full-read")
                ctx.nontrivial(("slice", n, "none" if s is None else ("neg" if s < 0 else min(s - n, 1) if s >= n else "in"),
                                "none" if cnt is None else ("<=0" if cnt <= 0 else "<n" if cnt < n else ">=n")))

    for batch in batches(caps, 10):
        p_all, p_idx, p_seek = [], [], []
        for c in batch:
            read_cases(c, p_all, p_idx, p_seek)
        three("", p_all, p_idx, p_seek)

    # ---- 2b. a long capture: counts, skips and indices beyond 256 (CPython caches small ints only up to 256: identity and
    #          equality of integers part ways there; one-octet quantities wrap there)
    nlong = 300 if quick else 700
    ms = [small_valid(rng) for _ in range(nlong)]
    o = R.append([], ms)
    c = dict(ms=ms, file=o[1:], dom=all(in_domain(m) for m in ms), lens=[spec_rec_len(m) for m in ms])
    if o[0] != 0 or not c["dom"]:
        ctx.oracle_fail("append_all refuses a list of %d valid messages" % nlong, dict(n=nlong), key="c15-append")
    else:
        p_all, p_idx, p_seek = [], [], []
        for (sk, cnt) in [(None, 255), (None, 256), (None, 257), (0, 258), (40, 257), (1, nlong - 1), (None, nlong), (None, nlong + 1), (256, 2), (257, None), (258, 1), (nlong, None)]:
            p_all.append((c["file"], sk, cnt))
            check_all(c, c["file"], sk, cnt, c["ms"], "long capture", "c15-slice")
            ctx.nontrivial(("long-slice", sk, cnt))
        for i in (255, 256, 257, nlong - 1, nlong):
            p_idx.append((c["file"], i))
            p_seek.append((c["file"], i))
            check_idx(c, c["file"], i, c["ms"], "long capture", "c15-index")
        three("-long", p_all, p_idx, p_seek)
    ctx.count("long_capture_messages", nlong)

    # ---- 2c. one DATADumpFile object used for a whole sequence of reads (and appends in between): every read must
    #          give what a fresh object gives on the same file content - no dependence on the position earlier calls left behind
    nhist = 0
    for c in [c for c in caps if c["dom"] and len(c["ms"]) >= 2][:8 if quick else 60]:
        ddf, bio = R.open(c["file"])
        n = len(c["ms"])
        for _ in range(12):
            if rng.chance(1, 2):
                i = rng.below(n + 2)
                got, want, what = R.one(ddf.parse_msg(i)), R.parse_msg(c["file"], i), "parse_msg(%d)" % i
            else:
                sk, cnt = rng.choice([None, 0, 1, n - 1, n]), rng.choice([None, 1, 2, n])
                got, want, what = R.pall(ddf.parse_all(skip=sk, count=cnt)), R.parse_all(c["file"], sk, cnt), "parse_all(skip=%r, count=%r)" % (sk, cnt)
            nhist += 1
            if got != want:
                ctx.oracle_fail("a read on a DATADumpFile that served other reads before differs from the same read on a fresh object: " + what,
                                dict(msgs=[U.short(m) for m in c["ms"]], call=what), key="c15-read-history")
                break
    ctx.count("reads_on_reused_object", nhist)

    # ---- 2d. the same with APPENDS between the reads, on a capture opened BY PATH (mode a+b: writes go to the end wherever the
    #          reads left the position): after every append the new message is stored, every earlier one is still there, and a read
    #          by index gives what a fresh object gives on the file as it is now - also for the index right behind the last read
    import tempfile
    nmix = 0
    os.makedirs(common.WORK, exist_ok=True)
    with tempfile.TemporaryDirectory(dir=common.WORK, prefix="c15-") as td:
        for k, c in enumerate([c for c in caps if c["dom"] and len(c["ms"]) >= 1][:8 if quick else 60]):
            path = os.path.join(td, "cap%d.bin" % k)
            with open(path, "wb") as fh:
                fh.write(bytes(c["file"]))
            ddf = R.DD.DATADumpFile(path)
            cur = list(c["ms"])
            expect_file = list(c["file"])        # what the capture must hold: the initial records followed by every appended record
            trace = []
            bad = None
            last = None
            for _ in range(14):
                w = rng.below(5)
                if w < 2:
                    m = small_valid(rng)
                    if not in_domain(m):
                        continue
                    ddf.append_msg(U.real(m))
                    cur.append(m)
                    expect_file += list(R.DD.DATADump().dump_msg(U.real(m)))
                    trace.append("append")
                    last = None if last is None else last      # the next read often asks for last + 1 (sequential access)
                    continue
                if w == 2 and last is not None:
                    i = last + 1
                else:
                    i = rng.below(len(cur) + 1)
                if rng.chance(1, 2):
                    # half of the reads look at the file on disk first (flushed): it holds exactly the expected records
                    ddf.f.flush()
                    content = list(open(path, "rb").read())
                    trace.append("flush")
                    if content != expect_file:
                        bad = (-1, content[-12:], expect_file[-12:])
                        break
                # the other half read straight through the object that has just appended (no flush by the caller: a reader of its own
                # capture does not know about buffers) - the i-th stored message is returned all the same
                got, want = R.one(ddf.parse_msg(i)), R.parse_msg(expect_file, i)
                spec = ([0] + enc_msg(cur[i])) if i < len(cur) else None
                trace.append("parse_msg(%d)" % i)
                nmix += 1
                last = i if got[0] == 0 else None
                if got != want or (spec is not None and got[0] != 0):
                    bad = (i, got, want)
                    break
            try:
                ddf.f.close()
            except Exception:  # noqa
                pass
            if bad:
                ctx.oracle_fail("reads and appends mixed on one DATADumpFile (opened by path): a read by index differs from the same read on a fresh object over the file as it is now",
                                dict(initial_msgs=[U.short(m) for m in c["ms"]], calls=trace, index=bad[0], stored=len(cur)), key="c15-read-after-append",
                                expected=bad[2][:12], observed=bad[1][:12])
    ctx.count("reads_mixed_with_appends", nmix)

    # ---- 2f. append_all() fed by a LAZY iterable that reads the same capture while it is consumed (copying selected records to the
    #          end: `ddf.append_all(ddf.parse_msg(i) for i in idxs)`), on a file object handed in (BytesIO: no append mode to hide
    #          behind): every stored record is still there afterwards and the copies follow, in order
    nlazy = 0
    for c in [c for c in caps if c["dom"] and len(c["ms"]) >= 3][:10 if quick else 120]:
        ddf, bio = R.open(c["file"])
        idxs = [rng.below(len(c["ms"])) for _ in range(rng.range(2, 5))]
        try:
            ddf.append_all(ddf.parse_msg(i) for i in idxs)
            err = None
        except Exception as e:  # noqa
            err = type(e).__name__
        want = list(c["file"])
        for i in idxs:
            want += list(R.DD.DATADump().dump_msg(U.real(c["ms"][i])))
        got = list(bio.getvalue())
        nlazy += 1
        if err or got != want:
            ctx.oracle_fail("append_all() consuming an iterable that reads the same capture does not leave the stored records followed by the copies"
                            + (" (raised %s)" % err if err else ""), dict(initial_msgs=[U.short(m) for m in c["ms"]], copied_indices=idxs, file_len=len(got), expected_len=len(want)),
                            key="c15-append-all-lazy", expected=want[-12:], observed=got[-12:])
            break
    ctx.count("lazy_append_all", nlazy)

    # ---- 2e. whole histories on one object opened by path against the model (Model/DumpHist.v, theorems c15_history_*): appends
    #          (valid and invalid messages), reads by index, full and sliced reads in any order, no flush by the caller anywhere;
    #          every answer and the length of the file at the end must be the model's
    hists = []
    with tempfile.TemporaryDirectory(dir=common.WORK, prefix="c15h-") as td:
        for k, c in enumerate([c for c in caps if c["dom"]][:12 if quick else 150]):
            path = os.path.join(td, "hist%d.bin" % k)
            with open(path, "wb") as fh:
                fh.write(bytes(c["file"]))
            ddf = R.DD.DATADumpFile(path)
            wire, outs, trace, stored = [], [], [], len(c["ms"])
            for _ in range(rng.range(4, 16)):
                w = rng.below(6)
                if w < 2:
                    m = small_valid(rng) if rng.chance(5, 6) else rand_invalid(rng)
                    wire += [10] + enc_msg(m)
                    try:
                        ddf.append_msg(U.real(m))
                        outs += [-1, 100]
                        stored += 1
                    except ValueError:
                        outs += [-1, 101]
                    except Exception:  # noqa
                        outs += [-1, 102]
                    trace.append("append(%s)" % U.short(m).get("kind"))
                elif w < 4:
                    i = rng.choice([0, stored - 1, stored, stored + 1, rng.below(stored + 1)])
                    wire += [11, i]
                    try:
                        outs += [-1] + R.one(ddf.parse_msg(i))
                    except Exception:  # noqa
                        outs += [-1, 3]
                    trace.append("parse_msg(%d)" % i)
                elif w == 4:
                    wire += [12]
                    try:
                        outs += [-1] + R.pall(ddf.parse_all())
                    except Exception:  # noqa
                        outs += [-1, 3]
                    trace.append("parse_all()")
                else:
                    sk, cn = rng.below(stored + 2), rng.choice([1, 2, 5, 100])
                    wire += [13, sk, cn]
                    try:
                        outs += [-1] + R.pall(ddf.parse_all(skip=sk, count=cn))
                    except Exception:  # noqa
                        outs += [-1, 3]
                    trace.append("parse_all(%d, %d)" % (sk, cn))
            try:
                ddf.f.flush()
                ddf.f.close()
            except Exception:  # noqa
                pass
            hists.append(dict(file=list(c["file"]), wire=wire, obs=[os.path.getsize(path)] + outs, trace=trace, initial=len(c["ms"])))
    ctx.correspond("history on one DATADumpFile (opened by path)", "Dump", hists,
                   lambda h: "w_dump_hist %d %s %s" % (len(h["file"]), fl(h["file"]), fl(h["wire"])),
                   lambda h: h["obs"], show=lambda h: dict(initial_msgs=h["initial"], calls=h["trace"]))
    ctx.count("histories_vs_model", len(hists))

    # ---- 3. truncation
    # exact comparison at sampled offsets (all record boundaries -1/0/+1, header boundaries +2/+3/+4, a few random ones)
    def cut_cases(c, p_all, p_idx, p_seek):
        f, lens = c["file"], c["lens"]
        n = len(lens)
        offs = set()
        end = 0
        for l in [0] + lens:
            end += l
            for d in (-1, 0, 1, 2, 3, 4, 8, 9, 12):
                if 0 <= end + d <= len(f):
                    offs.add(end + d)
        for _ in range(3 if quick else 8):
            offs.add(rng.below(len(f) + 1))
        for k in sorted(offs):
            g = f[:k]
            nc = n_complete(lens, k)
            rest = k - sum(lens[:nc])
            cs = c["ms"][:nc]
            p_all.append((g, None, None))
            if c["dom"]:
                check_all(c, g, None, None, cs, "cut at %d" % k, "c15-truncation", rest)
            for i in sorted(set([0, nc - 1, nc, nc + 1, rng.below(n + 2)])):
                if i < 0:
                    continue
                p_idx.append((g, i))
                p_seek.append((g, i))
                if c["dom"]:
                    check_idx(c, g, i, cs, "cut at %d" % k, "c15-truncation-index")
            for s, cnt in [(nc, None), (nc + 1, None), (nc + 2, 1), (rng.below(n + 2), rng.choice([None, 1, 2]))]:
                p_all.append((g, s, cnt))
                if c["dom"]:
                    check_all(c, g, s, cnt, cs, "cut at %d" % k, "c15-truncation-slice", rest)
            cut_in = "boundary" if rest == 0 else "header" if rest < 3 else "header-end" if rest == 3 else "body"
            ctx.nontrivial(("cut", cut_in, msg_class(c["ms"][nc]) if nc < n else "eof", min(nc, 2)))

    for batch in batches(caps, 6):
        p_all, p_idx, p_seek = [], [], []
        for c in batch:
            cut_cases(c, p_all, p_idx, p_seek)
        three("_cut", p_all, p_idx, p_seek)

    # every offset of a file in one model call (digests); quick: the short captures only, up to a budget of offsets
    budget = 4000 if quick else 200000
    sweeps = []
    order = sorted(caps, key=lambda c: len(c["file"]))
    if not quick:
        rng.shuffle(order)
    for c in order:
        f = c["file"]
        if not f or len(f) + 1 > budget:
            continue
        budget -= len(f) + 1
        n = len(c["ms"])
        idx = rng.below(n + 1)
        skip, cnt = rng.choice([None, 0, 1, n, n + 1, rng.below(n + 2)]), rng.choice([None, 1, 2, n])
        obs = []
        for k in range(len(f) + 1):
            g = f[:k]
            obs += dig_pall(R.parse_all(g, skip, cnt)) + dig_one(R.parse_msg(g, idx))
            if c["dom"]:
                nc = n_complete(c["lens"], k)
                cs = c["ms"][:nc]
                rest = k - sum(c["lens"][:nc])
                check_all(c, g, None, None, cs, "cut at %d" % k, "c15-truncation", rest)
                check_all(c, g, skip, cnt if cnt is None or cnt >= 1 else None, cs, "cut at %d" % k, "c15-truncation-slice", rest)
                check_idx(c, g, idx, cs, "cut at %d" % k, "c15-truncation-index")
        sweeps.append(dict(f=f, idx=idx, skip=skip, cnt=cnt, obs=obs, n=n))
    ctx.correspond("truncation_sweep", "Dump", sweeps,
                   lambda s: "w_dump_trunc_sweep %d %s %s 0 %d %s" % (s["idx"], fl(wopt(s["skip"])), fl(wopt(s["cnt"])), len(s["f"]) + 1, fl(s["f"])),
                   lambda s: s["obs"], show=lambda s: dict(idx=s["idx"], skip=s["skip"], count=s["cnt"], file_len=len(s["f"]), msgs=s["n"]))
    ctx.count("sweep_offsets", sum(len(s["f"]) + 1 for s in sweeps))
    ctx.count("sweep_files", len(sweeps))
    ctx.exhaustive = False

    # ---- 4. damaged files (unknown tag, corrupted length, unparsable body -> skipped, garbage)
    dm_all, dm_idx, dm_seek = [], [], []
    ndam = 60 if quick else 1500
    pool = [c for c in caps if c["ms"]]
    for _ in range(ndam):
        c = rng.choice(pool)
        bounds = [0]
        for l in c["lens"]:
            bounds.append(bounds[-1] + l)
        kind, f = damage(rng, c["file"], bounds)
        if rng.chance(1, 4):
            f = f[:rng.below(len(f) + 1)]
            kind += "+cut"
        n = len(c["ms"])
        r0 = R.parse_all(f, None, None)
        ctx.nontrivial(("damaged", kind, r0[0], min(r0[1], 3) if r0[0] == 0 else None, min(n, 3)))
        ctx.count("damaged:" + kind)
        dm_all.append((f, None, None))
        dm_all.append((f, rng.below(n + 2), rng.choice([None, 1, 2])))
        for i in sorted(set([0, rng.below(n + 2), n])):
            dm_idx.append((f, i))
            dm_seek.append((f, i))
    for lo in range(0, len(dm_all), 600):
        three("_damaged", dm_all[lo:lo + 600], [], [])
    for lo in range(0, len(dm_idx), 600):
        three("_damaged", [], dm_idx[lo:lo + 600], dm_seek[lo:lo + 600])
    n_false = sum(1 for t in dm_idx if R.parse_msg(t[0], t[1]) == [2])
    ctx.count("damaged_parse_msg_False", n_false)

    # ---- 5. the str constructor on a real file (mode a+b): appends land behind the content even after reads
    disk = []
    for k in range(4 if quick else 40):
        a = [rand_valid(rng) for _ in range(rng.below(4))]
        b = [rand_valid(rng) for _ in range(rng.below(4))]
        content, mid, res = R.file_roundtrip(a, b, read_between=bool(k & 1))
        disk.append(dict(a=a, b=b, content=content, res=res))
        if all(in_domain(m) for m in a + b):
            back = R.parse_all_raw(content, None, None)
            if len(content) != sum(spec_rec_len(m) for m in a + b) or back is False or not same_msgs([U.from_real(o) for o in back], a + b):
                ctx.oracle_fail("capture on disk: append after a read did not land behind the content / read back differs",
                                dict(a=[U.short(m) for m in a], b=[U.short(m) for m in b], read_between=bool(k & 1)), key="c15-disk-append")
    ctx.correspond("disk_file", "Dump", disk,
                   lambda d: "w_dump_append 0 %s" % fl(enc_msgs(d["a"] + d["b"])),
                   lambda d: [0] + d["content"], show=lambda d: dict(a=len(d["a"]), b=len(d["b"])))
    ctx.correspond("disk_file_read", "Dump", disk,
                   lambda d: "w_dump_parse_all 0 0 0 0 %s" % fl(d["content"]),
                   lambda d: d["res"], show=lambda d: dict(a=len(d["a"]), b=len(d["b"])))

    for c in caps[:4]:
        ctx.sample(dict(msgs=[U.short(m) for m in c["ms"]], file_len=len(c["file"]), record_lens=c["lens"]))
    ctx.extra["rule"] = ("captures of 0..6 mixed Tx/Rx messages (boundary-heavy fields, both versions, all modulations, NOPE; 1/5 of the lists hold an invalid message, "
                         "some a -128 soft bit, 1/4 are appended behind an existing capture); read by full read, every index -1..n+2 (+ descriptor position of _seek2msg), "
                         "skip x count grid {None,-1,0,1,n-1,n,n+1} x {None,-1,0,1,2,n,n+1}; truncation: exact at all record boundaries -1..+4,+8,+9,+12 and random offsets, "
                         "digest sweep over EVERY offset of the captures within the tier's budget; damaged files: unknown tag, larger / smaller length, bad version nibble, "
                         "swapped tag, zero-length record, odd body, spliced garbage; distinct_nontrivial = distinct (operation, message class at the cut / damage kind, "
                         "region of the cut, result class) keys")
