"""C07 - frequency hopping (45.002 6.2.3) in simulator and firmware. Model: Model/Hopping.v; theorems: Props/C07.v.
Tie: Gen/HoppingTab.v (RNTABLE through the imported class; rn_table through the real rfch.c) + correspondence of the extracted
model with HoppingParams.resolve and rfch_get_params (real rfch.c #included, ASan/UBSan); frequency redefinition at starting time
(Model/FreqRedef.v) against the real prim_freq.c run through the real sched_gsmtime.c / tdma_sched.c (charness/c07_freq.c)."""
import os
import subprocess

from .. import common
from ..common import REPO, LIBOSMO, ROOT, WORK

H = 2715648
RN = [48, 98, 63, 1, 36, 95, 78, 102, 94, 73, 0, 64, 25, 81, 76, 59, 124, 23, 104, 100, 101, 47, 118, 85, 18, 56, 96, 86, 54, 2,
      80, 34, 127, 13, 6, 89, 57, 103, 12, 74, 55, 111, 75, 38, 109, 71, 112, 29, 11, 88, 87, 19, 3, 68, 110, 26, 33, 31, 8, 45,
      82, 58, 40, 107, 32, 5, 106, 92, 62, 67, 77, 108, 122, 37, 60, 66, 121, 42, 51, 126, 117, 114, 4, 90, 43, 52, 53, 113, 120, 72,
      16, 49, 7, 79, 119, 61, 22, 84, 9, 97, 91, 15, 21, 24, 46, 39, 93, 105, 65, 70, 125, 99, 17, 123]


def spec_mai(hsn, maio, n, fn):
    """3GPP TS 45.002 6.2.3 (independent Python transcription used as the implementation-level oracle)"""
    t1r, t2, t3 = (fn // 1326) % 64, fn % 26, fn % 51
    if hsn == 0:
        return (fn + maio) % n
    m = t2 + RN[(hsn ^ t1r) + t3]
    nbin = n.bit_length()
    mp, tp = m % (1 << nbin), t3 % (1 << nbin)
    s = mp if mp < n else (mp + tp) % n
    return (s + maio) % n


def build_c(ctx):
    stubs = os.path.join(ROOT, "charness/stubs")
    fw = os.path.join(REPO, "src/target/firmware")
    ok, path, log = common.cc("c07", [os.path.join(ROOT, "charness/c07.c"), os.path.join(LIBOSMO, "src/gsm/gsm_utils.c")],
                              flags="-idirafter %s/include -I%s/include -I%s/include -I%s/layer1 -I%s/a/b -I%s" % (fw, LIBOSMO, REPO, fw, stubs, stubs))
    if not ok:
        raise RuntimeError("C07 harness does not compile:\n" + log[-3000:])
    return path


def build_freq_c(ctx):
    """charness/c07_freq.c: the real prim_freq.c + rfch.c + sched_gsmtime.c + tdma_sched.c of the tree under test"""
    stubs = os.path.join(ROOT, "charness/stubs")
    fw = os.path.join(REPO, "src/target/firmware")
    ok, path, log = common.cc("c07_freq", [os.path.join(ROOT, "charness/c07_freq.c"), os.path.join(LIBOSMO, "src/gsm/gsm_utils.c")],
                              flags="-idirafter %s/include -I%s/include -I%s/include -I%s/layer1 -I%s/a/b -I%s" % (fw, LIBOSMO, REPO, fw, stubs, stubs))
    if not ok:
        raise RuntimeError("C07 frequency redefinition harness does not compile:\n" + log[-3000:])
    return path


def _rand_ma(rng, n):
    r = rng.below(4)
    if r == 0:
        return [rng.range(1, 1023) for _ in range(n)]
    if r == 1:
        b = rng.range(1, 900)
        return list(range(b, b + n))
    if r == 2:
        return [rng.range(0, 1023) | rng.choice([0, 0x8000, 0x4000, 0xc000]) for _ in range(n)]
    return [rng.choice([1, 0x00ff, 0x0100, 0x7fff, 0x8001, 0xfffe, 0xff00 | rng.below(256), rng.range(1, 65535)]) for _ in range(n)]


def _rand_set(rng, hop, n=None):
    """(0, arfcn, tsc) | (1, hsn, maio, tsc, ma)"""
    tsc = rng.below(8)
    if not hop:
        return (0, rng.range(1, 1023) | rng.choice([0, 0, 0x8000, 0x4000]), tsc)
    if n is None:
        n = rng.choice([1, 2, 3, 4, 5, 7, 8, 9, 15, 16, 17, 31, 32, 33, 48, 63, 64]) if rng.chance(1, 2) else rng.range(1, 64)
    hsn = 0 if rng.chance(1, 6) else rng.range(1, 63)
    return (1, hsn, rng.range(0, 63), tsc, _rand_ma(rng, n))


def _set_ints(s):
    return [0, s[1], s[2]] if s[0] == 0 else [1, s[1], s[2], s[3], len(s[4])] + list(s[4])


def _set_want(s, fn):
    if s[0] == 0:
        return [s[1], s[2]]
    return [s[4][spec_mai(s[1], s[2], len(s[4]), fn)], s[3]]


def _cover_fns(rng, s):
    """frame numbers on which every MAI 0..n-1 of the hopping set s occurs (as far as 6000 consecutive frames reach)"""
    if s[0] == 0:
        return [rng.below(H)]
    n = len(s[4])
    start = rng.choice([0, H - n // 2 - 1, rng.below(H)])
    seen, out = set(), []
    for k in range(6000):
        fn = (start + k) % H
        mai = spec_mai(s[1], s[2], n, fn)
        if mai not in seen:
            seen.add(mai)
            out.append(fn)
            if len(seen) == n:
                break
    return out


def run_freq(ctx):
    """frequency redefinition at starting time: real l1a_freq_req / l1s_freq_cmd / rfch_get_params against Model/FreqRedef.v and 45.002"""
    binp = build_freq_c(ctx)
    rng = ctx.rng
    n_cases = 300 if ctx.tier == "quick" else 6000
    cases = []
    for k in range(n_cases):
        r = rng.below(10)
        # channel in use, first redefinition a, second redefinition b
        if r < 5:
            hops = (1, 1, 1)
        else:
            hops = [(1, 0, 1), (0, 1, 0), (0, 1, 1), (1, 1, 0), (0, 0, 1)][r - 5]
        s0 = _rand_set(rng, hops[0])
        sa = _rand_set(rng, hops[1])
        sb = _rand_set(rng, hops[2])
        if k % 3 == 0 and hops[1] and hops[2]:
            # staged allocation longer than / as long as the previous one, every entry different from the previous one at its place
            prev = s0[4] if s0[0] else []
            na = rng.range(max(2, len(prev)), 64)
            ma = [(((prev[i] if i < len(prev) else 0) + 1 + rng.below(500)) & 0xffff) or 1 for i in range(na)]
            sa = (1, sa[1], sa[2], sa[3], ma)
            nb = rng.range(2, 64)
            mb = [(((ma[i] if i < na else 0) ^ (0x0101 + rng.below(0x300))) & 0xffff) or 1 for i in range(nb)]
            sb = (1, sb[1], sb[2], sb[3], mb)
        fns = _cover_fns(rng, s0)[:8] + _cover_fns(rng, sa) + _cover_fns(rng, sb) + [0, H - 1, rng.below(H)]
        diffs = (rng.choice([5, 6, 10, 33, 200]), rng.choice([5, 7, 12, 64]))
        fn0 = rng.choice([0, H - 3, H - 8, 42431, 42432 - 6, rng.below(H)]) if rng.chance(1, 4) else rng.below(H)
        cases.append(dict(diffs=diffs, fn0=fn0, fns=fns, old=s0, a=sa, b=sb))
    body = lambda c: [len(c["fns"])] + c["fns"] + _set_ints(c["old"]) + _set_ints(c["a"]) + _set_ints(c["b"])
    inp = "\n".join(" ".join(map(str, [c["diffs"][0], c["diffs"][1], c["fn0"]] + body(c))) for c in cases) + "\n"
    p = subprocess.run([binp], input=inp, stdout=subprocess.PIPE, stderr=subprocess.PIPE, text=True, timeout=900)
    lines = [l for l in p.stdout.split("\n") if l.strip()]
    if p.returncode != 0 or len(lines) != len(cases):
        ctx.oracle_fail("frequency redefinition harness crashed (sanitizer report?)", dict(stderr=p.stderr[-1500:], answered=len(lines)), key="c07-c-crash")
        lines += ["-1"] * (len(cases) - len(lines))
    c_res = [[int(x) for x in l.split()] for l in lines]
    idx = list(range(len(cases)))
    ctx.correspond("l1s_freq_cmd", "Hopping", idx, lambda k: "w_c07_freq " + " ".join(map(str, body(cases[k]))), lambda k: c_res[k],
                   show=lambda k: cases[k])
    # independent oracle: 45.002 MAI on the parameters that must be in force in each of the four phases
    nobs = 0
    for k, c in enumerate(cases):
        phases = [("channel in use", c["old"], "c07-firmware-deviates"),
                  ("after the starting time of the first redefinition", c["a"], "c07-fw-freq-redefinition"),
                  ("second redefinition stored, starting time not reached", c["a"], "c07-fw-freq-redefinition"),
                  ("after the starting time of the second redefinition", c["b"], "c07-fw-freq-redefinition")]
        nf = len(c["fns"])
        ctx.nontrivial(("freq", c["old"][0], c["a"][0], c["b"][0],
                        (len(c["a"][4]) > (len(c["old"][4]) if c["old"][0] else 0)) if c["a"][0] else None, c["diffs"][0] == 5))
        got = c_res[k]
        if len(got) != 8 * nf:
            continue
        for ph, (what, s, key) in enumerate(phases):
            bad = False
            for j, fn in enumerate(c["fns"]):
                want = _set_want(s, fn)
                obs = got[2 * (ph * nf + j):2 * (ph * nf + j) + 2]
                nobs += 1
                if obs != want:
                    ctx.oracle_fail("firmware frequency redefinition (l1a_freq_req / l1s_freq_cmd, then rfch_get_params): %s the ARFCN / TSC "
                                    "is not MA[MAI] of 45.002 6.2.3 for the parameters in force" % what,
                                    dict(phase=ph, fn=fn, in_force=s, mai=None if s[0] == 0 else spec_mai(s[1], s[2], len(s[4]), fn),
                                         old=c["old"], a=c["a"], b=c["b"], starting_time_diffs=c["diffs"], fn0=c["fn0"]),
                                    key=key, expected=want, observed=obs)
                    bad = True
                    break
            if bad:
                break
        if k % max(1, len(cases) // 3) == 0:
            ctx.sample(dict(freq_redefinition=dict(old=c["old"], a=c["a"], fn=c["fns"][0], before=got[0:2], after=got[2 * nf:2 * nf + 2])))
    ctx.evaluations += nobs
    ctx.extra["freq_redefinition_cases"] = len(cases)
    ctx.extra["freq_redefinition_observations"] = nobs


def gen(ctx):
    binp = build_c(ctx)
    out = subprocess.run([binp, "table"], stdout=subprocess.PIPE, text=True, timeout=30).stdout.split("\n")
    c_tab = [int(x) for x in out[1].split()]
    assert len(c_tab) == int(out[0])
    common.import_toolkit()
    import gsm_shared
    py_tab = [int(x) for x in gsm_shared.HoppingParams.RNTABLE]
    txt = common.gen_header("gsm_shared.HoppingParams.RNTABLE (imported) and rfch.c static rn_table (dumped through the included .c)")
    txt += "Definition py_rntable : list Z := %s.\nDefinition c_rn_table : list Z := %s.\nDefinition c_ma_size : Z := %d.\n" % (
        common.zlist(py_tab), common.zlist(c_tab), int(out[2]))
    ctx.gen("HoppingTab", txt)
    return binp


def run(ctx):
    binp = gen(ctx)
    ctx.prove()
    if ctx.tier == "thorough":
        ctx.coqchk()
    common.import_toolkit()
    import gsm_shared
    rng = ctx.rng
    n_cases = 8000 if ctx.tier == "quick" else 200000
    cases = []
    for k in range(n_cases):
        n = rng.choice([1, 2, 3, 4, 5, 7, 8, 9, 15, 16, 17, 31, 32, 33, 48, 56, 63, 64]) if rng.chance(1, 2) else rng.range(1, 64)
        hsn = 0 if rng.chance(1, 10) else rng.range(1, 63)
        maio = rng.range(0, 63)
        fn = rng.choice([0, 1, 25, 26, 50, 51, 1325, 1326, 1327, 84863, 84864, H - 1, H - 2]) if rng.chance(1, 8) else rng.below(H)
        r = rng.below(6)
        if r < 2:
            ma = [rng.range(1, 1023) for _ in range(n)]
        elif r < 4:
            ma = list(range(512, 512 + n))
        elif r == 4:
            # band_arfcn values as the firmware stores them: the ARFCN with the PCS (0x8000) / uplink (0x4000) flag bits
            ma = [rng.range(0, 1023) | rng.choice([0, 0x8000, 0x4000, 0xc000]) for _ in range(n)]
        else:
            ma = [rng.choice([0, 1, 0x7fff, 0x8000, 0x8001, 0xfffe, 0xffff, rng.below(65536)]) for _ in range(n)]
        cases.append((hsn, maio, fn, ma))
    # C
    inp = "\n".join("%d %d %d %d %s" % (h, m, f, len(ma), " ".join(map(str, ma))) for h, m, f, ma in cases) + "\n"
    p = subprocess.run([binp], input=inp, stdout=subprocess.PIPE, stderr=subprocess.PIPE, text=True, timeout=900)
    c_out = p.stdout.split()
    if p.returncode != 0 or len(c_out) != len(cases):
        ctx.oracle_fail("rfch harness crashed (sanitizer report?)", dict(stderr=p.stderr[-1500:], answered=len(c_out)), key="c07-c-crash")
        c_out += ["-1"] * (len(cases) - len(c_out))
    c_res = [[int(x)] for x in c_out]
    py_res = []
    for h, m, f, ma in cases:
        try:
            py_res.append([int(gsm_shared.HoppingParams(h, m, ma).resolve(f))])
        except Exception as e:  # noqa
            py_res.append([-3])
    idx = list(range(len(cases)))
    args = lambda k: "%d %d %d %s" % (cases[k][0], cases[k][1], cases[k][2], " ".join(map(str, cases[k][3])))
    ctx.correspond("rfch_get_params", "Hopping", idx, lambda k: "w_c07_c " + args(k), lambda k: c_res[k], show=lambda k: cases[k])
    ctx.correspond("HoppingParams.resolve", "Hopping", idx, lambda k: "w_c07_py " + args(k), lambda k: py_res[k], show=lambda k: cases[k])
    # implementation-level oracle: both pick MA[MAI] with the standard's MAI
    for k, (h, m, f, ma) in enumerate(cases):
        n = len(ma)
        want = ma[spec_mai(h, m, n, f)]
        t2, t3 = f % 26, f % 51
        dev = False
        if h:
            mm = t2 + RN[(h ^ ((f // 1326) % 64)) + t3]
            dev = (mm % (1 << n.bit_length())) >= n
        ctx.nontrivial(("cyclic" if h == 0 else ("dev" if dev else "direct"), n.bit_length(), f >= H - 2))
        if c_res[k] != [want]:
            ctx.oracle_fail("firmware rfch_get_params selects a channel other than MA[MAI] of 45.002", dict(hsn=h, maio=m, fn=f, ma=ma),
                            key="c07-firmware-deviates", expected=want, observed=c_res[k])
        if py_res[k] != [want]:
            ctx.oracle_fail("HoppingParams.resolve selects a channel other than MA[MAI] of 45.002", dict(hsn=h, maio=m, fn=f, ma=ma),
                            key="c07-python-deviates", expected=want, observed=py_res[k])
        if k % (len(cases) // 5) == 0:
            ctx.sample(dict(hsn=h, maio=m, fn=f, n=n, c=c_res[k], py=py_res[k], spec=want))
    run_freq(ctx)
    # complete reduced domain (x = HSN xor T1R, T2, T3, N) on the C implementation
    maios = [0, 1, 63] if ctx.tier == "quick" else list(range(64))
    tot = 0
    for m in maios:
        w = subprocess.run([binp, "sweep", str(m)], stdout=subprocess.PIPE, stderr=subprocess.PIPE, text=True, timeout=600)
        line = w.stdout.strip()
        if not line.startswith("OK"):
            ctx.oracle_fail("firmware sweep of the reduced domain failed: " + (line or w.stderr[-500:]), dict(maio=m, line=line), key="c07-firmware-deviates")
            break
        tot += int(line.split()[1])
    ctx.evaluations += tot
    ctx.extra["c_reduced_domain_cases"] = tot
    # Python over the reduced domain: thorough = complete, quick = stride
    stride = 1 if ctx.tier == "thorough" else 37
    cnt = 0
    bad = None
    k = 0
    for n in range(1, 65):
        hp = gsm_shared.HoppingParams(63, 0, list(range(n)))
        for x in range(64):
            t1 = x ^ 63
            for t2 in range(26):
                for t3 in range(51):
                    k += 1
                    if k % stride:
                        continue
                    # fn with the wanted (t1 mod 64, t2, t3): CRT by search inside one superframe of t1
                    fn = t1 * 1326 + ((t3 - t2) % 26 * 51 + t3) % 1326 if False else None
                    # direct computation of the frame inside superframe t1 with T2=t2, T3=t3
                    r = (51 * ((t3 - t2) % 26) + t3) % 1326
                    fn = t1 * 1326 + r
                    got = hp.resolve(fn)
                    cnt += 1
                    if got != spec_mai(63, 0, n, fn):
                        bad = dict(hsn=63, maio=0, fn=fn, ma=list(range(n)))
                        break
                if bad:
                    break
            if bad:
                break
        if bad:
            break
    if bad:
        ctx.oracle_fail("HoppingParams.resolve selects a channel other than MA[MAI] of 45.002", bad, key="c07-python-deviates")
    ctx.evaluations += cnt
    ctx.extra["py_reduced_domain_cases"] = cnt
    # ---- the simulator's USE of the generator: what a transceiver tunes to per frame after sequences of SETFH / POWEROFF commands
    #      (transceiver.py enable_fh / disable_fh / get_rx_freq / get_tx_freq on the real objects of a session)
    from ..session import Session
    from .. import session_wire as W
    nseq = 40 if ctx.tier == "quick" else 800
    nq = 0
    for si in range(nseq):
        s = Session()
        try:
            t = s.trxs[rng.below(2)]
            i = s.trxs.index(t)
            fixed = (rng.choice(W.FREQS), rng.choice(W.FREQS))
            s.ctrl(i, W.cmd("CMD RXTUNE %d" % fixed[0])); s.ctrl(i, W.cmd("CMD TXTUNE %d" % fixed[1]))
            cur = None                                    # (hsn, maio, [(rx, tx) kHz])
            hist = []
            for step in range(rng.range(2, 6)):
                r = rng.below(10)
                if r < 6 or cur is None:
                    n = rng.choice([1, 2, 3, 4, 5, 8, 9, 16, 17, 33, 64]) if cur is None or rng.chance(1, 2) else len(cur[2])
                    hsn, maio = (rng.choice([0, 1, 17, 63]), rng.below(8)) if cur is None or rng.chance(1, 2) else cur[:2]
                    ma = [(rng.range(1, 1023) * 200 + 800000, rng.range(1, 1023) * 200 + 900000) for _ in range(n)]
                    if rng.chance(1, 3):
                        ma = sorted(ma, reverse=True)
                    text = "CMD SETFH %d %d %s" % (hsn, maio, " ".join("%d %d" % p for p in ma))
                    o, exc = s.ctrl(i, W.cmd(text))
                    hist.append(text[:60])
                    if exc is None and bytes(o[3:]).split(b" ")[2:3] == [b"0"]:
                        cur = (hsn, maio, ma)
                elif r < 8:
                    text = "CMD SETFH %d 0 %d %d" % (rng.choice([64, -1, 100]), fixed[0], fixed[1])      # refused: the previous configuration stays
                    s.ctrl(i, W.cmd(text)); hist.append(text)
                else:
                    s.ctrl(i, W.cmd("CMD POWERON")); s.ctrl(i, W.cmd("CMD POWEROFF")); hist.append("POWERON POWEROFF")
                    cur = None
                for fn in [0, 1, 1326 * 63 + 5, H - 1] + [rng.below(H) for _ in range(6)]:
                    if cur is None:
                        want = (fixed[0] * 1000, fixed[1] * 1000)
                    else:
                        pair = cur[2][spec_mai(cur[0], cur[1], len(cur[2]), fn)]
                        want = (pair[0] * 1000, pair[1] * 1000)
                    try:
                        got = (t.get_rx_freq(fn), t.get_tx_freq(fn))
                    except Exception as e:  # noqa
                        got = type(e).__name__
                    nq += 1
                    if got != want:
                        ctx.oracle_fail("a transceiver does not tune to MA[MAI] of the hopping configuration its last accepted SETFH carried (or to its fixed tuning after POWEROFF)",
                                        dict(trx=i, fn=fn, commands=hist, current=None if cur is None else dict(hsn=cur[0], maio=cur[1], n=len(cur[2]))),
                                        key="c07-transceiver-tuning", expected=want, observed=got)
                        break
            ctx.nontrivial(("trx-seq", len(hist), cur is None))
        finally:
            s.close()
    ctx.evaluations += nq
    ctx.extra["transceiver_tuning_queries"] = nq
    ctx.exhaustive = ctx.tier == "thorough"
    ctx.extra["rule"] = ("random (HSN, MAIO, N, FN, MA) biased to N around powers of two and FN on T1/T2/T3 carries; plus the complete reduced domain "
                         "(HSN xor T1R, T2, T3, N) on the C code (per MAIO) and on Python (complete in thorough, stride 37 in quick); "
                         "distinct_nontrivial = distinct (cyclic | direct | deviation M'>=N branch, NBIN, hyperframe end) classes")
