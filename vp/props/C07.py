"""C07 - frequency hopping (45.002 6.2.3) in simulator and firmware. Model: Model/Hopping.v; theorems: Props/C07.v.
Tie: Gen/HoppingTab.v (RNTABLE through the imported class; rn_table through the real rfch.c) + correspondence of the extracted
model with HoppingParams.resolve and rfch_get_params (real rfch.c #included, ASan/UBSan)."""
import os
import subprocess

from .. import common
from ..common import REPO, LIBOSMO, ROOT, WORK

H = 2715648
RN = [48, 98, 63, 1, 36, 95, 78, 102, 94, 73, 0, 64, 25, 81, 76, 59, 124, 23, 104, 100, 101, 47, 118, 85, 18, 56, 96, 86, 54, 2,
      80, 34, 127, 13, 6, 89, 57, 103, 12, 74, 55, 111, 75, 38, 109, 71, 112, 29, 11, 88, 87, 19, 3, 68, 110, 26, 33, 31, 8, 45,
      82, 58, 40, 107, 32, 5, 106, 92, 62, 67, 77, 108, 122, 37, 60, 66, 121, 42, 51, 126, 117, 114, 4, 90, 43, 52, 53, 113, 120, 72,
      16, 49, 7, 79, 119, 61, 22, 84, 9, 97, 91, 15, 21, 24, 46, 39, 93, 105, 65, 70, 125, 99, 17, 123]


def spec_mai(hsn, maio, n, fn):
    """3GPP TS 45.002 6.2.3 (independent Python transcription used as the implementation-level oracle)"""
    t1r, t2, t3 = (fn // 1326) % 64, fn % 26, fn % 51
    if hsn == 0:
        return (fn + maio) % n
    m = t2 + RN[(hsn ^ t1r) + t3]
    nbin = n.bit_length()
    mp, tp = m % (1 << nbin), t3 % (1 << nbin)
    s = mp if mp < n else (mp + tp) % n
    return (s + maio) % n


def build_c(ctx):
    stubs = os.path.join(ROOT, "charness/stubs")
    fw = os.path.join(REPO, "src/target/firmware")
    ok, path, log = common.cc("c07", [os.path.join(ROOT, "charness/c07.c"), os.path.join(LIBOSMO, "src/gsm/gsm_utils.c")],
                              flags="-idirafter %s/include -I%s/include -I%s/include -I%s/layer1 -I%s/a/b -I%s" % (fw, LIBOSMO, REPO, fw, stubs, stubs))
    if not ok:
        raise RuntimeError("C07 harness does not compile:\n" + log[-3000:])
    return path


def gen(ctx):
    binp = build_c(ctx)
    out = subprocess.run([binp, "table"], stdout=subprocess.PIPE, text=True, timeout=30).stdout.split("\n")
    c_tab = [int(x) for x in out[1].split()]
    assert len(c_tab) == int(out[0])
    common.import_toolkit()
    import gsm_shared
    py_tab = [int(x) for x in gsm_shared.HoppingParams.RNTABLE]
    txt = common.gen_header("gsm_shared.HoppingParams.RNTABLE (imported) and rfch.c static rn_table (dumped through the included .c)")
    txt += "Definition py_rntable : list Z := %s.\nDefinition c_rn_table : list Z := %s.\nDefinition c_ma_size : Z := %d.\n" % (
        common.zlist(py_tab), common.zlist(c_tab), int(out[2]))
    ctx.gen("HoppingTab", txt)
    return binp


def run(ctx):
    binp = gen(ctx)
    ctx.prove()
    if ctx.tier == "thorough":
        ctx.coqchk()
    common.import_toolkit()
    import gsm_shared
    rng = ctx.rng
    n_cases = 8000 if ctx.tier == "quick" else 200000
    cases = []
    for k in range(n_cases):
        n = rng.choice([1, 2, 3, 4, 5, 7, 8, 9, 15, 16, 17, 31, 32, 33, 48, 56, 63, 64]) if rng.chance(1, 2) else rng.range(1, 64)
        hsn = 0 if rng.chance(1, 10) else rng.range(1, 63)
        maio = rng.range(0, 63)
        fn = rng.choice([0, 1, 25, 26, 50, 51, 1325, 1326, 1327, 84863, 84864, H - 1, H - 2]) if rng.chance(1, 8) else rng.below(H)
        r = rng.below(6)
        if r < 2:
            ma = [rng.range(1, 1023) for _ in range(n)]
        elif r < 4:
            ma = list(range(512, 512 + n))
        elif r == 4:
            # band_arfcn values as the firmware stores them: the ARFCN with the PCS (0x8000) / uplink (0x4000) flag bits
            ma = [rng.range(0, 1023) | rng.choice([0, 0x8000, 0x4000, 0xc000]) for _ in range(n)]
        else:
            ma = [rng.choice([0, 1, 0x7fff, 0x8000, 0x8001, 0xfffe, 0xffff, rng.below(65536)]) for _ in range(n)]
        cases.append((hsn, maio, fn, ma))
    # C
    inp = "\n".join("%d %d %d %d %s" % (h, m, f, len(ma), " ".join(map(str, ma))) for h, m, f, ma in cases) + "\n"
    p = subprocess.run([binp], input=inp, stdout=subprocess.PIPE, stderr=subprocess.PIPE, text=True, timeout=900)
    c_out = p.stdout.split()
    if p.returncode != 0 or len(c_out) != len(cases):
        ctx.oracle_fail("rfch harness crashed (sanitizer report?)", dict(stderr=p.stderr[-1500:], answered=len(c_out)), key="c07-c-crash")
        c_out += ["-1"] * (len(cases) - len(c_out))
    c_res = [[int(x)] for x in c_out]
    py_res = []
    for h, m, f, ma in cases:
        try:
            py_res.append([int(gsm_shared.HoppingParams(h, m, ma).resolve(f))])
        except Exception as e:  # noqa
            py_res.append([-3])
    idx = list(range(len(cases)))
    args = lambda k: "%d %d %d %s" % (cases[k][0], cases[k][1], cases[k][2], " ".join(map(str, cases[k][3])))
    ctx.correspond("rfch_get_params", "Hopping", idx, lambda k: "w_c07_c " + args(k), lambda k: c_res[k], show=lambda k: cases[k])
    ctx.correspond("HoppingParams.resolve", "Hopping", idx, lambda k: "w_c07_py " + args(k), lambda k: py_res[k], show=lambda k: cases[k])
    # implementation-level oracle: both pick MA[MAI] with the standard's MAI
    for k, (h, m, f, ma) in enumerate(cases):
        n = len(ma)
        want = ma[spec_mai(h, m, n, f)]
        t2, t3 = f % 26, f % 51
        dev = False
        if h:
            mm = t2 + RN[(h ^ ((f // 1326) % 64)) + t3]
            dev = (mm % (1 << n.bit_length())) >= n
        ctx.nontrivial(("cyclic" if h == 0 else ("dev" if dev else "direct"), n.bit_length(), f >= H - 2))
        if c_res[k] != [want]:
            ctx.oracle_fail("firmware rfch_get_params selects a channel other than MA[MAI] of 45.002", dict(hsn=h, maio=m, fn=f, ma=ma),
                            key="c07-firmware-deviates", expected=want, observed=c_res[k])
        if py_res[k] != [want]:
            ctx.oracle_fail("HoppingParams.resolve selects a channel other than MA[MAI] of 45.002", dict(hsn=h, maio=m, fn=f, ma=ma),
                            key="c07-python-deviates", expected=want, observed=py_res[k])
        if k % (len(cases) // 5) == 0:
            ctx.sample(dict(hsn=h, maio=m, fn=f, n=n, c=c_res[k], py=py_res[k], spec=want))
    # complete reduced domain (x = HSN xor T1R, T2, T3, N) on the C implementation
    maios = [0, 1, 63] if ctx.tier == "quick" else list(range(64))
    tot = 0
    for m in maios:
        w = subprocess.run([binp, "sweep", str(m)], stdout=subprocess.PIPE, stderr=subprocess.PIPE, text=True, timeout=600)
        line = w.stdout.strip()
        if not line.startswith("OK"):
            ctx.oracle_fail("firmware sweep of the reduced domain failed: " + (line or w.stderr[-500:]), dict(maio=m, line=line), key="c07-firmware-deviates")
            break
        tot += int(line.split()[1])
    ctx.evaluations += tot
    ctx.extra["c_reduced_domain_cases"] = tot
    # Python over the reduced domain: thorough = complete, quick = stride
    stride = 1 if ctx.tier == "thorough" else 37
    cnt = 0
    bad = None
    k = 0
    for n in range(1, 65):
        hp = gsm_shared.HoppingParams(63, 0, list(range(n)))
        for x in range(64):
            t1 = x ^ 63
            for t2 in range(26):
                for t3 in range(51):
                    k += 1
                    if k % stride:
                        continue
                    # fn with the wanted (t1 mod 64, t2, t3): CRT by search inside one superframe of t1
                    fn = t1 * 1326 + ((t3 - t2) % 26 * 51 + t3) % 1326 if False else None
                    # direct computation of the frame inside superframe t1 with T2=t2, T3=t3
                    r = (51 * ((t3 - t2) % 26) + t3) % 1326
                    fn = t1 * 1326 + r
                    got = hp.resolve(fn)
                    cnt += 1
                    if got != spec_mai(63, 0, n, fn):
                        bad = dict(hsn=63, maio=0, fn=fn, ma=list(range(n)))
                        break
                if bad:
                    break
            if bad:
                break
        if bad:
            break
    if bad:
        ctx.oracle_fail("HoppingParams.resolve selects a channel other than MA[MAI] of 45.002", bad, key="c07-python-deviates")
    ctx.evaluations += cnt
    ctx.extra["py_reduced_domain_cases"] = cnt
    # ---- the simulator's USE of the generator: what a transceiver tunes to per frame after sequences of SETFH / POWEROFF commands
    #      (transceiver.py enable_fh / disable_fh / get_rx_freq / get_tx_freq on the real objects of a session)
    from ..session import Session
    from .. import session_wire as W
    nseq = 40 if ctx.tier == "quick" else 800
    nq = 0
    for si in range(nseq):
        s = Session()
        try:
            t = s.trxs[rng.below(2)]
            i = s.trxs.index(t)
            fixed = (rng.choice(W.FREQS), rng.choice(W.FREQS))
            s.ctrl(i, W.cmd("CMD RXTUNE %d" % fixed[0])); s.ctrl(i, W.cmd("CMD TXTUNE %d" % fixed[1]))
            cur = None                                    # (hsn, maio, [(rx, tx) kHz])
            hist = []
            for step in range(rng.range(2, 6)):
                r = rng.below(10)
                if r < 6 or cur is None:
                    n = rng.choice([1, 2, 3, 4, 5, 8, 9, 16, 17, 33, 64]) if cur is None or rng.chance(1, 2) else len(cur[2])
                    hsn, maio = (rng.choice([0, 1, 17, 63]), rng.below(8)) if cur is None or rng.chance(1, 2) else cur[:2]
                    ma = [(rng.range(1, 1023) * 200 + 800000, rng.range(1, 1023) * 200 + 900000) for _ in range(n)]
                    if rng.chance(1, 3):
                        ma = sorted(ma, reverse=True)
                    text = "CMD SETFH %d %d %s" % (hsn, maio, " ".join("%d %d" % p for p in ma))
                    o, exc = s.ctrl(i, W.cmd(text))
                    hist.append(text[:60])
                    if exc is None and bytes(o[3:]).split(b" ")[2:3] == [b"0"]:
                        cur = (hsn, maio, ma)
                elif r < 8:
                    text = "CMD SETFH %d 0 %d %d" % (rng.choice([64, -1, 100]), fixed[0], fixed[1])      # refused: the previous configuration stays
                    s.ctrl(i, W.cmd(text)); hist.append(text)
                else:
                    s.ctrl(i, W.cmd("CMD POWERON")); s.ctrl(i, W.cmd("CMD POWEROFF")); hist.append("POWERON POWEROFF")
                    cur = None
                for fn in [0, 1, 1326 * 63 + 5, H - 1] + [rng.below(H) for _ in range(6)]:
                    if cur is None:
                        want = (fixed[0] * 1000, fixed[1] * 1000)
                    else:
                        pair = cur[2][spec_mai(cur[0], cur[1], len(cur[2]), fn)]
                        want = (pair[0] * 1000, pair[1] * 1000)
                    try:
                        got = (t.get_rx_freq(fn), t.get_tx_freq(fn))
                    except Exception as e:  # noqa
                        got = type(e).__name__
                    nq += 1
                    if got != want:
                        ctx.oracle_fail("a transceiver does not tune to MA[MAI] of the hopping configuration its last accepted SETFH carried (or to its fixed tuning after POWEROFF)",
                                        dict(trx=i, fn=fn, commands=hist, current=None if cur is None else dict(hsn=cur[0], maio=cur[1], n=len(cur[2]))),
                                        key="c07-transceiver-tuning", expected=want, observed=got)
                        break
            ctx.nontrivial(("trx-seq", len(hist), cur is None))
        finally:
            s.close()
    ctx.evaluations += nq
    ctx.extra["transceiver_tuning_queries"] = nq
    ctx.exhaustive = ctx.tier == "thorough"
    ctx.extra["rule"] = ("random (HSN, MAIO, N, FN, MA) biased to N around powers of two and FN on T1/T2/T3 carries; plus the complete reduced domain "
                         "(HSN xor T1R, T2, T3, N) on the C code (per MAIO) and on Python (complete in thorough, stride 37 in quick); "
                         "distinct_nontrivial = distinct (cyclic | direct | deviation M'>=N branch, NBIN, hyperframe end) classes")
