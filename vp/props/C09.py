"""C09 - clock source. Model: Model/Clock.v; theorems: Props/C09.v.
Tie: Gen/ClockConst.v (GSM_HYPERFRAME as used by clck_gen, the tick length in ns as exhibited by the real
CLCKGen._worker under a virtual clock, default ind_period / clck_start by reflection) + correspondence of the
extracted model with the REAL CLCKGen.start()/_worker()/send_clck_ind()/stop() run unmodified, in the harness
thread, under a virtual monotonic clock: the names `time` and `threading` of the imported clck_gen module are
replaced by harness objects (monotonic_ns reads virtual time; Event.wait advances it; Thread runs the target
synchronously when the harness says so), the links are real UDPLink objects over an in-memory socket class.

Virtual-time input of one loop iteration k (all ns, >= 0):
  e_k  time it takes to emit the overrun warning, i.e. the time between the clock read `t = monotonic_ns()` and the
       second read `t_next = monotonic_ns()` in the overrun branch (the harness advances the clock when the WARNING record is emitted),
  j_k  oversleep of `_breaker.wait(dt)` (0 = ideal wait),
  d_k  time spent inside the clock handler.
A run of n ticks ends with the breaker being set while the worker is in its (n+1)-th wait (what stop() does)."""
import inspect
import logging
import os
import sys

from .. import common
from ..common import REPO

H = 2715648
TICK_NOMINAL = 4615000
PREFIX = [73, 78, 68, 32, 67, 76, 79, 67, 75, 32]  # "IND CLOCK "


# ------------------------------------------------------------------ virtual clock harness

import threading as _real_threading


class Crash(Exception):
    pass


class VClock:
    """virtual monotonic clock + the script of one worker run"""

    def __init__(self, now=0):
        self.now = now
        self.script = []      # [(e, j, d)] per tick
        self.e_stop = 0
        self.k = 0            # index of the loop iteration in flight
        self.reads = 0        # overrun warnings in this iteration
        self.nreads = 0
        self.waits = []       # (entry_now, timeout_ns, returned)
        self.anomalies = []

    def begin(self, script, e_stop):
        self.script, self.e_stop = script, e_stop
        self.k, self.reads = 0, 0
        self.waits = []

    def cur(self):
        if self.k < len(self.script):
            return self.script[self.k]
        return (self.e_stop, 0, 0)

    # time.monotonic_ns: every read returns the current virtual time
    def monotonic_ns(self):
        self.nreads += 1
        return self.now

    # a WARNING record emitted by the worker (the overrun message): producing it takes e_k ns
    def on_warning(self):
        self.now += self.cur()[0]
        self.reads += 1

    # threading.Event.wait as called by the worker
    def wait(self, timeout):
        if timeout is None:
            self.anomalies.append("wait(None)")
            raise Crash("wait without timeout would block forever")
        ns = timeout * 1e9
        tns = int(round(ns))
        if abs(ns - tns) > 1e-2:
            self.anomalies.append("wait timeout %r is not a whole number of ns" % (timeout,))
        if tns < 0:
            self.anomalies.append("negative wait timeout %r" % (timeout,))
            tns = 0
        stop = self.k >= len(self.script)
        self.waits.append((self.now, tns, stop, self.reads))
        if len(self.waits) > len(self.script) + 3:
            raise Crash("worker keeps running after the breaker was set")
        if stop:
            return True                     # breaker set (stop() called from the other thread): return at once
        self.now += tns + self.cur()[1]
        self.reads = 0
        return False

    def after_tick(self):
        self.k += 1


class FakeEvent:
    def __init__(self):
        self._flag = False
        self.vc = None

    def set(self):
        self._flag = True
        if getattr(self, "_waiting", False):
            self._woke = True          # a thread sleeping in wait() on THIS object wakes up, even if the flag is cleared again right away

    def clear(self):
        self._flag = False

    def is_set(self):
        return self._flag

    def wait(self, timeout=None):
        if self.vc is None:
            raise Crash("Event.wait outside a scripted run")
        vc = self.vc
        hook = getattr(vc, "during_wait", None)
        self._woke = False
        if hook is not None:
            self._waiting = True
            try:
                hook(vc.k)             # what other threads do while this worker sleeps (e.g. another generator being stopped)
            finally:
                self._waiting = False
        if (self._flag or self._woke) and vc.k < len(vc.script):
            # woken by a set() that is not the scripted stop of this run: the worker leaves its loop
            vc.waits.append((vc.now, 0, True, vc.reads))
            return True
        return vc.wait(timeout)


class FakeThread:
    """threading.Thread whose target is run synchronously by the harness (run_target)"""
    instances = []
    notes = []

    def __init__(self, target=None, args=(), kwargs=None, **kw):
        self.target, self.args, self.kwargs = target, args, kwargs or {}
        self.daemon = False
        self.started = False
        self.finished = False
        FakeThread.instances.append(self)

    def start(self):
        self.started = True

    def run_target(self):
        self.runner = _real_threading.get_ident()
        self.join_entered = _real_threading.Event()
        self.done = _real_threading.Event()
        try:
            self.target(*self.args, **self.kwargs)
        finally:
            self.finished = True
            self.done.set()

    def is_alive(self):
        return self.started and not self.finished

    def join(self, timeout=None):
        if self.started and not self.finished:
            # stop() issued from another (real) thread while the worker is inside a handler: block as Thread.join does
            if getattr(self, "runner", None) not in (None, _real_threading.get_ident()):
                if timeout is not None:
                    # virtual time: the handler the worker is busy with may outlast ANY finite timeout (the property quantifies over
                    # all handler durations), so a join with a timeout expires here - as the real one does after `timeout` seconds -
                    # and returns with the thread still alive
                    FakeThread.notes.append("stop() waits for the clock thread with a timeout (join(%r)): with a handler that runs longer, stop() returns "
                                            "while the thread is still ticking, and the next start() runs a second clock" % (timeout,))
                    self.join_entered.set()
                    return
                self.join_entered.set()
                if not self.done.wait(20):
                    raise Crash("worker did not end within 20 s of a stop() request")
                return
            raise Crash("join() of a thread the harness has not run to completion")


class FakeThreading:
    Event = FakeEvent
    Thread = FakeThread


class FakeTime:
    def __init__(self):
        self.vc = None

    def monotonic_ns(self):
        return self.vc.monotonic_ns()

    def monotonic(self):
        return self.vc.monotonic_ns() / 1e9

    def time(self):
        return self.vc.monotonic_ns() / 1e9

    def sleep(self, s):
        self.vc.now += int(round(s * 1e9))


class FakeSocket:
    """in-memory datagram socket for the real UDPLink"""
    log = None

    def __init__(self, *a, **kw):
        self.name = ("0.0.0.0", 0)

    def setsockopt(self, *a):
        pass

    def bind(self, addr):
        self.name = addr

    def setblocking(self, b):
        pass

    def getsockname(self):
        return self.name

    def close(self):
        pass

    def sendto(self, data, addr):
        FakeSocket.log(self, bytes(data), addr)
        return len(data)


class FakeSocketModule:
    AF_INET, SOCK_DGRAM, SOL_SOCKET, SO_REUSEADDR = 2, 2, 1, 2
    socket = FakeSocket


class LogCapture(logging.Handler):
    def __init__(self):
        super().__init__(level=logging.DEBUG)
        self.records = []
        self.ftime = None

    def emit(self, record):
        if record.levelno >= logging.WARNING and self.ftime is not None and self.ftime.vc is not None:
            self.ftime.vc.on_warning()
        try:
            self.records.append((record.levelno, record.getMessage()))
        except Exception as e:  # formatting error inside the worker's log call
            self.records.append((record.levelno, "<unformattable: %r>" % (e,)))


class Patched:
    """context: clck_gen.time / clck_gen.threading / udp_link.socket replaced, root logger captured"""

    def __enter__(self):
        common.import_toolkit()
        import clck_gen
        import udp_link
        self.clck_gen, self.udp_link = clck_gen, udp_link
        self.saved = (clck_gen.time, clck_gen.threading, udp_link.socket)
        from ..session import FakeOS
        self.saved_os = clck_gen.os
        clck_gen.os = FakeOS()          # sched_setscheduler with the kernel's rules (EINVAL outside 1..99, EPERM unprivileged)
        self.ftime = FakeTime()
        clck_gen.time = self.ftime
        clck_gen.threading = FakeThreading
        # synchronisation objects created when the class body ran (before this patch) are real ones: replace them, keeping their
        # sharing (one object on the class = one object for all instances)
        self.saved_cls = {}
        for name, val in list(vars(clck_gen.CLCKGen).items()):
            if isinstance(val, type(_real_threading.Event())):
                self.saved_cls[name] = val
                setattr(clck_gen.CLCKGen, name, FakeEvent())
        udp_link.socket = FakeSocketModule
        self.cap = LogCapture()
        self.cap.ftime = self.ftime
        root = logging.getLogger()
        self.saved_log = (root.level, list(root.handlers), logging.root.manager.disable)
        for h in list(root.handlers):
            root.removeHandler(h)
        root.addHandler(self.cap)
        root.setLevel(logging.WARNING)
        logging.disable(logging.NOTSET)
        return self

    def __exit__(self, *a):
        cg, ul = self.clck_gen, self.udp_link
        cg.time, cg.threading, ul.socket = self.saved
        cg.os = self.saved_os
        for name, val in self.saved_cls.items():
            setattr(cg.CLCKGen, name, val)
        root = logging.getLogger()
        root.removeHandler(self.cap)
        for h in self.saved_log[1]:
            root.addHandler(h)
        root.setLevel(self.saved_log[0])
        logging.disable(self.saved_log[2])
        FakeSocket.log = None
        return False


def run_session(P, case):
    """Execute one session on the real CLCKGen. case = dict(start, period, nlinks, handler, runs=[(gap, e_stop, [(e,j,d)..])]).
    Returns (flat observation list as the model's wire format, structured record for the oracle)."""
    cg = P.clck_gen
    vc = VClock(0)
    P.ftime.vc = vc
    sent = []
    FakeSocket.log = lambda sock, data, addr: sent.append((sock, data, addr, vc.now, vc.k))
    links = [P.udp_link.UDPLink("127.0.0.1", 5800 + i, "0.0.0.0", 5700 + i) for i in range(case["nlinks"])]
    # link churn (implementation-level scenarios only): links attached to / detached from the SAME list object while the clock
    # runs, as Transceiver.power_event_handler does; spare links exist from the start so that their sockets are observed
    churn = case.get("churn") or {}
    spare = [P.udp_link.UDPLink("127.0.0.1", 5800 + i, "0.0.0.0", 5700 + i) for i in range(case["nlinks"], case["nlinks"] + 4)] if churn else []
    socks = {id(l.sock): i for i, l in enumerate(links + spare)}
    members = {"now": list(range(len(links))), "log": []}
    kw = {}
    if case["period"] is not None:
        kw["ind_period"] = case["period"]
    if case["start"] is not None:
        kw["clck_start"] = case["start"]
    if case.get("prio") is not None:
        kw["sched_rr_prio"] = case["prio"]      # the worker asks for SCHED_RR before it ticks; a refusal must not stop the clock
    all_links = list(links)
    clk = cg.CLCKGen(links, **kw)
    clk._breaker.vc = vc
    other_at = set(case.get("other_gen_at") or ())
    if other_at:
        # a second, independent generator object in the same process is started and stopped while this one sleeps between ticks
        clk_b = cg.CLCKGen([], **kw)

        def during_wait(k):
            if k in other_at:
                other_at.discard(k)
                nthr = len(FakeThread.instances)
                clk_b.start()
                for th_b in FakeThread.instances[nthr:]:
                    th_b.finished = True          # its worker leaves as soon as its own breaker is set
                clk_b.stop()
                del FakeThread.instances[nthr:]
        vc.during_wait = during_wait
    calls = []

    astop = {"on": False, "thread": None, "err": None}

    def stopper():
        try:
            clk.stop()
        except BaseException as e:  # noqa
            astop["err"] = type(e).__name__ + ":" + str(e)

    def handler(fn):
        calls.append((fn, vc.now, vc.k))
        vc.now += vc.cur()[2]
        for (what, li) in churn.get(vc.k, []):
            obj = (all_links + spare)[li] if li < len(all_links) + len(spare) else None
            # the list the caller handed to the constructor and the generator's attribute are the same object (that is how
            # transceivers attach their links): both routes are used
            cur_objs = links if case.get("churn_via") == "caller" else clk.clck_links
            if what == "add" and obj is not None and li not in members["now"]:
                cur_objs.append(obj)
                members["now"].append(li)
            elif what == "del" and li in members["now"]:
                cur_objs.remove(obj)
                members["now"].remove(li)
        members["log"].append((vc.k, list(members["now"])))
        if vc.k in (case.get("restart_at") or ()):
            # a second start() while the generator runs is refused (assertion) and must leave the running clock alone
            nthr = len(FakeThread.instances)
            try:
                clk.start()
                vc.anomalies.append("start() on a running generator was not refused")
            except AssertionError:
                pass
            del FakeThread.instances[nthr:]
        if astop["on"] and vc.k == len(vc.script) - 1:
            # the other thread calls stop() while this handler is busy: stop() runs up to its join(), then the handler returns
            th2 = FakeThread.instances[-1]
            astop["thread"] = _real_threading.Thread(target=stopper, daemon=True)
            astop["thread"].start()
            if not th2.join_entered.wait(20) and astop["err"] is None:
                vc.anomalies.append("stop() did not reach join() within 20 s")

    if case["handler"]:
        clk.clck_handler = handler
    entries = []
    real_send = clk.send_clck_ind

    def spy():
        entries.append((clk.clck_src, vc.now))
        try:
            return real_send()
        finally:
            vc.after_tick()
    clk.send_clck_ind = spy      # observation only: the real bound method runs inside

    flat, struct = [], []
    for ri_, (gap, e_stop, script) in enumerate(case["runs"]):
        vc.now += gap
        t0 = vc.now
        vc.begin(script, e_stop)
        astop.update(on=bool(case["handler"] and script and ri_ in case.get("astop", ())), thread=None, err=None)
        P.cap.records.clear()
        del sent[:], calls[:], entries[:]
        nthreads = len(FakeThread.instances)
        clk.start()
        th = FakeThread.instances[-1] if len(FakeThread.instances) > nthreads else None
        crashed, exc = 0, None
        if th is None or not clk.running:
            vc.anomalies.append("start() did not create a running thread")
        else:
            # per-iteration bookkeeping needs to know which log records / sends belong to which iteration:
            # everything is stamped with virtual time and an iteration counter taken at emission
            try:
                th.run_target()
            except ZeroDivisionError as e:
                crashed, exc = 1, "ZeroDivisionError"
            except Crash as e:
                crashed, exc = 2, "harness:" + str(e)
            except Exception as e:
                crashed, exc = 2, type(e).__name__ + ":" + str(e)
        running_before_stop = clk.running
        if astop["thread"] is not None:
            astop["thread"].join(20)
            if astop["thread"].is_alive() or astop["err"]:
                vc.anomalies.append("stop() requested during a handler did not complete: %r" % (astop["err"],))
        clk.stop()
        if clk._thread is not None or clk._breaker.is_set():
            vc.anomalies.append("stop() left thread/breaker state behind")
        while FakeThread.notes:
            vc.anomalies.append("STOP-TIMEOUT " + FakeThread.notes.pop())
        # ---- assemble observations (sends / handler calls are stamped with the iteration in flight)
        if crashed == 1 and entries:
            entries.pop()        # the iteration that raised produces no observation (as in the model)
        n_it = len(entries)
        nwarn = [m for (lv, m) in P.cap.records if lv >= logging.WARNING]
        obs = []
        for k in range(n_it):
            fn, T = entries[k]
            w = vc.waits[k] if k < len(vc.waits) else (0, 0, False, 0)
            o = dict(over=1 if w[3] >= 1 else 0, deadline=w[0] + w[1], fn=fn, time=T, wait=w)
            o["sends"] = [(socks.get(id(s), -1), list(data), addr, tm) for (s, data, addr, tm, kk) in sent if kk == k]
            mine = [c for c in calls if c[2] == k]
            o["called"] = 0 if not mine else (1 if len(mine) == 1 and mine[0][:2] == (fn, T) else 2)
            o["hcalls"] = [c[:2] for c in mine]
            if any(tm != T for (_, _, _, tm) in o["sends"]):
                vc.anomalies.append("datagram of tick %d not sent at the tick's entry time" % k)
            obs.append(o)
        if any(kk >= n_it for (_, _, _, _, kk) in sent) and not crashed:
            vc.anomalies.append("datagrams outside any tick")
        stop_over = 0
        if not crashed and len(vc.waits) == n_it + 1:
            stop_over = 1 if vc.waits[-1][3] >= 1 else 0
        elif not crashed:
            vc.anomalies.append("worker ended after %d waits for %d ticks" % (len(vc.waits), n_it))
        n_over = sum(o["over"] for o in obs) + stop_over
        if len(nwarn) != n_over:
            vc.anomalies.append("%d warnings logged, %d overrun iterations" % (len(nwarn), n_over))
        final_next = (vc.waits[-1][0] + vc.waits[-1][1]) if vc.waits else t0
        flat.append(len(obs))
        for o in obs:
            flat += [o["over"], o["deadline"], o["fn"], o["time"], o["called"], len(o["sends"])]
            for (li, data, addr, tm) in o["sends"]:
                flat += [li, len(data)] + data
        src = getattr(clk, "clck_src", None)
        flat += [crashed, stop_over, vc.now, final_next, src if isinstance(src, int) else -1]
        struct.append(dict(t0=t0, obs=obs, crashed=crashed, exc=exc, stop_over=stop_over, end=vc.now, src=src,
                           running_before_stop=running_before_stop, script=script))
    if churn:
        struct[0]["members"] = list(members["log"])
    return flat, struct, list(vc.anomalies)


# ------------------------------------------------------------------ Gen

def reflect(P):
    cg = P.clck_gen
    import gsm_shared
    sig = inspect.signature(cg.CLCKGen.__init__)
    d_period = sig.parameters["ind_period"].default
    d_start = sig.parameters["clck_start"].default
    # tick length as exhibited by the real worker: spacing of the send_clck_ind entries with a zero-time handler
    case = dict(start=None, period=None, nlinks=0, handler=True, runs=[(1000, 0, [(0, 0, 0)] * 4)])
    flat, st, an = run_session(P, case)
    ts = [o["time"] for o in st[0]["obs"]]
    if len(ts) < 3:
        raise RuntimeError("CLCKGen worker did not tick under the virtual clock: %r %r" % (st[0]["exc"], an))
    tick = ts[1] - ts[0]
    first = ts[0] - st[0]["t0"]
    return dict(hyper_used=int(cg.GSM_HYPERFRAME), hyper_shared=int(gsm_shared.GSM_HYPERFRAME), tick=int(tick), first=int(first),
                d_period=int(d_period), d_start=int(d_start), ctr_interval=repr(cg.CLCKGen([]).ctr_interval),
                frame_us=repr(cg.CLCKGen.GSM_FRAME_US), sec_us=repr(cg.CLCKGen.SEC_DELAY_US), ticks=ts)


# sha1 of the source text of the anchored functions at the time the model was reviewed (a difference is a note, never an alarm)
REVIEWED = {'__init__': '689f95a7eafdc766', 'start': '0f079f6b8426fe3f', 'stop': 'a2bde5866022c1d0', '_worker': '15b506a278a508b7',
            'send_clck_ind': '7e2ae6e95910e557'}


def source_hashes(cg):
    import hashlib
    out = {}
    for name in ("__init__", "start", "stop", "_worker", "send_clck_ind"):
        try:
            out[name] = hashlib.sha1(inspect.getsource(getattr(cg.CLCKGen, name)).encode()).hexdigest()[:16]
        except (OSError, TypeError, AttributeError):
            out[name] = "?"
    return out


def gen(ctx):
    with Patched() as P:
        r = reflect(P)
        r["hashes"] = source_hashes(P.clck_gen)
    for k, v in sorted(r["hashes"].items()):
        if REVIEWED.get(k) not in (None, v):
            ctx.note("source of CLCKGen.%s changed since the model was reviewed (%s -> %s)" % (k, REVIEWED[k], v))
    txt = common.gen_header("clck_gen.GSM_HYPERFRAME / gsm_shared.GSM_HYPERFRAME (as imported), the tick of CLCKGen._worker "
                            "(spacing of the first two ticks of the real worker under the virtual clock; GSM_FRAME_US=%s SEC_DELAY_US=%s ctr_interval=%s), "
                            "CLCKGen.__init__ defaults" % (r["frame_us"], r["sec_us"], r["ctr_interval"]))
    txt += "Definition c_hyperframe : Z := %d.\n" % r["hyper_used"]
    txt += "Definition c_hyperframe_shared : Z := %d.\n" % r["hyper_shared"]
    txt += "Definition c_tick : Z := %d.\n" % r["tick"]
    txt += "Definition c_first_tick : Z := %d.\n" % r["first"]
    txt += "Definition c_default_period : Z := %d.\n" % r["d_period"]
    txt += "Definition c_default_start : Z := %d.\n" % r["d_start"]
    ctx.gen("ClockConst", txt)
    return r


# ------------------------------------------------------------------ cases

PATTERNS = ["below", "above", "alternate", "spike", "random", "edge", "jitter"]


def make_script(rng, pat, n, tick):
    """n records (e, j, d) of the given delay pattern"""
    out = []
    spike_at = rng.below(max(n, 1))
    for k in range(n):
        e = rng.choice([0, 0, 1, rng.below(3000)])
        j = 0
        if pat == "below":
            d = rng.choice([0, 1, tick // 2, tick - 1, tick, rng.below(tick + 1)])
        elif pat == "above":
            d = rng.choice([tick + 1, tick + 2, 2 * tick, tick + 1 + rng.below(2 * tick)])
        elif pat == "alternate":
            d = rng.below(tick) if k % 2 == 0 else tick + 1 + rng.below(tick)
        elif pat == "spike":
            d = rng.below(tick // 2)
            if k == spike_at:
                d = rng.choice([tick + 1, 3 * tick + 7, 10 * tick, 50 * tick + rng.below(tick)])
        elif pat == "random":
            d = rng.below(2 * tick) if rng.chance(1, 2) else rng.below(tick // 4)
            j = rng.choice([0, 0, 0, rng.below(50000)])
        elif pat == "edge":          # oversleep + handler time exactly on / next to the tick
            j = rng.choice([0, 1, 17, rng.below(1000)])
            d = tick - j + rng.choice([-1, 0, 0, 1])
        else:                        # jitter: the wait oversleeps, the handler is quick
            j = rng.choice([0, 1, rng.below(200000), tick - 1, tick, tick + 1])
            d = rng.below(1000)
        out.append((e, j, d))
    return out


def make_case(rng, tick, idx):
    start = rng.choice([0, 0, 1, H - 1, H - 1, H - 2, H - 50, 50, 51, 101, 102, 103, 1325, 1326, H // 2, rng.below(H), rng.below(H)])
    period = rng.choice([1, 51, 102, H, None, 1, 51, 102, H, rng.choice([2, 26, 1326, 7, rng.range(1, 200)])])
    if period == H and rng.chance(3, 4):
        start = H - 1 - rng.below(40)          # let the only indication frame (0) fall into the run
    nlinks = rng.below(4)
    handler = not rng.chance(1, 8)
    nruns = rng.choice([1, 1, 1, 2, 3])
    runs = []
    pats = []
    for _ in range(nruns):
        pat = PATTERNS[(idx + len(runs)) % len(PATTERNS)] if rng.chance(2, 3) else rng.choice(PATTERNS)
        n = rng.range(50, 500) if nruns == 1 else rng.range(50, 200)
        if period in (1, 2) and nlinks >= 2:
            n = min(n, 200)
        pats.append(pat)
        runs.append((rng.choice([0, 1, 1000, rng.below(10 ** 7)]), rng.choice([0, 5, rng.below(2000)]), make_script(rng, pat, n, tick)))
    # stop() requested by the other thread while the handler of the run's last tick is busy (else: while the worker waits)
    astop = [i for i in range(nruns) if rng.chance(1, 2)] if nruns > 1 else []
    restart_at = sorted(set(rng.below(40) for _ in range(rng.range(1, 3)))) if handler and rng.chance(1, 4) else []
    other_gen_at = sorted(set(rng.range(1, 40) for _ in range(rng.range(1, 2)))) if rng.chance(1, 5) else []
    return dict(start=start, period=period, nlinks=nlinks, handler=handler, runs=runs, pats=pats, domain=True, astop=astop, restart_at=restart_at, other_gen_at=other_gen_at)


def make_malformed(rng, tick):
    """outside the property's domain (compared with the model, not judged by the oracle)"""
    c = make_case(rng, tick, 0)
    c["runs"] = [(g, e, s[:rng.range(0, 30)]) for (g, e, s) in c["runs"]]
    kind = rng.below(4)
    if kind == 0:
        c["period"] = 0
    elif kind == 1:
        c["period"] = rng.choice([-1, -51, -102])
    elif kind == 2:
        c["start"] = rng.choice([-1, -5, -120, H, H + 1, 3 * H + 7, 10 ** 12])
    else:
        c["runs"] = [(g, e, []) for (g, e, s) in c["runs"]]
    c["domain"] = False
    return c


def case_line(case, d_period, d_start):
    per = d_period if case["period"] is None else case["period"]
    st = d_start if case["start"] is None else case["start"]
    a = [st, per, case["nlinks"], 1 if case["handler"] else 0, len(case["runs"])]
    for (gap, e_stop, script) in case["runs"]:
        a += [gap, e_stop, len(script)]
        for t in script:
            a += list(t)
    return "w_c09_session " + " ".join(map(str, a))


# ------------------------------------------------------------------ implementation-level oracle

def oracle(case, struct, anomalies, tick, d_period, d_start):
    """the property, stated directly on what the real CLCKGen did.  Returns [(key, what, detail)]."""
    bad = []
    for a in anomalies:
        if a.startswith("STOP-TIMEOUT "):
            bad.append(("c09-stop-returns-while-thread-runs", a[len("STOP-TIMEOUT "):], {}))
        else:
            bad.append(("c09-harness-anomaly", a, {}))
    per = d_period if case["period"] is None else case["period"]
    start = d_start if case["start"] is None else case["start"]
    nl = case["nlinks"]
    for ri, (run, (gap, e_stop, script)) in enumerate(zip(struct, case["runs"])):
        obs, t0 = run["obs"], run["t0"]
        if run["crashed"]:
            bad.append(("c09-worker-died", "the worker thread ended with %s" % run["exc"], dict(run=ri)))
            continue
        if len(obs) != len(script):
            bad.append(("c09-once-per-tick", "%d send_clck_ind calls for %d completed waits" % (len(obs), len(script)), dict(run=ri)))
            continue
        dur = [(d if case["handler"] else 0) for (e, j, d) in script]
        fits = [script[k][1] + dur[k] <= tick for k in range(len(script))]
        anchor, anchor_k = t0, -1            # deadline of tick k (while no overrun since the anchor) = anchor + (k - anchor_k) * tick
        for k, o in enumerate(obs):
            e, j, d = script[k]
            where = dict(run=ri, tick=k)
            # frame numbers: consecutive modulo the hyperframe from the start frame, every start()
            fn = (start + k) % 2715648
            if o["fn"] != fn:
                bad.append(("c09-fn-sequence", "tick %d of run %d has frame %r, expected %d" % (k, ri, o["fn"], fn), where))
            if case["handler"] and (o["called"] != 1):
                bad.append(("c09-handler-call", "handler calls at tick %d: %r (expected one call with fn %d at the tick instant)" % (k, o["hcalls"], fn), where))
            if not case["handler"] and o["called"] != 0:
                bad.append(("c09-handler-call", "handler called without a handler", where))
            # indications
            want = []
            if fn % per == 0:
                want = [(li, list(b"IND CLOCK " + str(fn).encode("ascii") + b"\x00"), ("127.0.0.1", 5800 + li)) for li in range(nl)]
            got = [(li, data, addr) for (li, data, addr, tm) in o["sends"]]
            if got != want:
                if any(dt[-1:] != [0] for (_, dt, _) in got):
                    key = "c09-ind-no-nul"
                elif len(got) != len(want):
                    key = "c09-ind-frames"
                else:
                    key = "c09-ind-payload"
                bad.append((key, "tick %d (fn %d, period %d, %d links): sent %r" % (k, fn, per, nl, [(li, bytes(dt)) for (li, dt, _) in got][:3]), where))
            # timing
            prev_fit = True if k == 0 else fits[k - 1]
            if prev_fit:
                if k > 0 and o["over"]:
                    bad.append(("c09-spurious-overrun", "tick %d took the overrun branch although tick %d fitted" % (k, k - 1), where))
                due = anchor + (k - anchor_k) * tick
                if o["time"] != due + j:
                    key = "c09-drift" if anchor_k < 0 else "c09-resync-anchor"
                    bad.append((key, "tick %d of run %d at %d, due %d (+ oversleep %d): error %d ns" % (k, ri, o["time"], due, j, o["time"] - due - j), where))
            else:
                pe, pj, pd = script[k - 1]
                resume = obs[k - 1]["time"] + dur[k - 1]
                if not o["over"]:
                    bad.append(("c09-no-resync", "tick %d did not resynchronise after the overrun of tick %d" % (k, k - 1), where))
                if o["time"] != resume + e + j:
                    bad.append(("c09-resync-late", "tick %d after an overrun fired at %d, expected at once: %d" % (k, o["time"], resume + e + j), where))
                anchor, anchor_k = resume + e, k
            if k > 0 and o["deadline"] < obs[k - 1]["deadline"] + tick:
                bad.append(("c09-catch-up-burst", "deadlines of ticks %d,%d only %d ns apart" % (k - 1, k, o["deadline"] - obs[k - 1]["deadline"]), where))
            if k > 0 and (o["time"] - j) - (obs[k - 1]["time"] - script[k - 1][1]) < tick:
                bad.append(("c09-catch-up-burst", "ticks %d,%d only %d ns apart" % (k - 1, k, o["time"] - obs[k - 1]["time"]), where))
    return bad


def find_bad(P, case, key, tick, d_period, d_start):
    """first failure with the given key (any failure if key is None) when the case is executed on the real CLCKGen"""
    flat, st, an = run_session(P, case)
    for b in oracle(case, st, an, tick, d_period, d_start):
        if key is None or b[0] == key:
            return b
    return None


def shrink(P, case, key, tick, d_period, d_start):
    """smallest prefix of a single run that still shows a failure with the same key"""
    best = case
    for ri in range(len(case["runs"])):
        c = dict(case, runs=[case["runs"][ri]], pats=case["pats"][ri:ri + 1])
        if find_bad(P, c, key, tick, d_period, d_start):
            best = c
            break
    if len(best["runs"]) == 1:
        gap, e_stop, script = best["runs"][0]
        lo, hi = 0, len(script)
        while lo < hi:                       # shortest prefix with the failure
            mid = (lo + hi) // 2
            if find_bad(P, dict(best, runs=[(gap, e_stop, script[:mid])]), key, tick, d_period, d_start):
                hi = mid
            else:
                lo = mid + 1
        c = dict(best, runs=[(gap, e_stop, script[:lo])])
        if find_bad(P, c, key, tick, d_period, d_start):
            best = c
    return best


def show_case(case):
    c = dict(case)
    c["runs"] = [dict(gap=g, e_stop=e, ticks=len(s), script=(s if len(s) <= 12 else s[:6] + ["..."] + s[-3:])) for (g, e, s) in case["runs"]]
    return c


# ------------------------------------------------------------------ single send_clck_ind calls

def send_cases(rng, n):
    fns = set([0, 1, 9, 10, 11, 99, 100, 101, 999, 1000, 50, 51, 52, 101, 102, 103, 1325, 1326, 1327, 99999, 100000, 999999, 1000000,
               H - 2, H - 1, H, H + 1, 2 * H - 1, -1, -10, -102, 10 ** 9, 10 ** 12 + 1])
    for m in (51, 102, 1326):
        for q in (1, 2, 1000, 26623):
            for dd in (-1, 0, 1):
                fns.add(m * q + dd)
    out = []
    for fn in sorted(fns):
        for per in (1, 51, 102, H):
            out.append((fn, per, 1))
    for _ in range(n):
        fn = rng.below(H)
        per = rng.choice([1, 51, 102, H, 2, 26, 0, -51, rng.range(1, 300)])
        if rng.chance(1, 2) and per not in (0,):
            fn -= fn % per
            fn = min(max(fn, 0), H - 1)
        out.append((fn, per, rng.below(4)))
    return out


def impl_send(P, fn, per, nl):
    vc = VClock(0)
    P.ftime.vc = vc
    sent = []
    FakeSocket.log = lambda sock, data, addr: sent.append((sock, data, addr))
    links = [P.udp_link.UDPLink("127.0.0.1", 5800 + i, "0.0.0.0", 5700 + i) for i in range(nl)]
    socks = {id(l.sock): i for i, l in enumerate(links)}
    clk = P.clck_gen.CLCKGen(links, ind_period=per)
    clk.clck_src = fn
    try:
        clk.send_clck_ind()
    except ZeroDivisionError:
        return [1], sent
    out = [0, clk.clck_src, len(sent)]
    for (s, data, addr) in sent:
        out += [socks.get(id(s), -1), len(data)] + list(data)
    return out, sent


# ------------------------------------------------------------------ the check

def run(ctx):
    r = gen(ctx)
    ctx.prove()
    if ctx.tier == "thorough":
        ctx.coqchk()
    tick, d_period, d_start = r["tick"], r["d_period"], r["d_start"]
    ctx.extra["reflected"] = {k: r[k] for k in ("hyper_used", "hyper_shared", "tick", "first", "d_period", "d_start", "ctr_interval", "frame_us", "sec_us")}
    # the tick length itself is part of the property (one TDMA frame period, 4.615 ms)
    if abs(tick - TICK_NOMINAL) > 1000 or tick <= 0:
        ctx.oracle_fail("tick length of the real worker is %d ns, not one TDMA frame period 4 615 000 ns +- 1000" % tick,
                        dict(tick=tick, ctr_interval=r["ctr_interval"]), key="c09-tick-length", expected=TICK_NOMINAL, observed=tick)
    if r["first"] != tick:
        ctx.oracle_fail("first tick after %d ns, later ticks every %d ns" % (r["first"], tick), dict(first=r["first"], tick=tick), key="c09-first-tick")
    if r["hyper_used"] != H or r["hyper_shared"] != H:
        ctx.oracle_fail("GSM_HYPERFRAME is %d / %d, not 2715648" % (r["hyper_used"], r["hyper_shared"]), dict(r), key="c09-hyperframe")
    rng = ctx.rng
    n_sessions = 220 if ctx.tier == "quick" else 6000
    n_malformed = 40 if ctx.tier == "quick" else 600
    cases = []
    if ctx.replay:
        import json
        with open(ctx.replay) as f:
            rp = json.load(f)
        c = rp.get("case", {}).get("full") or rp.get("case")
        if isinstance(c, dict) and "runs" in c:
            c["runs"] = [(g, e, [tuple(t) for t in s]) for (g, e, s) in c["runs"]]
            c.setdefault("pats", ["replay"])
            c.setdefault("domain", True)
            cases.append(c)
    cdir = os.path.join(common.ROOT, "corpus", "C09")
    if os.path.isdir(cdir):
        import json
        for fn in sorted(os.listdir(cdir)):
            if fn.endswith(".json"):
                with open(os.path.join(cdir, fn)) as f:
                    c = json.load(f)
                c["runs"] = [(g, e, [tuple(t) for t in s]) for (g, e, s) in c["runs"]]
                c.setdefault("pats", ["corpus"])
                c.setdefault("domain", True)
                cases.append(c)
    # hand-picked: every pattern at the hyperframe wrap with period 1 and with the hyperframe as period
    for pi, pat in enumerate(PATTERNS):
        cases.append(dict(start=H - 3, period=[1, H, 51][pi % 3], nlinks=pi % 4, handler=True, pats=[pat, pat], domain=True,
                          runs=[(0, 0, make_script(rng, pat, 60, tick)), (7, 3, make_script(rng, pat, 50, tick))]))
    for i in range(n_sessions):
        cases.append(make_case(rng, tick, i))
    for i in range(n_malformed):
        cases.append(make_malformed(rng, tick))
    impl, structs = {}, {}
    nticks = 0
    with Patched() as P:
        # ---- links attached / detached while the clock runs (implementation-level: the model's link set is fixed per session)
        for ci in range(6 if ctx.tier == "quick" else 60):
            nl0 = rng.below(3) if ci % 3 else 0           # every third scenario starts with NO link (an empty list handed to the constructor)
            per = rng.choice([1, 1, 2, 3])
            n = rng.range(12, 30)
            churn = {}
            for _ in range(rng.range(2, 5)):
                churn.setdefault(rng.below(n - 2), []).append((rng.choice(["add", "add", "del"]), rng.below(nl0 + 4)))
            st0 = rng.choice([0, 5, H - 6])
            ccase = dict(start=st0, period=per, nlinks=nl0, handler=True, runs=[(0, 0, [(0, 0, 10)] * n)], churn=churn, churn_via=("caller" if ci % 2 == 0 else "attribute"), prio=rng.choice([None, 1, 99, 100, 0]), domain=True, pats=["churn"])
            ctx.in_flight = ("churn", ci)
            flat, st, an = run_session(P, ccase)
            if any(x.get("crashed") for x in st) or len(st[0]["obs"]) != n:
                ctx.oracle_fail("the clock thread did not deliver the %d ticks of the run (%d observed; %s)" % (n, len(st[0]["obs"]), "; ".join(an) or "no anomaly recorded"),
                                dict(start=st0, period=per, initial_links=nl0, sched_rr_prio=ccase["prio"]), key="c09-clock-thread-dies")
                continue
            mem = dict(st[0].get("members", []))
            cur = list(range(nl0))
            for k, o in enumerate(st[0]["obs"]):
                fn = (st0 + k) % H
                want = sorted(cur) if fn % per == 0 else []      # the indication of tick k precedes the handler call of tick k
                got = sorted(li for (li, data, addr, tm) in o["sends"])
                if got != want:
                    ctx.oracle_fail("clock indication of frame %d went to links %r, attached at that moment: %r (links were attached / detached while the clock was running)" % (fn, got, want),
                                    dict(start=st0, period=per, initial_links=nl0, churn={str(a): b for a, b in churn.items()}, tick=k), key="c09-ind-links-churn", expected=want, observed=got)
                    break
                cur = mem.get(k, cur)
            ctx.nontrivial(("churn", nl0, per, len(churn)))
        for k, case in enumerate(cases):
            ctx.in_flight = ("session", k)
            flat, st, an = run_session(P, case)
            impl[k] = flat
            structs[k] = (st, an)
            nticks += sum(len(x["obs"]) for x in st)
        ctx.correspond("clock-session", "Clock", list(range(len(cases))), lambda k: case_line(cases[k], d_period, d_start),
                       lambda k: impl[k], show=lambda k: show_case(cases[k]))
        # oracle
        reported = set()
        for k, case in enumerate(cases):
            st, an = structs[k]
            if not case["domain"]:
                for a in an:
                    ctx.oracle_fail("harness anomaly: " + a, show_case(case), key="c09-harness-anomaly")
                ctx.count("malformed:" + ("crash" if any(x["crashed"] for x in st) else "ok"))
                ctx.nontrivial(("malformed", case["period"] == 0, (case["period"] or 1) < 0, not (0 <= (case["start"] or 0) < H),
                                any(x["crashed"] for x in st)))
                continue
            bad = oracle(case, st, an, tick, d_period, d_start)
            for (key, what, detail) in bad:
                if key in reported:
                    ctx.count("oracle_fail:" + key)
                    continue
                reported.add(key)
                small = shrink(P, case, key, tick, d_period, d_start)
                b2 = find_bad(P, small, key, tick, d_period, d_start)
                full = dict(small, runs=[[g, e, [list(t) for t in s]] for (g, e, s) in small["runs"]])
                ctx.oracle_fail(b2[1] if b2 else what, dict(summary=show_case(small), full=full, detail=b2[2] if b2 else detail), key=key)
            per = d_period if case["period"] is None else case["period"]
            for ri, x in enumerate(st):
                script = case["runs"][ri][2]
                fns = [o["fn"] for o in x["obs"]]
                n_over = sum(o["over"] for o in x["obs"])
                edge = any(j + (d if case["handler"] else 0) == tick for (e, j, d) in script)
                ctx.nontrivial((case["pats"][ri] if ri < len(case["pats"]) else "?", 0 in fns[1:], any(o["sends"] for o in x["obs"]),
                                min(n_over, 2), n_over == len(script) - 1, edge, per if per in (1, 51, 102, H) else 0, case["nlinks"], case["handler"],
                                ri > 0, x["stop_over"]))
                ctx.count("pattern:" + (case["pats"][ri] if ri < len(case["pats"]) else "?"))
                ctx.count("overruns", n_over)
                ctx.count("indication_ticks", sum(1 for o in x["obs"] if o["sends"]))
        ctx.count("ticks_executed_on_real_worker", nticks)
        for k in (0, len(PATTERNS), len(cases) // 2, len(cases) - n_malformed - 1, len(cases) - 1):
            if 0 <= k < len(cases):
                st, an = structs[k]
                ctx.sample(dict(case=show_case(cases[k]), first_ticks=[dict(fn=o["fn"], time=o["time"], over=o["over"], deadline=o["deadline"],
                                                                            sends=[bytes(s[1]).decode("latin1") for s in o["sends"]]) for o in st[0]["obs"][:3]],
                                crashed=st[0]["crashed"]))
        # single send_clck_ind calls over a frame-number / period grid
        sc = send_cases(rng, 1500 if ctx.tier == "quick" else 60000)
        simpl = {}
        for k, (fn, per, nl) in enumerate(sc):
            ctx.in_flight = ("send", k)
            simpl[k], sent = impl_send(P, fn, per, nl)
            if 0 <= fn < H and per >= 1:
                want = [b"IND CLOCK " + str(fn).encode() + b"\x00"] * nl if fn % per == 0 else []
                if [d for (_, d, _) in sent] != want:
                    ctx.oracle_fail("send_clck_ind at fn %d, period %d, %d links sent %r" % (fn, per, nl, [d for (_, d, _) in sent][:2]),
                                    dict(fn=fn, period=per, nlinks=nl), key="c09-ind-payload" if sent and want else "c09-ind-frames")
                if simpl[k][:2] != [0, (fn + 1) % 2715648]:
                    ctx.oracle_fail("clck_src after fn %d is %r" % (fn, simpl[k][1:2]), dict(fn=fn), key="c09-fn-sequence")
                ctx.nontrivial(("send", fn % per == 0, len(str(fn)), fn == H - 1, nl))
        ctx.correspond("send-clck-ind", "Clock", list(range(len(sc))), lambda k: "w_c09_send %d %d %d" % sc[k], lambda k: simpl[k], show=lambda k: sc[k])
    ctx.extra["rule"] = ("sessions on the real CLCKGen under a virtual clock: delay patterns below / above / alternate / spike / random / edge (oversleep+handler = tick-1, tick, tick+1) / "
                         "jitter, start frames {0, 1, 2715646, 2715647, around multiples of 51/102/1326, uniform}, periods {1, 51, 102, 2715648, default, small}, 0-3 links, "
                         "with/without handler, 1-3 start()/stop() periods of 50-500 ticks; malformed stream: period 0 / negative, start outside the hyperframe, empty runs; "
                         "plus single send_clck_ind calls on a frame-number x period grid. distinct_nontrivial = distinct behaviour classes (pattern, hyperframe wrap inside the run, "
                         "indication sent, overrun count class, every-tick overrun, exact-edge hit, period class, links, handler, restart, overrun at stop)")
