"""C10 - forwarded bursts: faithful bits and simulated radio metadata. Model: Model/Trx.v (trans, handle_data, ts_pick); theorems: Props/C10.v.
Tie: Gen (fake_trx defaults, TrainingSeqGMSK table) + sessions on the real Application vs the extracted model
+ independent reference of the metadata on the datagrams received by the peer."""
import random as pyrandom

from .. import common, session_check as SC, session_wire as W

F1, F2 = 935000, 890000


def gen(ctx):
    SC.gen_all(ctx)


def gen_bursts(seed):
    """bursts from the toolkit's own generator (all TSCs, all types) with the TSC they carry"""
    common.import_toolkit()
    import rand_burst_gen
    import gsm_shared as G
    pyrandom.seed(seed)
    g = rand_burst_gen.RandBurstGen()
    out = []
    for ts in list(G.TrainingSeqGMSK):
        for _ in range(3):
            if ts.bt is G.BurstType.NORMAL:
                b = g.gen_nb(ts)
            elif ts.bt is G.BurstType.ACCESS:
                b = g.gen_ab(ts)
            else:
                b = g.gen_sb(ts)
            out.append((list(b), ts.bt.name, ts.tsc, ts.tsc_set))
        # structured payloads around the same training sequence (all zeros / all ones / alternating): what a detector keyed
        # on "is there anything in the window" or on a neighbouring burst type's window gets wrong
        o, n = {"NORMAL": (61, 26), "ACCESS": (8, 41), "SYNC": (42, 64)}[ts.bt.name]
        for fill in ([0] * 148, [1] * 148, [k & 1 for k in range(148)]):
            v = list(fill)
            v[o:o + n] = list(ts.seq)
            out.append((v, ts.bt.name, ts.tsc, ts.tsc_set))
    out.append((list(g.gen_fb()), "FREQ", None, None))
    out.append((list(g.gen_db()), "DUMMY", None, None))
    return out


def first_match(bits):
    """the detection rule, independently: first sequence of the enumeration found at the position of its burst type"""
    import gsm_shared as G
    pos = {"NORMAL": (61, 26), "ACCESS": (8, 41), "SYNC": (42, 64)}
    hits = []
    for ts in list(G.TrainingSeqGMSK):
        o, n = pos[ts.bt.name]
        if list(bits[o:o + n]) == list(ts.seq):
            hits.append((ts.tsc, ts.tsc_set, ts.bt.name))
    return hits


def make_script(rng, bursts):
    vers = [rng.below(2), rng.below(2)]
    ops = [("ctrl", 0, W.cmd("CMD RXTUNE %d" % F2)), ("ctrl", 0, W.cmd("CMD TXTUNE %d" % F1)),
           ("ctrl", 1, W.cmd("CMD RXTUNE %d" % F1)), ("ctrl", 1, W.cmd("CMD TXTUNE %d" % F2))]
    for i in (0, 1):
        ops.append(("ctrl", i, W.cmd("CMD SETFORMAT %d" % vers[i])))
        ops.append(("ctrl", i, W.cmd("CMD POWERON")))
    ops.append(("draws", [rng.below(1 << 20) for _ in range(200)]))
    fn = rng.below(W.H)
    meta = []
    for _ in range(rng.range(10, 40)):
        w = rng.below(12)
        i = rng.below(2)
        if w == 0:
            ops.append(("ctrl", i, W.cmd("CMD SETTA %d" % rng.choice([0, 1, 2, 63]))))
        elif w == 1:
            ops.append(("ctrl", i, W.cmd("CMD SETPOWER %d" % rng.choice([0, 2, 10, 20]))))
        elif w == 2:
            ops.append(("ctrl", i, W.cmd("CMD FAKE_TOA %d %d" % (rng.choice([-300, 0, 64, 1000]), rng.choice([0, 0, 3, 100])))))
        elif w == 3:
            if rng.chance(1, 2):
                ops.append(("ctrl", i, W.cmd("CMD FAKE_RSSI %d %d" % (rng.choice([-110, -85, -60, -50]), rng.choice([0, 0, 2, 5, 25, 25, -1])))))
            else:
                ops.append(("ctrl", i, W.cmd("CMD FAKE_RSSI %d" % rng.choice([-5, 3]))))
        elif w == 4:
            ops.append(("ctrl", i, W.cmd("CMD FAKE_CI %d %d" % (rng.choice([-100, 0, 90, 300]), rng.choice([0, 0, 1, 5, 50])))))
        elif w == 5:
            ops.append(("ctrl", i, W.cmd("CMD FAKE_TOA %d" % rng.choice([-20, 20]))))
        else:
            if rng.chance(3, 4):
                bits, kind, tsc, tset = rng.choice(bursts)
            else:
                n = rng.choice([148, 148, 444])
                bits, kind, tsc, tset = [rng.below(2) for _ in range(n)], "RANDOM", None, None
                if n == 148 and rng.chance(1, 2):   # adversarial: embed an access sequence inside an otherwise normal burst
                    b2, _, _, _ = rng.choice([b for b in bursts if b[1] == "ACCESS"])
                    bits[8:49] = b2[8:49]
            ops.append(("data", i, W.tx_datagram(vers[i], fn, rng.below(8), rng.choice([0, 3, 10, 30]), bits, pad=rng.choice([0, 2]))))
            ops.append(("state",))
            ops.append(("tick", fn))
            fn = (fn + 1) % W.H
        if rng.chance(1, 12):
            ops.append(("ctrl", rng.below(2), W.rejected_cmd(rng)))      # refused / ignored: the simulation parameters stay as they are
        if rng.chance(1, 25):
            # a power cycle of one side: the negotiated header version and every simulation parameter survive it (POWEROFF forgets the
            # queue and the hopping configuration, nothing else)
            k = rng.below(2)
            ops += [("ctrl", k, W.cmd("CMD POWEROFF")), ("ctrl", k, W.cmd("CMD POWERON")), ("state",)]
    ops.append(("state",))
    return [], ops


def oracle(ctx, script, real, gen_index):
    defs, ops = script
    cfg, obs, events = real
    last = None
    pending = {}
    # the simulation parameters in force are taken from the COMMAND HISTORY (the documented command table, C05's reference), not from
    # what the implementation reports about itself: "SETTA 2, SETTA 5" means TA 5 whatever the object's attribute says
    from . import C05 as _C05
    ref = _C05.Ref(cfg)
    for e in events:
        op = e["op"]
        if op[0] == "ctrl":
            try:
                toks = bytes(op[2]).decode("ascii").strip().strip("\0").split(" ")
                if toks[0] == "CMD" and len(toks) >= 2:
                    ref.cmd(op[1], toks[1], [int(x) for x in toks[2:]])
            except (ValueError, UnicodeDecodeError):
                pass
        if "state" in e:
            last = e["state"][0]
            for i, t in enumerate(last):
                if t["sim"][:11] != ref.sim(i)[:11] or t["ver"] != ref.t[i]["ver"]:
                    ctx.oracle_fail("simulation parameters of a transceiver differ from what the command history sets", dict(trx=i, ops=[SC.describe(o) for o in ops][:80]),
                                    key="c10-parameters-vs-history", expected=ref.sim(i)[:11], observed=t["sim"][:11])
                    return
        elif op[0] == "data" and e["obs"] == [2, 1]:
            d = op[2]
            pending[(op[1], d[1] << 24 | d[2] << 16 | d[3] << 8 | d[4])] = d
        elif op[0] == "tick" and last is not None:
            for src, j, dg, remote in e["log"]:
                sent = pending.get((src, op[1]))
                if sent is None:
                    continue
                s_sim, d_sim = ref.sim(src), ref.sim(j)
                ver = ref.t[j]["ver"]
                if (dg[0] >> 4) >= 1 and len(dg) > 8 and (dg[8] & 0x80):
                    continue          # an idle indication (suppressed burst): who gets one and what it holds is C02 / C18
                bits = sent[6:]
                bits = bits[:444] if len(bits) >= 444 else bits[:148]
                fail = []
                if dg[0] >> 4 != ver:
                    fail.append("version")
                if dg[0] & 7 != sent[0] & 7 or list(dg[1:5]) != list(sent[1:5]):
                    fail.append("fn/tn")
                hl = 8 if ver == 0 else 11
                rssi = -dg[5]
                toa = int.from_bytes(bytes(dg[6:8]), "big", signed=True)
                body = list(dg[hl:])
                if ver == 0:
                    if body[-2:] != [0, 0] or len(body) != len(bits) + 2:
                        fail.append("legacy-padding")
                    body = body[:-2]
                if body != [254 if b else 0 for b in bits]:
                    fail.append("bits")
                muted, fake, txp, att, toa_b, toa_t, rssi_b, rssi_t, ci_b, ci_t, ta = d_sim[0], d_sim[1], s_sim[2], s_sim[3], d_sim[4], d_sim[5], d_sim[6], d_sim[7], d_sim[8], d_sim[9], s_sim[10]
                if not fake:
                    if rssi != txp - att - sent[5] - 110:
                        fail.append("rssi")
                elif not (rssi_b - rssi_t <= rssi <= rssi_b + rssi_t):
                    fail.append("rssi-window")
                if not (toa_b - toa_t - 256 * ta <= toa <= toa_b + toa_t - 256 * ta):
                    fail.append("toa")
                if ver == 1:
                    ci = int.from_bytes(bytes(dg[9:11]), "big", signed=True)
                    if not (ci_b - ci_t <= ci <= ci_b + ci_t):
                        fail.append("ci")
                    mts = dg[8]
                    modc = (mts >> 3) & 0xf
                    if len(bits) == 444:
                        if modc & 0xe != 0b0100 or mts & 7 != 0 or modc & 1:
                            fail.append("mod/8psk")
                    else:
                        if modc & 0b1100:
                            fail.append("mod/gmsk")
                        hits = first_match(bits)
                        want = hits[0][:2] if hits else (0, 0)
                        if (mts & 7, modc & 3) != want:
                            fail.append("tsc")
                        g = gen_index.get(tuple(bits))
                        if g and g[1] is not None:
                            if hits and hits[0][:2] == (g[1], g[2]):
                                ctx.count("generated_burst_tsc_reported")
                            else:
                                ctx.count("generated_burst_earlier_sequence_also_matches")
                        ctx.nontrivial(("tsc", want, g[0] if g else "RANDOM"))
                ctx.nontrivial(("meta", ver, bool(fake), toa_t > 0, rssi_t > 0, ci_t > 0, ta > 0, len(bits)))
                if fail:
                    ctx.oracle_fail("forwarded burst differs from the documented content/metadata: " + ",".join(fail),
                                    dict(sent=list(sent[:8]), received=list(dg[:12]), src_sim=s_sim, dst_sim=d_sim, ops=[SC.describe(o) for o in ops][:80]),
                                    key="c10-" + fail[0])
            pending = {k: v for k, v in pending.items() if k[1] != op[1]}


def version_race(ctx):
    """SETFORMAT on the recipient (socket thread) racing the forwarding of one burst to it (clock thread), on two real threads with a
    preemption point at every read / write of the negotiated version: whatever the schedule, the datagram the recipient's L1 gets is a
    well-formed datagram of ONE version - the old one or the new one - with that version's layout (v0: 8 header octets + 148 soft
    bits + 2 padding octets = 158; v1: 11 + 148 = 159), never a mixture"""
    import itertools
    from .. import sched_driver as SD
    n = 0
    for old, new in ((0, 1), (1, 0), (0, 0), (1, 1), (0, 7)):
        scheds = list(itertools.product((0, 1), repeat=8)) if ctx.tier == "thorough" else [tuple(ctx.rng.below(2) for _ in range(8)) for _ in range(24)] + [(1,) * 8, (0,) * 8, (1, 1, 1, 0, 0, 0, 1, 1), (1, 1, 0, 0, 0, 1, 1, 1)]
        for sched in scheds:
            ctx.in_flight = ("version-race", old, new, sched)
            am, per, mu, got, reply, trace, states = SD.run_drop_race(12, old, (0, 1), "CMD SETFORMAT %d" % new, list(sched), yield_ver=True)
            raw = SD.run_drop_race.last_raw
            n += 1
            ok = states[0][0] == "done" and states[1][0] == "done" and len(raw) == 1
            if ok:
                d = raw[0]
                v = d[0] >> 4
                ok = (v == 0 and len(d) == 158 and d[-2:] == b"\0\0") or (v == 1 and len(d) == 159 and not (d[8] & 0x80))
                ok = ok and v in (old, new if new in (0, 1) else old)
            if not ok:
                ctx.oracle_fail("a SETFORMAT racing the forwarding of a burst gives the recipient a datagram that is neither the old nor the new version's well-formed layout",
                                dict(old_version=old, requested=new, schedule=list(sched), trace=trace, thread_states=[list(x) for x in states],
                                     datagrams=[dict(version=x[0] >> 4, length=len(x)) for x in raw]), key="c10-version-race")
                break
    ctx.count("version_race_schedules", n)
    ctx.evaluations += n


def run(ctx):
    gen(ctx)
    ctx.prove()
    if ctx.tier == "thorough":
        ctx.coqchk()
    rng = ctx.rng
    bursts = gen_bursts(ctx.seed)
    # TrainingSeqGMSK.pick against the model on the generator's bursts and on mutated ones
    common.import_toolkit()
    import gsm_shared as G
    cases = [b[0] for b in bursts]
    for _ in range(300 if ctx.tier == "quick" else 20000):
        b = list(rng.choice(bursts)[0])
        for _ in range(rng.below(3)):
            b[rng.below(len(b))] ^= 1
        cases.append(b)
    bt_code = {"NORMAL": 0, "ACCESS": 1, "SYNC": 2}

    def impl_pick(b):
        ts = G.TrainingSeqGMSK.pick(bytearray(b))
        return [0, 0, 0, 0] if ts is None else [1, ts.tsc, bt_code[ts.bt.name], ts.tsc_set]
    ctx.correspond("TrainingSeqGMSK.pick", "Trx", cases, lambda b: "w_trx_tspick " + " ".join(map(str, b)), impl_pick, show=lambda b: b[:70])
    gen_index = {tuple(b[0]): (b[1], b[2], b[3]) for b in bursts}
    n = 100 if ctx.tier == "quick" else 4000
    scripts = [make_script(rng, bursts) for _ in range(n)]
    reals = SC.run_scripts(ctx, "session", scripts)
    for s, r in zip(scripts, reals):
        oracle(ctx, s, r, gen_index)
        W.refused_leaves_no_trace(ctx, s, r, "c10")
    # fan-out: one sender, several recipients (some dropping / muted, mixed header versions): every recipient that is served gets ITS
    # OWN faithful copy with ITS OWN simulated metadata (generator and routing oracle shared with C02)
    from . import C02 as _C02
    fan = [_C02.fanout_script(rng) for _ in range(40 if ctx.tier == "quick" else 1200)]
    freals = SC.run_scripts(ctx, "fanout-session", fan)
    for s, r in zip(fan, freals):
        oracle(ctx, s, r, gen_index)
        _C02.oracle(ctx, s, r)
    ctx.sample([SC.describe(o) for o in scripts[0][1][:12]])
    version_race(ctx)
    ctx.extra["rule"] = ("BTS+MS sessions: SETTA / SETPOWER / FAKE_TOA / FAKE_RSSI / FAKE_CI (bases, thresholds, relative forms) on either side, both header versions, bursts from the real RandBurstGen "
                         "(every training sequence x NB/SB/AB, FB, dummy), random 148/444-bit bursts and adversarial bursts embedding a second sequence, attenuation octets, legacy-padded input; "
                         "distinct_nontrivial = distinct (version, fake RSSI, thresholds active, TA, burst length) and (reported TSC, generator burst type) classes")
