"""C03 - every queued burst is transmitted exactly once, in its own frame.
Models: Model/Trx.v (recv_data, part, tick, power_one) for histories, Model/Race.v for thread schedules; theorems: Props/C03.v.
Tie: sessions on the real Application vs the extracted session model; ALL/sampled schedules of one socket operation racing one tick on
real FakeTRX objects with two real threads (vp/sched_driver.py) vs the extracted race model; reference oracle of exactly-once/on-time."""
import itertools

from .. import common, session_check as SC, session_wire as W, sched_driver as SD

F1, F2 = 935000, 890000
H = W.H


def gen(ctx):
    SC.gen_all(ctx)


def make_script(rng, wrap):
    # BTS (+ children) on one side, MS (+ children) on the other; every transceiver of one side is tuned to the other side
    defs = []
    if rng.chance(1, 3):
        defs.append(("127.0.0.1", 5700, 1))
        if rng.chance(1, 2):
            defs.append(("127.0.0.1", 5700, 2))
        if rng.chance(1, 3):
            defs.append(("127.0.0.1", 6700, 1))
    n = 2 + len(defs)
    side = [0, 1] + [0 if d[1] == 5700 else 1 for d in defs]
    vers = [rng.below(2) for _ in range(n)]
    ops = []
    for i in range(n):
        rx, tx = (F2, F1) if side[i] == 0 else (F1, F2)
        ops += [("ctrl", i, W.cmd("CMD RXTUNE %d" % rx)), ("ctrl", i, W.cmd("CMD TXTUNE %d" % tx)), ("ctrl", i, W.cmd("CMD SETFORMAT %d" % vers[i]))]
    for i in range(n):
        ops.append(("ctrl", i, W.cmd("CMD POWERON")))
    fn = (H - rng.range(2, 6)) if wrap else rng.choice([0, 500, rng.below(H - 200)])
    for _ in range(rng.range(15, 70)):
        w = rng.below(12)
        i = rng.below(n)
        if w == 0:
            ops.append(("ctrl", rng.choice([i, 0, 0]) if defs else i, W.cmd("CMD POWEROFF")))
        elif w == 1:
            ops.append(("ctrl", rng.choice([i, 0]) if defs else i, W.cmd("CMD POWERON")))
        elif w == 2:
            v = rng.choice([0, 1, 0, 1, 0, 1, 2, 7, 15, 16])      # unsupported requests are answered with a suggestion and change nothing
            if v < 2:
                vers[i] = v
            ops.append(("ctrl", i, W.cmd("CMD SETFORMAT %d" % v)))
        elif w < 8:
            ahead = rng.choice([0, 0, 1, 1, 2, 3, 5, -1, -2]) if not wrap else rng.choice([0, 1, 2, 3, 4])
            f = (fn + ahead) % H
            v = vers[i] if rng.chance(9, 10) else 1 - vers[i]
            d = W.tx_datagram(v, f, rng.below(8), rng.choice([0, 7]), W.rand_burst(rng, 148), pad=rng.choice([0, 2]))
            if rng.chance(1, 15):
                d = d[:rng.choice([6, 6, rng.below(len(d))])]      # header only (an idle indication towards version-1 peers) or cut anywhere
            ops.append(("data", i, d))
        else:
            ops.append(("tick", fn))
            fn = (fn + (1 if rng.chance(5, 6) else rng.choice([2, 4]))) % H
        if rng.chance(1, 12):
            ops.append(("ctrl", rng.below(n), W.rejected_cmd(rng)))      # refused / ignored: version, power and queue stay as they are
        if defs and rng.chance(1, 20):
            # POWEROFF addressed to a parent that is itself idle while one of its children runs (powered on through its own control
            # socket) and holds bursts: the children are switched off and their queues cleared all the same
            par = rng.choice(sorted(set(0 if d[1] == 5700 else 1 for d in defs)))
            kids = [2 + k for k, d in enumerate(defs) if (0 if d[1] == 5700 else 1) == par]
            c = rng.choice(kids)
            ops += [("ctrl", par, W.cmd("CMD POWEROFF")), ("ctrl", c, W.cmd("CMD POWERON"))]
            for a in (1, 2, 2):
                ops.append(("data", c, W.tx_datagram(vers[c], (fn + a) % H, rng.below(8), 0, W.rand_burst(rng, 148))))
            if rng.chance(1, 2):
                ops += [("ctrl", par, W.cmd("CMD POWEROFF")), ("ctrl", par, W.cmd("CMD POWERON"))]
            else:
                # ... or the idle parent is powered ON while its child already runs and holds bursts: nothing is lost, they go out in their frames
                ops += [("ctrl", par, W.cmd("CMD POWERON"))]
            ops += [("tick", fn), ("tick", (fn + 1) % H), ("tick", (fn + 2) % H)]
            fn = (fn + 3) % H
    ops.append(("state",))
    return defs, ops


def oracle(ctx, script, real):
    """exactly-once / on-time / stale-only-past / cleared-by-poweroff, from the observations only (any number of transceivers)"""
    defs, ops = script
    cfg, obs, events = real
    n = len(cfg)
    side = [0, 1] + [0 if d[1] == 5700 else 1 for d in defs]
    pend = [[] for _ in range(n)]        # accepted, not yet accounted: (fn, tn, burst length)
    run = [False] * n
    ver = [0] * n                        # negotiated header version of each transceiver's L1 link
    for e in events:
        op = e["op"]
        if op[0] == "ctrl":
            toks = bytes(op[2]).decode().strip("\0").split(" ")
            rsp = bytes(e["obs"][3:]).decode().strip("\0").split(" ") if e["obs"][1] == 1 else None
            i = op[1]
            aff = [i] + (cfg[i]["children"] if cfg[i]["mgt"] and cfg[i]["idx"] == 0 else [])
            if toks[1] == "SETFORMAT" and rsp and len(toks) == 3 and rsp[2] == toks[2] and not toks[2].startswith("-"):
                ver[i] = int(toks[2])
            elif toks[1] == "POWERON" and rsp and rsp[2] == "0":
                for j in aff:
                    run[j] = True
            elif toks[1] == "POWEROFF":
                for j in aff:
                    run[j] = False
                    pend[j] = []        # power-off discards everything still queued - also on the children it switches off
        elif "state" in e and len(e["state"]) >= 3 and bool(e["state"][2]) != any(run[k] and cfg[k]["clock"] for k in range(len(cfg))):
            # a powered-on transceiver transmits its queued bursts only while the shared clock generator runs: it must run as long as
            # ANY clock-owning transceiver is powered on, and only then
            ctx.oracle_fail("the shared clock generator is %s while the powered-on clock owners are %s: queued bursts of a running transceiver would never go out"
                            % ("running" if e["state"][2] else "stopped", [k for k in range(len(cfg)) if run[k] and cfg[k]["clock"]]),
                            dict(trx_defs=defs, ops=[SC.describe(x) for x in ops]), key="c03-clock-follows-power")
            return
        elif op[0] == "data" and len(op[2]) in (6, 154, 156, 450, 452) and e["obs"][:1] == [2] and (e["obs"] == [2, 1]) != (run[op[1]] and (op[2][0] >> 4) == ver[op[1]]):
            # a complete L1 datagram (header only, or header + 148 / 444 bits with or without the two legacy padding octets) is queued iff the transceiver is powered on and the datagram carries the header version in force
            ctx.oracle_fail("a complete burst datagram was %s although the transceiver is %s and the header version in force is %d (datagram: version %d)"
                            % ("queued" if e["obs"] == [2, 1] else "dropped", "on" if run[op[1]] else "off", ver[op[1]], op[2][0] >> 4),
                            dict(trx=op[1], trx_defs=defs, ops=[SC.describe(x) for x in ops]), key="c03-accept-iff-on-and-version")
            if e["obs"] == [2, 1]:
                d = op[2]
                bl = len(d) - 6
                bl = 444 if bl >= 444 else 148
                pend[op[1]].append((d[1] << 24 | d[2] << 16 | d[3] << 8 | d[4], d[0] & 7, bl))
        elif op[0] == "data" and e["obs"] == [2, 1]:
            d = op[2]
            if not run[op[1]]:
                ctx.oracle_fail("a powered-off transceiver accepted a burst from L1 (it must drop it: nothing may wait in the queue across a power cycle)",
                                dict(trx=op[1], trx_defs=defs, ops=[SC.describe(x) for x in ops]), key="c03-idle-accepts")
            bl = len(d) - 6
            bl = 444 if bl >= 444 else (148 if bl >= 148 else bl)
            pend[op[1]].append((d[1] << 24 | d[2] << 16 | d[3] << 8 | d[4], d[0] & 7, bl))
        elif op[0] == "tick":
            fn = op[1]
            if e.get("exc"):
                ctx.oracle_fail("clock tick raised " + e["exc"], dict(trx_defs=defs, ops=[SC.describe(o) for o in ops]), key="c03-tick-raises")
                return
            o = e["obs"]
            k = 3
            for _ in range(o[2]):
                k += 4 + o[k + 3]
            ns = o[k]
            stale = {}
            for q in range(ns):
                stale.setdefault(o[k + 1 + 2 * q], []).append(o[k + 2 + 2 * q])
            emitted = {}
            for src, j, dg, remote in e["log"]:
                emitted.setdefault((src, j), []).append((dg[1] << 24 | dg[2] << 16 | dg[3] << 8 | dg[4], dg[0] & 7))
            dlt = lambda f2: (f2 - fn) % H
            for i in range(n):
                peers = [j for j in range(n) if side[j] != side[i] and run[j]]
                if not run[i]:
                    if any(s2 == i for (s2, _) in emitted) or stale.get(i):
                        ctx.oracle_fail("a powered-off transceiver emitted or reported bursts (bursts queued before a power-off survived it?)",
                                        dict(tick=fn, trx=i, trx_defs=defs, ops=[SC.describe(x) for x in ops]), key="c03-idle-emits")
                    continue
                # bursts of odd length are forwarded too, but the recipient's send_msg() refuses them (C13): nothing visible;
                # a header-only datagram (no burst) is forwarded as an idle indication, which only a version-1 link can carry
                n_due = len([m for m in pend[i] if dlt(m[0]) == 0])
                past = [m[0] for m in pend[i] if dlt(m[0]) >= H // 2]
                for j in peers:
                    due = [m[:2] for m in pend[i] if dlt(m[0]) == 0 and (m[2] in (148, 444) or (m[2] == 0 and ver[j] == 1))]
                    got = emitted.get((i, j), [])
                    if got != due:
                        ctx.oracle_fail("bursts put on the air at a tick differ from the queued bursts of that frame (each exactly once, in order)",
                                        dict(tick=fn, trx=i, peer=j, trx_defs=defs, ops=[SC.describe(x) for x in ops]), key="c03-emit-exact", expected=due, observed=got)
                    if any(dlt(g[0]) != 0 for g in got):
                        ctx.oracle_fail("a burst was emitted in another frame than its own", dict(tick=fn, ops=[SC.describe(x) for x in ops]), key="c03-late-or-early")
                for (s2, j), got in emitted.items():
                    if s2 == i and j not in peers:
                        ctx.oracle_fail("burst delivered to a transceiver that is not a running peer", dict(tick=fn, src=i, dst=j), key="c03-wrong-recipient")
                if sorted(stale.get(i, [])) != sorted(past):
                    ctx.oracle_fail("stale reports differ from the queued bursts whose frame has passed", dict(tick=fn, trx=i, trx_defs=defs, ops=[SC.describe(x) for x in ops]),
                                    key="c03-stale-exact", expected=sorted(past), observed=sorted(stale.get(i, [])))
                for f2 in stale.get(i, []):
                    # across the wrap a burst's frame may be numerically smaller and still ahead of the clock
                    if dlt(f2) < H // 2:
                        ctx.oracle_fail("a burst queued for a frame after the hyperframe wrap is reported stale before the wrap instead of being sent in its frame",
                                        dict(tick=fn, burst_fn=f2, ops=[SC.describe(x) for x in ops][:60]), key="c03-hyperframe-wrap-stale")
                ctx.nontrivial(("tick", n_due, len(past) > 0, len(pend[i]) - n_due - len(past) > 0, fn > H - 8 or fn < 8, cfg[i]["idx"] > 0))
                pend[i] = [m for m in pend[i] if 0 < dlt(m[0]) < H // 2]
    final = events[-1].get("state")
    if final:
        for i in range(n):
            if sorted(final[0][i]["q"]) != sorted(m[0] for m in pend[i]):
                ctx.oracle_fail("bursts still queued at the end differ from the accepted bursts without an outcome (lost, duplicated or surviving a power-off)",
                                dict(trx=i, trx_defs=defs, ops=[SC.describe(x) for x in ops]), key="c03-conservation", expected=sorted(m[0] for m in pend[i]), observed=sorted(final[0][i]["q"]))


def race_cases(ctx):
    rng = ctx.rng
    scen = []
    for op in [("poweroff",), ("arrive", 5, 10), ("arrive", 6, 9), ("arrive", 7, 11), ("poweron",)]:
        for hop in (False, True):
            for q in ([(1, 10)], [(1, 9), (2, 10), (3, 10), (4, 11)], []):
                for running in (True, False):
                    scen.append((10, running, hop, op, q))
    cases = []
    if ctx.tier == "thorough":
        # complete: every distinct interleaving of the two threads over the first 14 scheduling decisions, each ONCE (depth-first over
        # the decisions at which both threads were runnable; a schedule vector that differs only where one thread could not run
        # anyway gives the same interleaving and is not run again)
        for s in scen:
            seen = set()
            stack = [[]]
            while stack:
                prefix = stack.pop()
                sched = prefix + [0] * (14 - len(prefix))
                ctx.in_flight = s + (sched,)
                SD.run_one(*(s + (sched,)))
                ch = list(SD.run_one.last_choices)
                key = tuple(c[0] for c in ch)
                if key in seen:
                    continue
                seen.add(key)
                cases.append(s + (sched,))
                for i in range(len(prefix), len(ch)):
                    if ch[i][1]:
                        stack.append([c[0] for c in ch[:i]] + [1 - ch[i][0]])
            ctx.count("interleavings:%s:%s" % (s[3][0], "hop" if s[2] else "fix"), len(seen))
    else:
        for s in scen:
            for _ in range(24):
                cases.append(s + ([rng.below(2) for _ in range(14)],))
            cases.append(s + ([1, 1, 1, 1, 1, 0, 0, 0, 0, 0, 0, 1],))
    return cases


def run(ctx):
    gen(ctx)
    ctx.prove()
    if ctx.tier == "thorough":
        ctx.coqchk()
    rng = ctx.rng
    n = 120 if ctx.tier == "quick" else 5000
    scripts = [make_script(rng, wrap=(k % 6 == 0)) for k in range(n)]
    # witness of the recorded finding c03-hyperframe-wrap-stale, replayed first on every run
    wit = [("ctrl", 0, W.cmd("CMD RXTUNE %d" % F2)), ("ctrl", 0, W.cmd("CMD TXTUNE %d" % F1)), ("ctrl", 1, W.cmd("CMD RXTUNE %d" % F1)),
           ("ctrl", 1, W.cmd("CMD TXTUNE %d" % F2)), ("ctrl", 0, W.cmd("CMD POWERON")), ("ctrl", 1, W.cmd("CMD POWERON")),
           ("data", 0, W.tx_datagram(0, 1, 2, 0, [0] * 148)), ("tick", H - 2), ("tick", H - 1), ("tick", 0), ("tick", 1), ("state",)]
    scripts.insert(0, ([], wit))
    reals = SC.run_scripts(ctx, "session", scripts)
    for s, r in zip(scripts, reals):
        oracle(ctx, s, r)
        W.refused_leaves_no_trace(ctx, s, r, "c03")
    # one sender, several recipients (own mute flag / drop counter / header version each): the burst due in a frame goes out once to
    # EVERY tuned running recipient in that frame - what the code does for one recipient must not leak into the next one's copy
    # (generator and per-recipient oracle shared with C02 / C18)
    from . import C02 as _C02
    fan = [_C02.fanout_script(rng) for _ in range(40 if ctx.tier == "quick" else 1500)]
    freals = SC.run_scripts(ctx, "fanout-session", fan)
    for s, r in zip(fan, freals):
        _C02.oracle(ctx, s, r)
    # thread schedules on the real objects
    cases = race_cases(ctx)
    obs = {}
    for k, c in enumerate(cases):
        ctx.in_flight = c
        obs[k] = SD.run_one(*c)
    idx = list(range(len(cases)))
    ctx.correspond("schedules", "Race", idx, lambda k: SD.model_line(*cases[k]), lambda k: obs[k][0],
                   show=lambda k: dict(tick=cases[k][0], running=cases[k][1], hopping=cases[k][2], op=cases[k][3], queue=cases[k][4], schedule=cases[k][5], trace=obs[k][1]))
    ctx.exhaustive = ctx.tier == "thorough"
    for k, c in enumerate(cases):
        fn, running, hop, op, q, sched = c
        o, trace, states = obs[k]
        crashed = o[0]
        if states[2]:
            ctx.oracle_fail("the transmit queue is accessed outside its lock (%s)" % states[2][0], dict(tick=fn, op=op, queue=q, schedule=sched, trace=trace), key="c03-queue-unprotected")
        ne = o[3]
        emitted = o[4:4 + ne]
        ns = o[4 + ne]
        stale = o[5 + ne:5 + ne + ns]
        nq = o[5 + ne + ns]
        queue = o[6 + ne + ns:6 + ne + ns + nq]
        cleared, rejected = o[-2], o[-1]
        fn_of = dict(q)
        if op[0] == "arrive":
            fn_of[op[1]] = op[2]
        ctx.nontrivial(("race", op[0], hop, running, len(q), crashed, ne, ns, nq, cleared))
        if crashed:
            ctx.oracle_fail("the clock thread died (%s) when POWEROFF raced a tick of a hopping transceiver" % (states[0][1],),
                            dict(tick=fn, hopping=hop, op=op, queue=q, schedule=sched, trace=trace),
                            key="c03-fh-race" if (hop and op[0] == "poweroff" and states[0][1] == "AttributeError") else "c03-clock-thread-dies")   # c03-fh-race: repaired in /repo, reported again if it returns
            continue
        accepted = len(q) + (1 if op[0] == "arrive" and not rejected else 0)
        if len(emitted) + len(stale) + len(queue) + cleared != accepted or len(set(emitted + stale + queue)) != len(emitted + stale + queue):
            ctx.oracle_fail("a burst was lost or duplicated under this thread schedule", dict(tick=fn, hopping=hop, op=op, queue=q, schedule=sched, trace=trace),
                            key="c03-schedule-conservation")
        if any((fn_of.get(i, fn) - fn) % H != 0 for i in emitted) or any((fn_of.get(i, fn) - fn) % H < H // 2 for i in stale):
            ctx.oracle_fail("a burst was emitted outside its frame / a non-past burst reported stale under this schedule",
                            dict(tick=fn, op=op, queue=q, schedule=sched, trace=trace), key="c03-schedule-on-time")
    ctx.sample(dict(schedule_case=dict(tick=cases[0][0], op=cases[0][3], queue=cases[0][4], schedule=cases[0][5]), trace=obs[0][1]))
    ctx.count("schedules", len(cases))
    ctx.extra["rule"] = ("(1) BTS+MS sessions: arrivals (frame numbers -2..+5 around the clock, wrong versions, truncated), ticks with gaps, POWERON/POWEROFF/SETFORMAT, every sixth session across the hyperframe wrap; "
                         "(2) one arrival (same / past / future frame) or POWEROFF or POWERON racing one tick on a transceiver with 0/1/4 queued bursts, fixed tuning or hopping, running or not: "
                         "thorough = every distinct interleaving of the two threads over the first 14 scheduling decisions per scenario, each once (depth-first over the decisions at which both threads were runnable: complete, the threads have at most 14 steps in total), quick = 25 schedule vectors per scenario; "
                         "distinct_nontrivial = distinct outcome classes")
