"""C03 - every queued burst is transmitted exactly once, in its own frame.
Models: Model/Trx.v (recv_data, part, tick, power_one) for histories, Model/Race.v for thread schedules; theorems: Props/C03.v.
Tie: sessions on the real Application vs the extracted session model; ALL/sampled schedules of one socket operation racing one tick on
real FakeTRX objects with two real threads (vp/sched_driver.py) vs the extracted race model; reference oracle of exactly-once/on-time."""
import itertools

from .. import common, session_check as SC, session_wire as W, sched_driver as SD

F1, F2 = 935000, 890000
H = W.H


def gen(ctx):
    SC.gen_all(ctx)


def make_script(rng, wrap):
    vers = [rng.below(2), rng.below(2)]
    ops = [("ctrl", 0, W.cmd("CMD RXTUNE %d" % F2)), ("ctrl", 0, W.cmd("CMD TXTUNE %d" % F1)),
           ("ctrl", 1, W.cmd("CMD RXTUNE %d" % F1)), ("ctrl", 1, W.cmd("CMD TXTUNE %d" % F2))]
    for i in (0, 1):
        ops.append(("ctrl", i, W.cmd("CMD SETFORMAT %d" % vers[i])))
        ops.append(("ctrl", i, W.cmd("CMD POWERON")))
    fn = (H - rng.range(2, 6)) if wrap else rng.choice([0, 500, rng.below(H - 200)])
    for _ in range(rng.range(15, 70)):
        w = rng.below(12)
        i = rng.below(2)
        if w == 0:
            ops.append(("ctrl", i, W.cmd("CMD POWEROFF")))
        elif w == 1:
            ops.append(("ctrl", i, W.cmd("CMD POWERON")))
        elif w == 2:
            vers[i] = rng.below(2)
            ops.append(("ctrl", i, W.cmd("CMD SETFORMAT %d" % vers[i])))
        elif w < 8:
            ahead = rng.choice([0, 0, 1, 1, 2, 3, 5, -1, -2]) if not wrap else rng.choice([0, 1, 2, 3, 4])
            f = (fn + ahead) % H if wrap else max(0, fn + ahead)
            v = vers[i] if rng.chance(9, 10) else 1 - vers[i]
            d = W.tx_datagram(v, f, rng.below(8), rng.choice([0, 7]), W.rand_burst(rng, 148), pad=rng.choice([0, 2]))
            if rng.chance(1, 15):
                d = d[:rng.below(len(d))]
            ops.append(("data", i, d))
        else:
            ops.append(("tick", fn))
            fn = (fn + (1 if rng.chance(5, 6) else rng.choice([2, 4]))) % H
    ops.append(("state",))
    return [], ops


def oracle(ctx, script, real):
    """exactly-once / on-time / stale-only-past / cleared-by-poweroff, from the observations only"""
    defs, ops = script
    cfg, obs, events = real
    pend = [[], []]        # accepted, not yet accounted: (fn, datagram head)
    run = [False, False]
    for e in events:
        op = e["op"]
        if op[0] == "ctrl":
            toks = bytes(op[2]).decode().strip("\0").split(" ")
            rsp = bytes(e["obs"][3:]).decode().strip("\0").split(" ") if e["obs"][1] == 1 else None
            if toks[1] == "POWERON" and rsp and rsp[2] == "0":
                run[op[1]] = True
            elif toks[1] == "POWEROFF":
                run[op[1]] = False
                pend[op[1]] = []
        elif op[0] == "data" and e["obs"] == [2, 1]:
            d = op[2]
            bl = len(d) - 6
            bl = 444 if bl >= 444 else (148 if bl >= 148 else bl)
            pend[op[1]].append((d[1] << 24 | d[2] << 16 | d[3] << 8 | d[4], d[0] & 7, bl))
        elif op[0] == "tick":
            fn = op[1]
            if e.get("exc"):
                ctx.oracle_fail("clock tick raised " + e["exc"], dict(ops=[SC.describe(o) for o in ops]), key="c03-tick-raises")
                return
            emitted = {}
            for src, j, dg, remote in e["log"]:
                emitted.setdefault(src, []).append((dg[1] << 24 | dg[2] << 16 | dg[3] << 8 | dg[4], dg[0] & 7))
            stale = {}
            for msg in e["stale"]:
                import re
                m = re.match(r"\((.*?)\) Stale TRXD message \(fn=(\d+)\): (.*)$", msg)
                i = 0 if m.group(1).startswith("BTS") else 1
                f2 = int(re.search(r"fn=(\d+)", m.group(3)).group(1))
                stale.setdefault(i, []).append(f2)
            for i in (0, 1):
                if not run[i]:
                    if emitted.get(i) or stale.get(i):
                        ctx.oracle_fail("a powered-off transceiver emitted or reported bursts", dict(ops=[SC.describe(o) for o in ops]), key="c03-idle-emits")
                    continue
                # bursts of odd length are forwarded too, but the recipient's send_msg() refuses them (C13): nothing visible
                due = [m[:2] for m in pend[i] if m[0] == fn and m[2] in (148, 444)]
                n_due = len([m for m in pend[i] if m[0] == fn])
                past = [m[0] for m in pend[i] if m[0] < fn]
                peer_up = run[1 - i]
                got = emitted.get(i, [])
                if peer_up and got != due:
                    ctx.oracle_fail("bursts put on the air at a tick differ from the queued bursts of that frame (each exactly once, in order)",
                                    dict(tick=fn, trx=i, ops=[SC.describe(o) for o in ops]), key="c03-emit-exact", expected=due, observed=got)
                if any(g[0] != fn for g in got):
                    ctx.oracle_fail("a burst was emitted in another frame than its own", dict(tick=fn, ops=[SC.describe(o) for o in ops]), key="c03-late-or-early")
                if sorted(stale.get(i, [])) != sorted(past):
                    ctx.oracle_fail("stale reports differ from the queued bursts whose frame has passed", dict(tick=fn, trx=i, ops=[SC.describe(o) for o in ops]),
                                    key="c03-stale-exact", expected=sorted(past), observed=sorted(stale.get(i, [])))
                for f2 in past:
                    # the frame "has passed" only in the numeric sense: across the wrap the burst's frame is still ahead
                    if (f2 - fn) % H < H // 2:
                        ctx.oracle_fail("a burst queued for a frame after the hyperframe wrap is reported stale before the wrap instead of being sent in its frame",
                                        dict(tick=fn, burst_fn=f2, ops=[SC.describe(o) for o in ops][:60]), key="c03-hyperframe-wrap-stale")
                ctx.nontrivial(("tick", n_due, len(past) > 0, len(pend[i]) - n_due - len(past) > 0, fn > H - 8 or fn < 8))
                pend[i] = [m for m in pend[i] if m[0] > fn]
    final = events[-1].get("state")
    if final:
        for i in (0, 1):
            if sorted(final[0][i]["q"]) != sorted(m[0] for m in pend[i]):
                ctx.oracle_fail("bursts still queued at the end differ from the accepted bursts without an outcome (lost or duplicated burst)",
                                dict(trx=i, ops=[SC.describe(o) for o in ops]), key="c03-conservation", expected=sorted(m[0] for m in pend[i]), observed=sorted(final[0][i]["q"]))


def race_cases(ctx):
    rng = ctx.rng
    scen = []
    for op in [("poweroff",), ("arrive", 5, 10), ("arrive", 6, 9), ("arrive", 7, 11), ("poweron",)]:
        for hop in (False, True):
            for q in ([(1, 10)], [(1, 9), (2, 10), (3, 10), (4, 11)], []):
                for running in (True, False):
                    scen.append((10, running, hop, op, q))
    cases = []
    if ctx.tier == "thorough":
        for s in scen:
            for bits in itertools.product((0, 1), repeat=14):
                cases.append(s + (list(bits),))
    else:
        for s in scen:
            for _ in range(24):
                cases.append(s + ([rng.below(2) for _ in range(14)],))
            cases.append(s + ([1, 1, 1, 1, 1, 0, 0, 0, 0, 0, 0, 1],))
    return cases


def run(ctx):
    gen(ctx)
    ctx.prove()
    if ctx.tier == "thorough":
        ctx.coqchk()
    rng = ctx.rng
    n = 120 if ctx.tier == "quick" else 5000
    scripts = [make_script(rng, wrap=(k % 6 == 0)) for k in range(n)]
    # witness of the recorded finding c03-hyperframe-wrap-stale, replayed first on every run
    wit = [("ctrl", 0, W.cmd("CMD RXTUNE %d" % F2)), ("ctrl", 0, W.cmd("CMD TXTUNE %d" % F1)), ("ctrl", 1, W.cmd("CMD RXTUNE %d" % F1)),
           ("ctrl", 1, W.cmd("CMD TXTUNE %d" % F2)), ("ctrl", 0, W.cmd("CMD POWERON")), ("ctrl", 1, W.cmd("CMD POWERON")),
           ("data", 0, W.tx_datagram(0, 1, 2, 0, [0] * 148)), ("tick", H - 2), ("tick", H - 1), ("tick", 0), ("tick", 1), ("state",)]
    scripts.insert(0, ([], wit))
    reals = SC.run_scripts(ctx, "session", scripts)
    for s, r in zip(scripts, reals):
        oracle(ctx, s, r)
    # thread schedules on the real objects
    cases = race_cases(ctx)
    obs = {}
    for k, c in enumerate(cases):
        ctx.in_flight = c
        obs[k] = SD.run_one(*c)
    idx = list(range(len(cases)))
    ctx.correspond("schedules", "Race", idx, lambda k: SD.model_line(*cases[k]), lambda k: obs[k][0],
                   show=lambda k: dict(tick=cases[k][0], running=cases[k][1], hopping=cases[k][2], op=cases[k][3], queue=cases[k][4], schedule=cases[k][5], trace=obs[k][1]))
    ctx.exhaustive = ctx.tier == "thorough"
    for k, c in enumerate(cases):
        fn, running, hop, op, q, sched = c
        o, trace, states = obs[k]
        crashed = o[0]
        if states[2]:
            ctx.oracle_fail("the transmit queue is accessed outside its lock (%s)" % states[2][0], dict(tick=fn, op=op, queue=q, schedule=sched, trace=trace), key="c03-queue-unprotected")
        ne = o[3]
        emitted = o[4:4 + ne]
        ns = o[4 + ne]
        stale = o[5 + ne:5 + ne + ns]
        nq = o[5 + ne + ns]
        queue = o[6 + ne + ns:6 + ne + ns + nq]
        cleared, rejected = o[-2], o[-1]
        fn_of = dict(q)
        if op[0] == "arrive":
            fn_of[op[1]] = op[2]
        ctx.nontrivial(("race", op[0], hop, running, len(q), crashed, ne, ns, nq, cleared))
        if crashed:
            ctx.oracle_fail("the clock thread died (%s) when POWEROFF raced a tick of a hopping transceiver" % (states[0][1],),
                            dict(tick=fn, hopping=hop, op=op, queue=q, schedule=sched, trace=trace),
                            key="c03-fh-race" if (hop and op[0] == "poweroff" and states[0][1] == "AttributeError") else "c03-clock-thread-dies")
            continue
        accepted = len(q) + (1 if op[0] == "arrive" and not rejected else 0)
        if len(emitted) + len(stale) + len(queue) + cleared != accepted or len(set(emitted + stale + queue)) != len(emitted + stale + queue):
            ctx.oracle_fail("a burst was lost or duplicated under this thread schedule", dict(tick=fn, hopping=hop, op=op, queue=q, schedule=sched, trace=trace),
                            key="c03-schedule-conservation")
        if any(fn_of.get(i) != fn for i in emitted) or any(not fn_of.get(i, fn) < fn for i in stale):
            ctx.oracle_fail("a burst was emitted outside its frame / a non-past burst reported stale under this schedule",
                            dict(tick=fn, op=op, queue=q, schedule=sched, trace=trace), key="c03-schedule-on-time")
    ctx.sample(dict(schedule_case=dict(tick=cases[0][0], op=cases[0][3], queue=cases[0][4], schedule=cases[0][5]), trace=obs[0][1]))
    ctx.count("schedules", len(cases))
    ctx.extra["rule"] = ("(1) BTS+MS sessions: arrivals (frame numbers -2..+5 around the clock, wrong versions, truncated), ticks with gaps, POWERON/POWEROFF/SETFORMAT, every sixth session across the hyperframe wrap; "
                         "(2) one arrival (same / past / future frame) or POWEROFF or POWERON racing one tick on a transceiver with 0/1/4 queued bursts, fixed tuning or hopping, running or not: "
                         "thorough = all 16384 schedule prefixes of length 14 per scenario (complete: the two threads have at most 14 steps in total), quick = 25 per scenario; "
                         "distinct_nontrivial = distinct outcome classes")
