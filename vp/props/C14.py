"""C14 - no datagram or capture content can crash the tools.
Models: Model/Trxd.v (parse with checked indexing), Model/Trx.v (sessions), Model/Dump.v, Model/TrxIf.v (trx_if.c with explicit
buffer extents / NULL / initialisedness); theorems: Props/C14.v.
Tie: malformed streams injected at random points of valid sessions on the real Application vs the extracted model; hostile octets on
both sockets, hostile capture files; the real trx_if.c callbacks under ASan/UBSan (+ MSan when clang is present)."""
import io
import logging

from .. import common, session_check as SC, session_wire as W, trxif_util as TI
from .. import trxd_util as U
from ..session import Session


def gen(ctx):
    SC.gen_all(ctx)
    TI.gen_trxif(ctx)


INVALID_UTF8 = [b"\xff", b"\x80", b"\xc3", b"\xe2\x82", b"\xf0\x9f", b"\xc0\xaf", b"\xed\xa0\x80"]


def hostile_ctrl(rng):
    k = rng.below(10)
    if k == 8:
        # every truncation of a valid command, in particular the signature alone and the signature followed by blanks / NULs
        d = W.rand_cmd(rng, True)
        return d[:rng.choice([0, 1, 2, 3, 4, 5, rng.below(len(d) + 1)])]
    if k == 9:
        return list(rng.choice([b"CMD", b"CMD ", b"CMD\0", b"CMD \0", b"CMD \0\0", b"CMD  ", b"CMD   \0", b"CMDX", b"CMD\0\0\0\0", b"CMD \t\0", b"CMD \n",
                                b"CMD  POWERON\0", b"CMD POWERON \0", b"CMD RXTUNE  935000\0", b"CMD\tPOWERON\0", b" CMD POWERON\0", b"RSP POWERON 0\0", b""]))
    if k == 0:
        return list(rng.bytes(rng.below(40)))                          # random octets (mostly invalid UTF-8 -> filtered below)
    if k == 1:
        d = bytearray(W.rand_cmd(rng, True))
        d.insert(rng.below(len(d) + 1), rng.choice(INVALID_UTF8)[0])
        return list(d)
    if k == 2:
        return list(b"CMD " + rng.choice([b"RXTUNE", b"SETFH", b"FAKE_TOA", b"SETFORMAT", b"MEASURE"]) + b" " + rng.choice(INVALID_UTF8) + b"\0")
    return W.rand_cmd(rng, False)


def is_ascii(d):
    return all(c < 128 for c in d)


def valid_utf8(d):
    try:
        bytes(d).decode()
        return True
    except UnicodeDecodeError:
        return False


def make_script(rng):
    defs, ops = W.rand_session(rng, rng.range(30, 80), malformed=5, traffic=3, cfgcmds=3)
    out = []
    for op in ops:
        out.append(op)
        if rng.chance(1, 6):
            d = hostile_ctrl(rng)
            # the model covers ASCII datagrams and datagrams that are not valid UTF-8 (ignored); valid non-ASCII text is exercised separately
            if is_ascii(d) or not valid_utf8(d):
                out.append(("ctrl", rng.below(2 + len(defs)), d))
        if rng.chance(1, 10):
            # a well-formed command with ONE argument too many (e.g. the body of a reflected response): not that command - no effect
            out.append(("ctrl", rng.below(2 + len(defs)), W.cmd(rng.choice(SURPLUS_CMDS))))
        if rng.chance(1, 8):
            out.append(("data", rng.below(2 + len(defs)), list(rng.bytes(rng.choice([0, 1, 4, 5, 6, 7, 8, 10, 11, 150, 154, 156, 158, 600])))))
    return defs, out


SURPLUS_CMDS = ["CMD POWEROFF 0", "CMD POWERON 0", "CMD RXTUNE 0 941600", "CMD TXTUNE 0 896600", "CMD RFMUTE 1 1", "CMD SETFORMAT 1 1", "CMD SETTA 5 5",
                "CMD SETPOWER 10 1", "CMD NOMTXPOWER 1", "CMD FAKE_DROP 5 1 1", "CMD FAKE_RSSI -60 5 5", "CMD MEASURE 0 935000"]
BOUNDARY_CMDS = ["CMD FAKE_DROP 3 0", "CMD FAKE_DROP 0 0", "CMD FAKE_DROP 2 -1", "CMD FAKE_DROP -1", "CMD FAKE_DROP 1 1", "CMD FAKE_DROP 9999999999 1",
                 "CMD FAKE_TOA 10 -1", "CMD FAKE_TOA 10 0", "CMD FAKE_TOA -99999 99999", "CMD FAKE_CI 10 -1", "CMD FAKE_CI 99999 0", "CMD FAKE_RSSI -200 0", "CMD FAKE_RSSI -60 -1",
                 "CMD SETTA 64", "CMD SETTA -1", "CMD SETTA 0", "CMD SETPOWER -5", "CMD SETPOWER 1000", "CMD RFMUTE 2", "CMD RFMUTE -1", "CMD SETFORMAT 15", "CMD SETFORMAT 16",
                 "CMD SETFH 64 0 935000 890000", "CMD SETFH 0 64 935000 890000", "CMD SETFH 0 0 935000 890000", "CMD SETFH 1 1 0 0", "CMD SETFH 63 63 -1 -1 935000 890000",
                 "CMD RXTUNE 0", "CMD TXTUNE -1", "CMD RXTUNE 99999999999", "CMD MEASURE -1", "CMD MEASURE 0", "CMD NOMTXPOWER", "CMD FAKE_TRXC_DELAY -1", "CMD FAKE_TRXC_DELAY 0",
                 "CMD FAKE_TRXC_DELAY 9223372036855", "CMD FAKE_TRXC_DELAY 1" + "0" * 400, "CMD SETPOWER 1" + "0" * 400, "CMD FAKE_TOA 1" + "0" * 400 + " 0", "CMD SETTA 1" + "0" * 30]


def boundary_script(rng):
    """BTS and MS tuned to each other and powered on; after EVERY boundary / degenerate command (accepted or not) bursts flow in both
    directions and the clock ticks: a value that was wrongly accepted shows as an exception in the tick or as a dead link"""
    F1, F2 = W.FREQS[0], W.FREQS[2]
    ops = [("ctrl", 0, W.cmd("CMD RXTUNE %d" % F2)), ("ctrl", 0, W.cmd("CMD TXTUNE %d" % F1)), ("ctrl", 1, W.cmd("CMD RXTUNE %d" % F1)), ("ctrl", 1, W.cmd("CMD TXTUNE %d" % F2)),
           ("ctrl", 0, W.cmd("CMD SETFORMAT %d" % rng.below(2))), ("ctrl", 1, W.cmd("CMD SETFORMAT 1")), ("ctrl", 0, W.cmd("CMD POWERON")), ("ctrl", 1, W.cmd("CMD POWERON")),
           ("draws", [rng.below(1 << 20) for _ in range(400)])]
    vers = [0, 1]
    fn = rng.choice([0, 3, W.H - 20, rng.below(W.H)])
    for _ in range(rng.range(8, 16)):
        i = rng.below(2)
        ops.append(("ctrl", i, W.cmd(rng.choice(BOUNDARY_CMDS))))
        for _ in range(2):
            for j in (0, 1):
                # both versions: the one in force is queued, the other is dropped - either way nothing may raise
                ops.append(("data", j, W.tx_datagram(rng.below(2), fn, rng.below(8), rng.choice([0, 10]), W.rand_burst(rng, rng.choice([148, 444])))))
                ops.append(("data", j, W.tx_datagram(1 - rng.below(2), fn, rng.below(8), 0, W.rand_burst(rng, 148))))
            ops.append(("tick", fn))
            fn = (fn + 1) % W.H
        if rng.chance(1, 4):
            ops.append(("ctrl", i, W.cmd("CMD POWEROFF"))); ops.append(("ctrl", i, W.cmd("CMD RXTUNE %d" % (F2 if i == 0 else F1)))); ops.append(("ctrl", i, W.cmd("CMD POWERON")))
    ops.append(("state",))
    return [], ops


def oracle(ctx, script, real):
    defs, ops = script
    cfg, obs, events = real
    prev_state = None
    for k, e in enumerate(events):
        op = e["op"]
        if e.get("exc"):
            kind = "ctrl" if op[0] == "ctrl" else ("data" if op[0] == "data" else "tick")
            ctx.oracle_fail("%s escaped from %s" % (e["exc"], {"ctrl": "ctrl_if.handle_rx()", "data": "recv_data_msg()", "tick": "the clock tick (clck_handler)"}[kind]),
                            dict(op=SC.describe(op), trx_defs=defs, ops=[SC.describe(o) for o in ops][:k + 1][-40:]),
                            key="c14-py-%s-raises:%s" % (kind, e["exc"]))
            return
        if op[0] == "ctrl":
            o = e["obs"]
            text = bytes(op[2])
            ctx.nontrivial(("ctrl", o[1], text[:3] == b"CMD", is_ascii(op[2]), len(text) > 128))
            if o[1] == 1:
                reply = bytes(o[3:])
                if not reply.startswith(b"RSP ") or not reply.endswith(b"\0"):
                    ctx.oracle_fail("malformed reply to a hostile control datagram", dict(op=SC.describe(op), reply=list(reply)), key="c14-py-reply-shape")
                try:
                    text.decode("utf-8")
                    is_text = True
                except UnicodeDecodeError:
                    is_text = False
                if not is_text:
                    # "non-text control commands are answered with an error status or ignored": octets that are not text at all must
                    # never be repaired into some other command that is then executed and answered as a success
                    rt = reply.decode("latin-1").strip("\0").split(" ")
                    try:
                        status = int(rt[2]) if len(rt) > 2 else None
                    except ValueError:
                        status = None
                    if status is None or status >= 0:
                        ctx.oracle_fail("a control datagram that is not text (invalid UTF-8) was executed and answered as a success instead of being ignored / refused",
                                        dict(datagram=list(text), reply=reply.decode("latin-1")), key="c14-py-non-text-executed")
                        return
        elif op[0] == "data":
            ctx.nontrivial(("data", e["obs"][1], len(op[2]) < 6, (op[2][0] >> 4) if op[2] else -1))


def text_robustness(ctx, rng):
    """valid UTF-8 but non-ASCII control datagrams (outside the model): nothing escapes and the transceiver keeps answering"""
    s = Session()
    n = 300 if ctx.tier == "quick" else 20000
    extra = ["é", "١٢", "٣", " ", " ", "１２３", "५", "\x1c", "\x85", "ß", "𝟙", "﻿"]
    try:
        for _ in range(n):
            verb = rng.choice(W.VERBS)
            toks = [verb] + [rng.choice(extra + ["5", "-1", "", "1_0"]) for _ in range(rng.below(4))]
            if rng.chance(1, 4):
                toks[0] = toks[0] + rng.choice(extra)
            d = ("CMD " + " ".join(toks) + "\0").encode("utf-8")
            o, exc = s.ctrl(rng.below(2), list(d))
            ctx.evaluations += 1
            if exc:
                ctx.oracle_fail("%s escaped from ctrl_if.handle_rx() on non-ASCII text" % exc, dict(datagram=list(d), text=d.decode()), key="c14-py-ctrl-raises:" + exc)
                return
            if o[1] != 1:
                ctx.oracle_fail("a CMD datagram in valid UTF-8 got no reply", dict(text=d.decode()), key="c14-py-no-reply")
        o, exc = s.ctrl(0, W.cmd("CMD NOMTXPOWER"))
        if exc or bytes(o[3:]) != b"RSP NOMTXPOWER 0 50\0":
            ctx.oracle_fail("transceiver stopped answering correctly after hostile text", dict(reply=o), key="c14-py-not-serving")
        for t in s.trxs:    # whatever was stored must not break the data path either
            t.running = True
        log, stale, exc = s.tick(5)
        if exc:
            ctx.oracle_fail("clock tick raised %s after hostile text commands" % exc, dict(state=s.state()[0]), key="c14-py-tick-raises:" + exc)
    finally:
        s.close()


def capture_robustness(ctx, rng):
    common.import_toolkit()
    import data_dump
    logging.disable(logging.CRITICAL)
    n = 400 if ctx.tier == "quick" else 20000
    try:
        for _ in range(n):
            msgs = [U.rand_tx(rng) if rng.chance(1, 2) else U.rand_rx(rng) for _ in range(rng.below(4))]
            f = io.BytesIO()
            dd = data_dump.DATADumpFile(f)
            for m in msgs:
                dd.append_msg(U.real(m))
            raw = bytearray(f.getvalue())
            for _ in range(rng.below(6)):
                how = rng.below(4)
                if how == 0 and raw:
                    raw[rng.below(len(raw))] = rng.below(256)
                elif how == 1:
                    raw = raw[:rng.below(len(raw) + 1)]
                elif how == 2:
                    p = rng.below(len(raw) + 1)
                    raw[p:p] = rng.bytes(rng.below(8))
                else:
                    raw += rng.bytes(rng.below(10))
            dd2 = data_dump.DATADumpFile(io.BytesIO(bytes(raw)))
            ctx.evaluations += 1
            try:
                dd2.parse_all()
                dd2.parse_all(skip=rng.below(4), count=rng.choice([None, 1, 2]))
                dd2.parse_msg(rng.below(5))
            except Exception as e:  # noqa
                ctx.oracle_fail("%s escaped from DATADumpFile on a damaged capture" % type(e).__name__, dict(file=list(raw)[:400], n=len(raw)), key="c14-py-dump-raises:" + type(e).__name__)
                return
            dd.f = io.BytesIO()
            dd2.f = io.BytesIO()
    finally:
        logging.disable(logging.NOTSET)


def c_side(ctx, rng):
    # TRXD: hostile datagrams into the real trx_data_rx_cb
    dg = []
    for _ in range(300 if ctx.tier == "quick" else 20000):
        k = rng.below(5)
        if k == 0:
            dg.append(list(rng.bytes(rng.choice([0, 1, 7, 8, 9, 155, 156, 157, 158, 159, 452, 454, 511, 512, 513, 700]))))
        else:
            m = U.rand_rx(rng)
            o = U.do_gen(m, rng.chance(1, 2))
            d = o[1:] if o[0] == 0 else [0] * 156
            how = rng.below(4)
            if how == 0:
                d = d[:rng.below(len(d) + 1)]
            elif how == 1 and d:
                d[rng.below(min(8, len(d)))] = rng.below(256)
            elif how == 2:
                d = d + list(rng.bytes(rng.below(400)))
            dg.append(d)
    # every accepted length of both layouts (header + 148 / 444 soft bits, with and without the two legacy padding octets) and their neighbours
    for n_ in (155, 156, 157, 158, 159, 451, 452, 453, 454, 455):
        for _ in range(3):
            d = list(rng.bytes(n_))
            d[0] = rng.below(8)                                    # version 0, any timeslot
            d[1:5] = list((rng.below(2715648)).to_bytes(4, "big"))
            dg.append(d)
    cobs = TI.c_data_rx(dg)
    for d, o in zip(dg, cobs):
        ctx.evaluations += 1
        ctx.nontrivial(("c-trxd", o.get("rc"), bool(o.get("called")), len(d) < 8, len(d) if len(d) in (156, 158, 452, 454) else 0))
        if o.get("crash"):
            ctx.oracle_fail("trx_data_rx_cb stopped by a sanitizer / signal", dict(datagram=d[:40], n=len(d), sanitizer=str(o["crash"])[:600]), key="c14-c-trxd-crash")
        elif o.get("called") and len(o.get("burst") or []) not in (148, 444):
            # what is handed to the scheduler must fit its 444-entry burst array (trxcon asserts on anything longer and aborts)
            ctx.oracle_fail("trx_data_rx_cb hands a burst of %d soft bits to the scheduler (its burst array holds 444; 148 / 444 are the only burst lengths)" % len(o["burst"]),
                            dict(datagram=d[:12], n=len(d)), key="c14-c-trxd-burst-length", expected=[148, 444], observed=len(o["burst"]))
    ctx.correspond("trx_data_rx_cb", "TrxIf", list(range(len(dg))), lambda j: TI.m_rx_line(dg[j]), lambda j: TI.rx_wire(cobs[j]),
                   show=lambda j: dict(n=len(dg[j]), head=dg[j][:8]))
    # TRXC: generated + malformed replies with and without a pending command
    for key, wit in TI.ctrl_malformed_campaign(ctx, 400 if ctx.tier == "quick" else 20000, use_msan=(ctx.tier == "thorough")):
        ctx.oracle_fail("trx_ctrl_read_cb: " + key, wit, key=key)


def run(ctx):
    gen(ctx)
    ctx.prove()
    if ctx.tier == "thorough":
        ctx.coqchk()
    rng = ctx.rng
    n = 100 if ctx.tier == "quick" else 4000
    scripts = [make_script(rng) for _ in range(n)] + [boundary_script(rng) for _ in range(25 if ctx.tier == "quick" else 600)]
    reals = SC.run_scripts(ctx, "session", scripts)
    for s, r in zip(scripts, reals):
        oracle(ctx, s, r)
        W.refused_leaves_no_trace(ctx, s, r, "c14")
    # the message parser on arbitrary octets: only ValueError (compared with the model too)
    cases = []
    for _ in range(1500 if ctx.tier == "quick" else 100000):
        kind = "tx" if rng.chance(1, 2) else "rx"
        cases.append((kind, list(rng.bytes(rng.choice([0, 1, 4, 5, 6, 7, 8, 9, 10, 11, 12, 20, 154, 156, 159, 161, 300, 455, 460])))))
    pobs = [U.do_parse(k, d) for k, d in cases]
    U.reuse_check(ctx, cases, pobs, "c14-parse-history")
    ctx.correspond("parse_msg(hostile)", "Trxd", list(range(len(cases))),
                   lambda j: "%s %s" % ("w_trxd_tx_parse" if cases[j][0] == "tx" else "w_trxd_rx_parse", " ".join(map(str, cases[j][1]))),
                   lambda j: pobs[j], show=lambda j: dict(kind=cases[j][0], octets=cases[j][1][:16], n=len(cases[j][1])))
    for (k, d), o in zip(cases, pobs):
        if o == [2]:
            ctx.oracle_fail("parse_msg raised something other than ValueError", dict(kind=k, octets=d), key="c14-py-parse-not-valueerror")
    text_robustness(ctx, rng)
    capture_robustness(ctx, rng)
    c_side(ctx, rng)
    ctx.sample([SC.describe(o) for o in scripts[0][1][:14]])
    ctx.extra["rule"] = ("valid sessions with malformed control datagrams (truncated, no NUL, wrong prefix, non-numeric / huge / negative / underscore / whitespace arguments, invalid UTF-8) and "
                         "hostile data datagrams (random octets, truncated, wrong version, over-long) injected at random points; valid non-ASCII text; damaged capture files; "
                         "random octets into parse_msg; hostile TRXD datagrams and TRXC replies into the real trx_if.c under ASan/UBSan (MSan in thorough); "
                         "distinct_nontrivial = distinct (socket, outcome, prefix/ascii/length class) situations")
