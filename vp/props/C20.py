"""C20 - Mobile Allocation decoding (gsm48_decode_mobile_alloc, layer23 sysinfo.c).
Model: Model/MobAlloc.v; theorems: Props/C20.v.
Tie: Gen/MobAllocConst.v (FREQ_TYPE_SERV/HOPP, freq[]/hopping[] bounds from sysinfo.h, EINVAL, sizeof(struct gsm_sysinfo_freq),
the bound of the function's local array f - all as compiled) + correspondence of the extracted model with the textually
extracted real function, compiled with ASan + UBSan (vla-bound on), one forked child per input so that a sanitizer abort is
attributed to its input.  The former defect (len = 0: zero-length VLA + stack overflow, fixed in /repo 1f7898e) stays in the
oracle under its key: a sanitizer report or a wrong result at len = 0 is reported as c20-len0-vla-overflow.

The callers (Model/MobAllocSi4.v, Proofs/MobAllocSi4P.v): the tail of gsm48_decode_sysinfo4 (CBCH Channel Description / CBCH Mobile
Allocation IEs of SI4) and the mobile-allocation branch of gsm48_rr_render_ma.  Tie: Gen/MobAllocSi4Const.v (EIO, the two IE tags,
sizeof of the SI4 header and of struct gsm48_chan_desc, sizeof(mob_alloc_lv), the RR cause - as compiled by charness/c20_si4.c) +
correspondence of w_c20_si4 / w_c20_render with the verbatim texts of gsm48_decode_sysinfo4 (+ helpers) and gsm48_rr_render_ma; the
SI4 message is an exact-size heap block, so a read of one octet behind the message is an ASan report attributed to its input.
The SI4 / SI1 history (Model/MobAllocHist.v, Proofs/MobAllocHistP.v): gsm48_decode_sysinfo4 stores the message in si4_msg[23] and skips the
CBCH Mobile Allocation until SI1; gsm48_decode_sysinfo1 sets si1 and re-decodes the stored buffer.  Tie: w_c20_hist against the verbatim
gsm48_decode_sysinfo1 + gsm48_decode_sysinfo4 on one struct gsm48_sysinfo (mode "hist" of charness/c20_si4.c; decode_freq_list stubbed:
installs the given cell allocation; the member behind si4_msg poisoned), histories [SI1, A], [A, SI1], [SI1, A, B], [A, SI1, B], [A, B, SI1];
oracle: after SI1 and an SI4 with a complete IE inside the first 23 octets the list is the specified one, whatever the order (key c20-si4-si1-order).
The Cell Channel Description sub-branch of gsm48_rr_render_ma (Model/MobAllocCd.v, Proofs/MobAllocCdP.v): modes "rendercd" / "freqlist" of
charness/c20_si4.c with the vendored gsm48_ie.c linked in (real gsm48_decode_freq_list); oracle keys c20-render-cell-desc-{list,table,cause,memory}.
The assignment messages (Model/MobAllocAss.v, Proofs/MobAllocAssP.v): the guards and the memcpy 'message -> cd_now.mob_alloc_lv' of gsm48_rr_rx_imm_ass /
gsm48_rr_rx_imm_ass_ext, composed with render_ma.  Tie: w_c20_assign against the verbatim handlers (mode "assign" of charness/c20_si4.c), observing
cd_now.mob_alloc_lv and the list gsm48_rr_render_ma produces for gsm48_rr_dl_est; oracle keys c20-assign-mob-alloc-copy / c20-assign-list / c20-assign-guard.
The former defect (the length octet of the CBCH Mobile Allocation IE read behind a message that ends with the tag 0x72, fixed in
/repo d574cef) stays in the oracle under the key c20-si4-ma-length-octet-overread."""
import json
import os
import re
import subprocess

from .. import common
from ..common import REPO, LIBOSMO, ROOT, WORK

SYSINFO_C = "src/host/layer23/src/common/sysinfo.c"
SYSINFO_H = "src/host/layer23/include/osmocom/bb/common/sysinfo.h"
GSM48_RR_C = "src/host/layer23/src/mobile/gsm48_rr.c"
GSM48_RR_H = "src/host/layer23/include/osmocom/bb/mobile/gsm48_rr.h"
LEN0_KEY = "c20-len0-vla-overflow"
TAG_LAST_KEY = "c20-si4-ma-length-octet-overread"
IE_CD, IE_MA = 0x64, 0x72          # 44.018: CBCH Channel Description / CBCH Mobile Allocation (the theorems state them literally)
CB0 = [201, 202, 203, 204, 205, 60001]   # chan_nr h tsc maio hsn arfcn before the call (Model.MobAllocSi4.cb0, charness/c20_si4.c)
# sha256 of the text of gsm48_decode_sysinfo4 / gsm48_rr_render_ma the caller models were written against (a change is a note)
REVIEWED_SI4_SHA256 = "3ccfffc833513355012a2e9e72ee4b10a84bb3f25f3944f34e2b2038daa0c008"   # gsm48_decode_sysinfo4 + gsm48_decode_sysinfo1
REVIEWED_RENDER_SHA256 = "0221a7b1b521f5cc166452e45d6c3b07092cbf98ee9abcf772eb4a1f9fd51b92"
_SI4 = {}
# sha256 of the text of gsm48_decode_mobile_alloc the model was written against (a change is a note, never an alarm)
REVIEWED_FN_SHA256 = "7cf774ea26ea9c9e037655bcb1fd1a635d1be7f5dcfbe42c3b67f74f33acd5c3"
CODES = {-997: "UBSan vla-bound (zero-length VLA)", -998: "ASan/UBSan memory error", -996: "abnormal end"}


# ------------------------------------------------------------------ build

def extract_sources():
    """textual extraction: the function, the FREQ_TYPE_* #defines, the array bounds of struct gsm48_sysinfo"""
    d = os.path.join(WORK, "c")
    os.makedirs(d, exist_ok=True)
    fn = common.c_function_text(os.path.join(REPO, SYSINFO_C), "gsm48_decode_mobile_alloc")
    common.write_if_changed(os.path.join(d, "c20_fn.inc"), fn + "\n")
    with open(os.path.join(REPO, SYSINFO_H)) as f:
        h = f.read()
    defs = re.findall(r"^[ \t]*#[ \t]*define[ \t]+FREQ_TYPE_\w+[ \t]+[^\n]*$", h, re.M)
    if not any("FREQ_TYPE_SERV" in x for x in defs) or not any("FREQ_TYPE_HOPP" in x for x in defs):
        raise RuntimeError("FREQ_TYPE_SERV / FREQ_TYPE_HOPP not found in " + SYSINFO_H)
    m1 = re.search(r"struct\s+gsm_sysinfo_freq\s+freq\s*\[\s*([^\]]+)\]\s*;", h)
    m2 = re.search(r"uint16_t\s+hopping\s*\[\s*([^\]]+)\]\s*;", h)
    if not m1 or not m2:
        raise RuntimeError("freq[] / hopping[] members not found in " + SYSINFO_H)
    # the local array of the function: its bound as written, if it is an integer constant expression (else 0: a VLA)
    m3 = re.search(r"uint16_t\s+f\s*\[([^\]]*)\]\s*;", fn)
    fb = m3.group(1).strip() if m3 else ""
    if not fb or not re.fullmatch(r"[\s0-9xXa-fA-FuUlL<>+\-*/()]+", fb):
        fb = "0"
    txt = "/* extracted from %s */\n%s\n#define C20_FREQ_SIZE (%s)\n#define C20_HOPPING_SIZE (%s)\n#define C20_F_BOUND (%s)\n" % (
        SYSINFO_H, "\n".join(defs), m1.group(1).strip(), m2.group(1).strip(), fb)
    common.write_if_changed(os.path.join(d, "c20_defs.inc"), txt)
    return fn


def build_c(ctx):
    extract_sources()
    flags = "-I%s/include -I%s/c" % (LIBOSMO, WORK)
    src = [os.path.join(ROOT, "charness/c20.c")]
    ok, path, log = common.cc("c20", src, flags=flags)
    if not ok:
        raise RuntimeError("C20 harness does not compile:\n" + log[-3000:])
    return path


def extract_si4_sources():
    """verbatim texts for charness/c20_si4.c: gsm48_decode_sysinfo4 and the helpers it calls, gsm48_rr_render_ma"""
    d = os.path.join(WORK, "c")
    os.makedirs(d, exist_ok=True)
    src = os.path.join(REPO, SYSINFO_C)
    with open(src) as f:
        text = f.read()
    parts, stub_rach = [], False
    tabs = [re.search(r"^static\s+const\s+uint8_t\s+%s\s*\[[^\]]*\]\s*=\s*\{[^}]*\}\s*;" % n, text, re.M)
            for n in ("gsm48_max_retrans", "gsm48_tx_integer")]
    try:
        rach = common.c_function_text(src, "gsm48_decode_rach_ctl_param")
    except RuntimeError:
        rach = None
    if rach is None or not all(tabs):
        stub_rach = True
    else:
        parts += [t.group(0) for t in tabs] + [rach]
    for name in ("gsm48_decode_chan_h0", "gsm48_decode_chan_h1", "gsm48_decode_cell_sel_param"):
        parts.append(common.c_function_text(src, name))
    si4 = common.c_function_text(src, "gsm48_decode_sysinfo4")
    parts.append(si4)
    si1 = common.c_function_text(src, "gsm48_decode_sysinfo1")
    parts.append(si1)
    si4 = si4 + "\n" + si1        # the reviewed text: both functions
    common.write_if_changed(os.path.join(d, "c20_si4_fn.inc"), "\n\n".join(parts) + "\n")
    with open(os.path.join(REPO, GSM48_RR_H)) as f:
        m = re.search(r"uint8_t\s+mob_alloc_lv\s*\[\s*([^\]]+)\]\s*;", f.read())
    lv = m.group(1).strip() if m and re.fullmatch(r"[\s0-9xXa-fA-FuUlL<>+\-*/()]+", m.group(1).strip()) else "0"
    with open(os.path.join(REPO, GSM48_RR_H)) as f:
        m = re.search(r"uint8_t\s+cell_desc_lv\s*\[\s*([^\]]+)\]\s*;", f.read())
    cdl = m.group(1).strip() if m and re.fullmatch(r"[\s0-9xXa-fA-FuUlL<>+\-*/()]+", m.group(1).strip()) else "0"
    common.write_if_changed(os.path.join(d, "c20_si4_defs.inc"), "/* extracted from %s */\n#define C20_MOB_ALLOC_LV_SIZE (%s)\n#define C20_CELL_DESC_LV_SIZE (%s)\n%s" % (
        GSM48_RR_H, lv, cdl, "#define C20_STUB_RACH 1\n" if stub_rach else ""))
    try:
        render = common.c_function_text(os.path.join(REPO, GSM48_RR_C), "gsm48_rr_render_ma")
    except (RuntimeError, OSError):
        render = None
    common.write_if_changed(os.path.join(d, "c20_render_fn.inc"), (render or "/* gsm48_rr_render_ma not found */") + "\n")
    # the final loop of gsm48_rr_render_ma: the real gsm_refer_pcs (sysinfo.c) and arfcn2index (gsm322.c); freq_map bound from settings.h
    band = [common.c_function_text(src, "gsm_refer_pcs"),
            common.c_function_text(os.path.join(REPO, "src/host/layer23/src/mobile/gsm322.c"), "arfcn2index")]
    common.write_if_changed(os.path.join(d, "c20_band_fn.inc"), "\n\n".join(band) + "\n")
    with open(os.path.join(REPO, "src/host/layer23/include/osmocom/bb/common/settings.h")) as f:
        m = re.search(r"uint8_t\s+freq_map\s*\[\s*([^\]]+)\]\s*;", f.read())
    fmb = m.group(1).strip() if m and re.fullmatch(r"[\s0-9xXa-fA-FuUlL<>+\-*/()]+", m.group(1).strip()) else "0"
    with open(os.path.join(d, "c20_si4_defs.inc"), "a") as f:
        f.write("#define C20_FREQ_MAP_SIZE (%s)\n" % fmb)
    # the immediate-assignment handlers and what they call
    try:
        rrc = os.path.join(REPO, GSM48_RR_C)
        with open(rrc) as f:
            m = re.search(r"^#define\s+IMM_ASS_HISTORY\b.*$", f.read(), re.M)
        ass = [m.group(0) if m else "#error IMM_ASS_HISTORY not found"]
        for name in ("gsm48_decode_start_time", "gsm48_match_ra", "gsm48_rr_rx_imm_ass", "gsm48_rr_rx_imm_ass_ext"):
            ass.append(common.c_function_text(rrc, name))
        _SI4["assign_text"] = "\n\n".join(ass[3:])
        common.write_if_changed(os.path.join(d, "c20_assign_fn.inc"), "\n\n".join(ass) + "\n")
    except (RuntimeError, OSError):
        _SI4["assign_text"] = None
        common.write_if_changed(os.path.join(d, "c20_assign_fn.inc"), "#error assignment handlers not found\n")
    return si4, render, stub_rach


def build_si4(ctx):
    si4, render, stub_rach = extract_si4_sources()
    extract_sources()      # c20_fn.inc: gsm48_decode_mobile_alloc
    flags = "-I%s/charness/stubs/c20 -I%s/src/host/layer23/include -I%s/include -I%s/c" % (ROOT, REPO, LIBOSMO, WORK)
    src = [os.path.join(ROOT, "charness/c20_si4.c")]
    with_render = False
    _SI4["assign"] = _SI4["freqlist"] = False
    ie_c = os.path.join(LIBOSMO, "src/gsm/gsm48_ie.c")
    if render is not None and _SI4.get("assign_text") and os.path.exists(ie_c):
        # the vendored gsm48_ie.c supplies the real gsm48_decode_freq_list
        ok, path, log = common.cc("c20_si4", src + [ie_c], flags=flags + " -I%s/charness/stubs/a/b -DC20_WITH_RENDER -DC20_WITH_ASSIGN -DC20_REAL_FREQ_LIST" % ROOT)
        with_render = _SI4["assign"] = _SI4["freqlist"] = ok
        if not ok:
            ctx.note("the vendored gsm48_ie.c does not link into the harness (Cell Channel Description sub-branch not executed): " + log[-400:].replace("\n", " | "))
    if render is not None and _SI4.get("assign_text") and not with_render:
        ok, path, log = common.cc("c20_si4", src, flags=flags + " -DC20_WITH_RENDER -DC20_WITH_ASSIGN")
        with_render = _SI4["assign"] = ok
        if not ok:
            ctx.note("the immediate-assignment handlers do not compile in the harness (message -> mob_alloc_lv not executed): " + log[-400:].replace("\n", " | "))
    if render is not None and not with_render:
        ok, path, log = common.cc("c20_si4", src, flags=flags + " -DC20_WITH_RENDER")
        with_render = ok
        if not ok:
            ctx.note("gsm48_rr_render_ma does not compile in the harness (assignment path not executed): " + log[-400:].replace("\n", " | "))
    if not with_render:
        ok, path, log = common.cc("c20_si4", src, flags=flags)
        if not ok:
            raise RuntimeError("C20 SI4 harness does not compile:\n" + log[-3000:])
    if stub_rach:
        ctx.note("gsm48_decode_rach_ctl_param / its tables not located: stubbed in the SI4 harness")
    return path, with_render, si4, render


def gen(ctx):
    import hashlib
    si4bin, with_render, si4_text, render_text = build_si4(ctx)
    out = subprocess.run([si4bin, "const"], stdout=subprocess.PIPE, text=True, timeout=30).stdout.split()
    eio, ie_cd, ie_ma, hdr, cdsz, lvsz, cause, msgsz, abn, cdlsz, apcs, aflag, notimpl, fmsz = [int(x) for x in out]
    txt = common.gen_header("errno.h EIO, gsm_04_08.h GSM48_IE_CBCH_CHAN_DESC / GSM48_IE_CBCH_MOB_AL / sizeof(struct gsm48_system_information_type_4) / "
                            "sizeof(struct gsm48_chan_desc) / GSM48_RR_CAUSE_NO_CELL_ALLOC_A, GSM48_RR_CAUSE_ABNORMAL_UNSPEC, sysinfo.h sizeof(struct gsm48_sysinfo.si4_msg), gsm48_rr.h sizeof(struct gsm48_rr_cd.cell_desc_lv), sizeof(struct gsm48_rr_cd.mob_alloc_lv) - all as compiled")
    txt += ("Definition c_EIO : Z := %d.\nDefinition c_IE_CBCH_CHAN_DESC : Z := %d.\nDefinition c_IE_CBCH_MOB_AL : Z := %d.\n"
            "Definition c_SI4_HDR_SIZE : Z := %d.\nDefinition c_CHAN_DESC_SIZE : Z := %d.\nDefinition c_MOB_ALLOC_LV_SIZE : Z := %d.\n"
            "Definition c_CAUSE_NO_CELL_ALLOC_A : Z := %d.\nDefinition c_SI4_MSG_SIZE : Z := %d.\n"
            "Definition c_CAUSE_ABNORMAL_UNSPEC : Z := %d.\nDefinition c_CELL_DESC_LV_SIZE : Z := %d.\n"
            "Definition c_ARFCN_PCS : Z := %d.\nDefinition c_ARFCN_FLAG_MASK : Z := %d.\nDefinition c_CAUSE_FREQ_NOT_IMPL : Z := %d.\nDefinition c_FREQ_MAP_SIZE : Z := %d.\n"
            % (eio, ie_cd, ie_ma, hdr, cdsz, lvsz, cause, msgsz, abn, cdlsz, apcs, aflag, notimpl, fmsz))
    ctx.gen("MobAllocSi4Const", txt)
    _SI4.update(bin=si4bin, render=with_render, hdr=hdr, lv=lvsz, msgsz=msgsz, cdl=cdlsz, abn=abn, notimpl=notimpl, fmsz=fmsz,
                si4_sha=hashlib.sha256(si4_text.encode()).hexdigest(),
                render_sha=hashlib.sha256(render_text.encode()).hexdigest() if render_text else None)
    ctx.extra["gen_constants_callers"] = dict(EIO=eio, IE_CBCH_CHAN_DESC=ie_cd, IE_CBCH_MOB_AL=ie_ma, si4_header=hdr, chan_desc=cdsz,
                                              mob_alloc_lv=lvsz, cause_no_cell_alloc=cause, si4_msg=msgsz, cause_abnormal=abn, cell_desc_lv=cdlsz, render_harness=with_render)
    bins = build_c(ctx)
    out = subprocess.run([bins, "const"], stdout=subprocess.PIPE, text=True, timeout=30).stdout.split()
    serv, hopp, fsize, hsize, einval, esize, fcap = [int(x) for x in out]
    txt = common.gen_header("sysinfo.h (FREQ_TYPE_* #defines, freq[]/hopping[] array bounds, as compiled), errno.h EINVAL, "
                            "gsm48_ie.h sizeof(struct gsm_sysinfo_freq), sysinfo.c bound of the local array f in gsm48_decode_mobile_alloc (0 = not a constant)")
    txt += ("Definition c_FREQ_TYPE_SERV : Z := %d.\nDefinition c_FREQ_TYPE_HOPP : Z := %d.\n"
            "Definition c_FREQ_TABLE_SIZE : Z := %d.\nDefinition c_HOPPING_SIZE : Z := %d.\n"
            "Definition c_EINVAL : Z := %d.\nDefinition c_FREQ_ENTRY_SIZE : Z := %d.\nDefinition c_F_CAPACITY : Z := %d.\n"
            % (serv, hopp, fsize, hsize, einval, esize, fcap))
    ctx.gen("MobAllocConst", txt)
    ctx.extra["gen_constants"] = dict(FREQ_TYPE_SERV=serv, FREQ_TYPE_HOPP=hopp, freq_size=fsize, hopping_size=hsize, EINVAL=einval, f_capacity=fcap)
    return bins, dict(serv=serv, hopp=hopp, fsize=fsize, hsize=hsize, einval=einval)


# ------------------------------------------------------------------ cases

def mk_case(si4, length, hl0, hfill, bg, ma, table, kind):
    """table: dict idx -> mask (entries different from bg need not be listed, but may be)"""
    return dict(si4=si4, len=length, hl0=hl0, hfill=hfill, bg=bg, ma=list(ma), table=dict(table), kind=kind)


def line_of(c):
    a = [c["si4"], c["len"], c["hl0"], c["hfill"], c["bg"], len(c["ma"])] + c["ma"]
    for k in sorted(c["table"]):
        a += [k, c["table"][k]]
    return " ".join(map(str, a))


def show(c):
    ca = [a for a, m in enumerate(masks_of(c)) if m & 1]
    return dict(kind=c["kind"], si4=c["si4"], len=c["len"], hl0=c["hl0"], hfill=c["hfill"], bg=c["bg"], ma=c["ma"],
                cell_alloc=ca if len(ca) <= 80 else ca[:80] + ["...(%d)" % len(ca)], line=line_of(c))


def gen_cases(rng, n):
    cases = []

    def table_for(ca, bg, others):
        """cell allocation ca gets SERV + random other bits; a few non-CA entries carry stale flags"""
        t = {}
        for a in ca:
            t[a] = 1 | (rng.below(256) & 0xFE if rng.chance(1, 2) else (2 if rng.chance(1, 2) else 0))
        for _ in range(others):
            a = rng.below(1024)
            if a not in t:
                t[a] = rng.below(256) & 0xFE      # no SERV: stale HOPP / neighbour flags
        if bg & 1:
            # background is serving: listed non-CA entries are the holes
            pass
        return t

    def rand_ca(size, with0):
        pool = list(range(1, 1024))
        rng.shuffle(pool)
        ca = pool[:max(0, size - (1 if with0 else 0))]
        if with0:
            ca.append(0)
        return ca

    def bitmap(kind, length, nca):
        if length == 0:
            return []
        nb = 8 * length
        if kind == "ones":
            return [255] * length
        if kind == "zero":
            return [0] * length
        if kind == "single":
            i = rng.below(nb)
            m = [0] * length
            m[length - 1 - i // 8] = 1 << (i % 8)
            return m
        if kind == "beyond":
            # random bits below the cell allocation size, one bit at/after it, random garbage above
            m = [0] * length
            lim = min(nca, nb)
            for i in range(lim):
                if rng.chance(1, 2):
                    m[length - 1 - i // 8] |= 1 << (i % 8)
            if lim < nb:
                i = rng.range(lim, min(nb - 1, lim + 2))
                m[length - 1 - i // 8] |= 1 << (i % 8)
                for k in range(i + 1, nb):
                    if rng.chance(1, 2):
                        m[length - 1 - k // 8] |= 1 << (k % 8)
            return m
        if kind == "exact":
            # exactly the first nca bits
            m = [0] * length
            for i in range(min(nca, nb)):
                m[length - 1 - i // 8] |= 1 << (i % 8)
            return m
        return [rng.below(256) for _ in range(length)]

    sizes = [0, 1, 2, 3, 7, 8, 9, 15, 16, 17, 31, 32, 33, 63, 64, 65, 66, 100, 200, 1023]
    kinds = ["random", "ones", "single", "beyond", "exact", "zero"]
    # structured grid first: every length x a spread of sizes x with/without ARFCN 0 x bitmap kinds
    grid = []
    for length in range(0, 10):
        for size in sizes:
            for with0 in (False, True):
                if with0 and size == 0:
                    continue
                grid.append((length, size, with0))
    rng.shuffle(grid)
    k = 0
    while len(cases) < n:
        if k < len(grid):
            length, size, with0 = grid[k]
        else:
            length = rng.choice([0, 1, 1, 2, 3, 4, 5, 6, 7, 8, 8, 8, 9, rng.choice([9, 10, 16, 31, 32, 128, 255])])
            size = rng.choice(sizes + [rng.range(0, 64), rng.range(0, 64), rng.range(0, 70)])
            with0 = rng.chance(1, 2) and size > 0
        k += 1
        kind = kinds[k % len(kinds)] if rng.chance(2, 3) else "random"
        si4 = rng.choice([0, 1, 1, 1, 2, -1])
        if size == 1023 and rng.chance(1, 2):
            # background serving: the cell allocation is everything except a few holes
            holes = set(rng.below(1024) for _ in range(rng.range(0, 5)))
            if with0:
                holes.discard(0)
            else:
                holes.add(0)
            bg = 1 | (rng.below(256) & 0xFC)
            t = {a: rng.below(256) & 0xFE for a in holes}
            nca = 1024 - len(holes)
        else:
            ca = rand_ca(size, with0)
            bg = rng.choice([0, 0, 0, 2, 0x1C, 0xE2, 0xFE])
            t = table_for(ca, bg, rng.range(0, 6))
            nca = len(ca)
        ma = bitmap(kind, length, nca)
        # the IE buffer is exactly len octets, except in the "short buffer" stream (caller contract broken: tie of the checked reads only)
        if 1 <= length <= 8 and rng.chance(1, 40):
            ma = ma[:rng.range(0, length - 1)]
            kind = "short-buffer"
        elif rng.chance(1, 30):
            ma = ma + [rng.below(256) for _ in range(rng.range(1, 3))]
        cases.append(mk_case(si4, length, rng.choice([0, 1, 63, 64, 200, 255]), rng.choice([0, 7, 1000, 40000, 65500]), bg, ma, t, kind))
    # malformed lines (wire level): both sides must answer -999
    bad = [mk_case(1, 256, 0, 0, 0, [1], {5: 1}, "malformed"), mk_case(1, 1, 0, 0, 0, [256], {5: 1}, "malformed"),
           mk_case(1, 1, 0, 0, 0, [1], {5: 256}, "malformed"), mk_case(1, 1, 0, 0, 256, [1], {}, "malformed"),
           mk_case(1, 1, 0, 70000, 0, [1], {}, "malformed"), mk_case(1, 1, 0, 0, 0, [1], {1024: 1}, "malformed")]
    return cases + bad


# ------------------------------------------------------------------ the specification, in Python, on the implementation's observations

def masks_of(c, fsize=1024):
    t = [c["bg"]] * fsize
    for k, m in c["table"].items():
        if 0 <= k < fsize:
            t[k] = m
    return t

def spec(c):
    """expected observation according to the property (3GPP TS 44.018 10.5.2.21); None = outside the property's domain"""
    if c["kind"] == "malformed":
        return [-999]
    t = masks_of(c)
    length, ma = c["len"], c["ma"]
    hop0 = [(c["hfill"] + k) % 65536 for k in range(64)]
    if length > 8:
        return [-22, c["hl0"]] + hop0
    if len(ma) < length:
        return None
    ca = [a for a in range(1, 1024) if t[a] & 0x01] + ([0] if t[0] & 0x01 else [])
    sel = []
    for i in range(8 * length):
        if (ma[length - 1 - i // 8] >> (i % 8)) & 1:
            if i >= len(ca):
                break
            sel.append(ca[i])
    exp = [0, len(sel)] + sel + hop0[len(sel):]
    if c["si4"] != 0:
        for a in range(1024):
            new = (t[a] | 0x02) if a in sel else (t[a] & 0xFD)
            if new != t[a]:
                exp += [a, new]
    return exp, sel, ca


def _run_chunk(binp, lines, timeout, args=()):
    p = subprocess.run([binp] + list(args), input="\n".join(lines) + "\n", stdout=subprocess.PIPE, stderr=subprocess.PIPE, text=True, timeout=timeout)
    outl = p.stdout.strip("\n").split("\n") if p.stdout.strip() else []
    if p.returncode != 0 or len(outl) != len(lines):
        raise RuntimeError("C20 harness failed (rc %d, %d of %d lines): %s" % (p.returncode, len(outl), len(lines), p.stderr[-1500:]))
    reports = {}
    for blk in p.stderr.split("case ")[1:]:
        try:
            reports[int(blk.split(":")[0]) - 1] = re.sub(r"0x[0-9a-f]+", "0x..", re.sub(r"==\d+==", "", blk.split(":", 1)[1].strip()))[:500]
        except ValueError:
            pass
    return [[int(x) for x in l.split()] for l in outl], reports


def run_impl(binp, lines, timeout=3000, args=()):
    """every line runs in its own forked child inside the harness; chunks run in parallel harness processes.
    Returns (observations, {case index: first lines of the sanitizer report})"""
    from concurrent.futures import ThreadPoolExecutor
    n = len(lines)
    step = max(50, (n + 4 * common.NPROC - 1) // (4 * common.NPROC))
    chunks = [(a, lines[a:a + step]) for a in range(0, n, step)]
    res, reports = [None] * n, {}
    with ThreadPoolExecutor(max_workers=max(1, common.NPROC - 2)) as ex:
        for (a, ch), (obs, rep) in zip(chunks, ex.map(lambda c: _run_chunk(binp, c[1], timeout, args), chunks)):
            res[a:a + len(ch)] = obs
            for k, v in rep.items():
                reports[a + k] = v
    return res, reports

# ------------------------------------------------------------------ the callers: SI4 tail, gsm48_rr_render_ma

def _rand_ca(rng, size, with0):
    pool = list(range(1, 1024))
    rng.shuffle(pool)
    ca = pool[:max(0, size - (1 if with0 else 0))]
    if with0:
        ca.append(0)
    return ca


def _rand_table(rng):
    """(table dict, bg, |CA|): cell allocation with SERV + random other bits (stale HOPP among them), a few stale non-CA entries"""
    size = rng.choice([0, 1, 2, 3, 7, 8, 9, 16, 17, 31, 33, 63, 64, 65, 100])
    with0 = size > 0 and rng.chance(1, 2)
    ca = _rand_ca(rng, size, with0)
    bg = rng.choice([0, 0, 0, 2, 0x1C, 0xE2, 0xFE])
    t = {}
    for a in ca:
        t[a] = 1 | (rng.below(256) & 0xFE if rng.chance(1, 2) else (2 if rng.chance(1, 2) else 0))
    for _ in range(rng.range(0, 6)):
        a = rng.below(1024)
        if a not in t:
            t[a] = rng.below(256) & 0xFE
    return t, bg, len(ca)


def _rand_bitmap(rng, length, nca):
    if length == 0:
        return []
    kind = rng.choice(["random", "ones", "single", "low", "exact", "zero"])
    nb = 8 * length
    m = [0] * length
    if kind == "ones":
        return [255] * length
    if kind == "single":
        i = rng.below(nb)
        m[length - 1 - i // 8] = 1 << (i % 8)
    elif kind == "low":
        for i in range(min(nca, nb)):
            if rng.chance(1, 2):
                m[length - 1 - i // 8] |= 1 << (i % 8)
    elif kind == "exact":
        for i in range(min(nca, nb)):
            m[length - 1 - i // 8] |= 1 << (i % 8)
    elif kind == "random":
        m = [rng.below(256) for _ in range(length)]
    return m


def mk_si4(si1, hl0, hfill, bg, pay, table, kind):
    return dict(path="si4", si1=si1, hl0=hl0, hfill=hfill, bg=bg, pay=list(pay), table=dict(table), kind=kind)


def mk_render(hl0, hfill, bg, lv, table, kind):
    return dict(path="render", hl0=hl0, hfill=hfill, bg=bg, lv=list(lv), table=dict(table), kind=kind)


def line_of_caller(c):
    if c["path"] == "si4":
        a = [c["si1"], c["hl0"], c["hfill"], c["bg"], len(c["pay"])] + c["pay"]
    else:
        a = [c["hl0"], c["hfill"], c["bg"], len(c["lv"])] + c["lv"]
    for k in sorted(c["table"]):
        a += [k, c["table"][k]]
    return " ".join(map(str, a))


def show_caller(c):
    ca = [a for a, m in enumerate(masks_of(c)) if m & 1]
    d = dict(path=c["path"], kind=c["kind"], hl0=c["hl0"], hfill=c["hfill"], bg=c["bg"],
             cell_alloc=ca if len(ca) <= 80 else ca[:80] + ["...(%d)" % len(ca)], line=line_of_caller(c))
    if c["path"] == "si4":
        d.update(si1=c["si1"], payload=" ".join("%02x" % b for b in c["pay"]),
                 message="SI4 of %d octets = 13 header octets + payload" % (13 + len(c["pay"])))
    else:
        d.update(mob_alloc_lv=" ".join("%02x" % b for b in c["lv"]))
    return d


def caller_of_line(path, line, kind):
    a = [int(x) for x in line.split()]
    if path == "si4":
        n = a[4]
        head, body, rest = a[:4], a[5:5 + n], a[5 + n:]
    else:
        n = a[3]
        head, body, rest = a[:3], a[4:4 + n], a[4 + n:]
    t = {rest[i]: rest[i + 1] for i in range(0, len(rest) - 1, 2)}
    if path == "si4":
        return mk_si4(head[0], head[1], head[2], head[3], body, t, kind)
    return mk_render(head[0], head[1], head[2], body, t, kind)


def gen_si4_cases(rng, tables, n_random):
    cases = []
    for _ in range(tables):
        t, bg, nca = _rand_table(rng)
        hl0 = rng.choice([0, 3, 64, 200])
        hfill = rng.choice([0, 7, 1000, 40000, 65500])
        for cdk in ("none", "h0", "h1"):
            if cdk == "none":
                cd = []
            else:
                b2 = (rng.below(8) << 5) | ((1 if cdk == "h1" else 0) << 4) | rng.below(16)
                cd = [IE_CD, rng.below(256), b2, rng.below(256)]
            for l in range(0, 11):
                ie = [IE_MA, l] + _rand_bitmap(rng, l, nca)
                tail = rng.choice([[], [0x2B], [0x2B, 0x2B, 0x2B], [rng.below(256) for _ in range(rng.range(1, 3))]])
                full = cd + ie + tail
                for cut in range(0, len(full) + 1):
                    for si1 in (1, 0):
                        # before SI1 every second cut position is enough (the decoder is not called)
                        if si1 == 0 and (cut + l) % 2:
                            continue
                        cases.append(mk_si4(si1, hl0, hfill, bg, full[:cut], t, "grid cd=%s l=%d cut=%d/%d" % (cdk, l, cut, len(full))))
    # hostile stream: short payloads made of tags, plausible length octets and noise
    for _ in range(n_random):
        t, bg, nca = _rand_table(rng)
        pay = []
        for _ in range(rng.range(0, 14)):
            pay.append(rng.choice([IE_CD, IE_MA, IE_MA, rng.below(12), rng.below(12), rng.below(256), 0x2B]))
        cases.append(mk_si4(rng.choice([0, 1, 1, 1, 255]), rng.choice([0, 1, 63, 64, 255]), rng.choice([0, 7, 65500]), bg, pay, t, "hostile"))
    bad = [mk_si4(1, 256, 0, 0, [IE_MA, 0], {}, "malformed"), mk_si4(1, 0, 0, 0, [256], {}, "malformed"),
           mk_si4(1, 0, 70000, 0, [IE_MA], {}, "malformed"), mk_si4(1, 0, 0, 0, [IE_MA, 1, 1], {1024: 1}, "malformed")]
    return cases + bad


def gen_render_cases(rng, n, lvsize):
    cases = []
    for k in range(n):
        t, bg, nca = _rand_table(rng)
        if k % 12 == 11:
            l = rng.choice([9, 10, 64, 128, 255])
            hl0 = rng.choice([0, 1, 63, 64])        # the band loop behind the branch walks ma[0 .. ma_len-1]: stay inside ma[64]
        else:
            l = 1 + k % 8
            hl0 = rng.choice([0, 1, 63, 64, 200, 255])
        vals = _rand_bitmap(rng, min(l, lvsize - 1), nca) if l <= lvsize - 1 else [rng.below(256) for _ in range(lvsize - 1)]
        lv = ([l] + vals + [rng.below(256) for _ in range(lvsize)])[:lvsize]
        cases.append(mk_render(hl0, rng.choice([0, 7, 1000, 65500]), bg, lv, t, "render l=%d" % l))
    return cases


def si4_spec(c):
    """the property on one SI4 payload: (class, expected observation).  Written from 44.018 9.1.36 / 10.5.2.5 / 10.5.2.21 and
    the statement, not from the model: a truncated IE is a short read (-EIO, list / hopp_len / flags as before)."""
    pay, off = c["pay"], 0
    cb = list(CB0)
    hop0 = [(c["hfill"] + k) % 65536 for k in range(64)]
    untouched = [c["hl0"]] + hop0
    cdk = "none"
    if pay and pay[0] == IE_CD:
        if len(pay) < 4:
            return ("cut-in-cd", cdk, None), [-5, -1, -1] + cb + untouched
        a, b2, b3 = pay[1:4]
        h, tsc = (b2 >> 4) & 1, b2 >> 5
        if h:
            cb = [a, 1, tsc, ((b2 & 15) << 2) | (b3 >> 6), b3 & 63, cb[5]]
        else:
            cb = [a, 0, tsc, cb[3], cb[4], ((b2 & 3) << 8) | b3]
        off, cdk = 4, "h1" if h else "h0"
    rem = pay[off:]
    state, cls, lo = untouched, "no-ie", None
    if rem and rem[0] == IE_MA:
        if len(rem) < 2:
            return ("cut-after-tag", cdk, None), [-5, -1, -1] + cb + untouched
        lo = rem[1]
        if len(rem) < 2 + lo:
            return ("cut-in-ie", cdk, lo), [-5, -1, -1] + cb + untouched
        cls = "complete"
        if c["si1"]:
            e = spec(dict(c, si4=1, len=lo, ma=rem[2:2 + lo], kind="si4"))
            if isinstance(e, tuple):
                state = e[0][1:]
                cls = "complete-n%s" % ("0" if not e[1] else "64" if len(e[1]) == 64 else "+")
            else:
                cls = "complete-long"           # 9..255 octets: refused by the decoder, ignored by SI4
        off += 2 + lo
    left = len(pay) - off
    return (cls, cdk, lo), [0] + ([off, left] if left > 0 else [-1, -1]) + cb + state


def render_spec_py(c):
    lv = c["lv"]
    l = lv[0]
    hop0 = [(c["hfill"] + k) % 65536 for k in range(64)]
    if l > 8:
        return ("long", l), [101 if c["hl0"] < 1 else 0, c["hl0"]] + hop0
    e = spec(dict(c, si4=0, len=l, ma=lv[1:1 + l], kind="render"))
    if e is None:
        return ("array-short", l), None          # the array holds fewer than l bitmap octets although the decoder accepts l
    exp, sel, ca = e
    return ("n0" if not sel else "n64" if len(sel) == 64 else "n+", l), [101 if not sel else 0] + exp[1:]


# ------------------------------------------------------------------ gsm48_rr_render_ma with a Cell Channel Description

def mk_rendercd(hl0, hfill, bg, lv, cdlv, table, kind, other=None):
    d = dict(path="rendercd", hl0=hl0, hfill=hfill, bg=bg, lv=list(lv), cdlv=list(cdlv), other=list(other or []), table=dict(table), kind=kind)
    if other is not None:
        d["other_fixed"] = True
    return d


def line_of_rendercd(c):
    a = [c["hl0"], c["hfill"], c["bg"], len(c["lv"])] + c["lv"] + [len(c["cdlv"])] + c["cdlv"] + [len(c["other"])] + c["other"]
    for k in sorted(c["table"]):
        a += [k, c["table"][k]]
    return " ".join(map(str, a))


def rendercd_of_line(line, kind):
    a = [int(x) for x in line.split()]
    n1 = a[3]
    lv = a[4:4 + n1]
    n2 = a[4 + n1]
    cdlv = a[5 + n1:5 + n1 + n2]
    n3 = a[5 + n1 + n2]
    other = a[6 + n1 + n2:6 + n1 + n2 + n3]
    rest = a[6 + n1 + n2 + n3:]
    t = {rest[i]: rest[i + 1] for i in range(0, len(rest) - 1, 2)}
    return mk_rendercd(a[0], a[1], a[2], lv, cdlv, t, kind, other=other)


def show_rendercd(c):
    ca = [a for a, m in enumerate(masks_of(c)) if m & 1]
    return dict(path="rendercd", kind=c["kind"], mob_alloc_lv=" ".join("%02x" % b for b in c["lv"]),
                cell_desc_lv=" ".join("%02x" % b for b in c["cdlv"]), hl0=c["hl0"], hfill=c["hfill"],
                cell_alloc_before=ca if len(ca) <= 80 else ca[:80] + ["...(%d)" % len(ca)], line=line_of_rendercd(c))


def bitmap0_octets(arfcns):
    """44.018 10.5.2.1b, bit map 0: 16 octets; octet 1 bits 8,7 = 00 (format), bits 4..1 = ARFCN 124..121; octet k: ARFCN 8*(16-k)+8 .. 8*(16-k)+1"""
    o = [0] * 16
    for a in arfcns:
        o[15 - (a - 1) // 8] |= 1 << ((a - 1) % 8)
    return o


def gen_rendercd_cases(rng, n):
    cases = []
    shapes = ["bm0", "bm0", "bm0", "bm0-low", "bm0-low", "absent", "absent-junk", "wrong-len", "other"]
    for k in range(n):
        # the serving cell's allocation (what SI1 left): mostly inside 1..124 so that it competes with the description
        pool = list(range(1, 125)) if rng.chance(3, 4) else list(range(0, 1024))
        rng.shuffle(pool)
        ca = pool[:rng.choice([0, 1, 3, 4, 8, 9, 17, 40])]
        bg = rng.choice([0, 0, 2, 0x1C, 0xFE])
        t = {a: 1 | (rng.below(256) & 0xFE if rng.chance(1, 3) else 0) for a in ca}
        shape = shapes[k % len(shapes)]
        l = 1 + rng.below(8)
        if shape.startswith("bm0"):
            hi = 120 if shape == "bm0-low" else 124          # bm0-low: nothing in 121..124, the first value octet is 0x00
            dp = list(range(1, hi + 1))
            rng.shuffle(dp)
            desc = dp[:rng.choice([0, 1, 4, 8, 9, 20, 64, 70])]
            cdlv = [16] + bitmap0_octets(desc)
            if shape == "bm0" and rng.chance(1, 4):
                cdlv[1] |= rng.choice([0x10, 0x20, 0x30])   # spare bits of octet 1 (still format 00)
            nca = len(desc)
        elif shape == "absent":
            cdlv = [0] * 17
            nca = len(ca)
        elif shape == "absent-junk":                          # length octet 0, old value octets behind it
            cdlv = [0] + [rng.below(256) for _ in range(16)]
            cdlv[1] |= 1
            nca = len(ca)
        elif shape == "wrong-len":
            cdlv = [rng.choice([1, 15, 17, 255, rng.range(1, 255)])] + [rng.below(256) for _ in range(16)]
            if cdlv[0] == 16:
                cdlv[0] = 15
            nca = len(ca)
        else:
            first = rng.choice([0x80, 0x82, 0x84, 0x88, 0x8A, 0x8C, 0x8E, 0x8E, 0x40, 0xC0, 0xB0])
            cdlv = [16, first | (rng.below(2))] + [rng.below(256) if rng.chance(1, 2) else 0 for _ in range(15)]
            nca = 8
        v = _rand_bitmap(rng, l, nca)
        if rng.chance(1, 2):
            v[-1] |= 0x0F if l else 0
        lv = ([l] + v + [0] * 9)[:9]
        cases.append(mk_rendercd(rng.choice([0, 1, 63, 64]), rng.choice([0, 7, 1000, 65500]), bg, lv, cdlv, t, "rendercd " + shape))
    bad = [mk_rendercd(0, 0, 0, [1] * 8, [0] * 17, {}, "malformed"), mk_rendercd(0, 0, 0, [1] * 9, [0] * 16, {}, "malformed"),
           mk_rendercd(0, 0, 0, [1] * 9, [0] * 16 + [256], {}, "malformed")]
    return cases + bad


def rendercd_spec_py(c):
    """gsm48_rr.c render_ma + 44.018 10.5.2.1b / 10.5.2.21 on the observations: (class, rc ma_len ma[64] flag changes)"""
    lv, cdlv = c["lv"], c["cdlv"]
    l = lv[0]
    hop0 = [(c["hfill"] + j) % 65536 for j in range(64)]
    m0 = masks_of(c)
    if cdlv[0] == 0:
        cls, m1 = "absent", m0
    elif cdlv[0] != 16:
        return "wrong-length", [_SI4.get("abn", 1), c["hl0"]] + hop0
    else:
        if cdlv[1] < 0x40:
            cls = "bitmap0" + ("-first-octet-0" if cdlv[1] == 0 else "")
            S = set(a for a in range(1, 125) if (cdlv[1 + 15 - (a - 1) // 8] >> ((a - 1) % 8)) & 1)
        else:
            cls, S = "other-format", set(c["other"])
        m1 = [(m & 0xFE) | (1 if a in S else 0) for a, m in enumerate(m0)]
    if l > 8:
        return cls + "-long", [101 if c["hl0"] < 1 else 0, c["hl0"]] + hop0
    e = spec(dict(c, si4=0, len=l, ma=lv[1:1 + l], kind="rendercd", bg=0, table={a: m for a, m in enumerate(m1)}))
    exp, sel, ca = e
    diffs = []
    for a in range(1024):
        if m1[a] != m0[a]:
            diffs += [a, m1[a]]
    return cls + ("-empty" if not sel else ""), [101 if not sel else 0] + exp[1:2 + 64] + diffs


# ------------------------------------------------------------------ the band conversion loop of gsm48_rr_render_ma

def line_of_band(c):
    return " ".join(map(str, [c["pcs"], c["hl0"], c["hfill"], c["bg"], len(c["fm"])] + c["fm"])) + " " + line_of_rendercd(c).split(" ", 3)[3]


def band_of_line(line, kind):
    a = [int(x) for x in line.split()]
    nfm = a[4]
    c = rendercd_of_line(" ".join(map(str, a[1:4] + a[5 + nfm:])), kind)
    c.update(path="renderband", pcs=a[0], fm=a[5:5 + nfm])
    return c


def show_band(c):
    d = show_rendercd(c)
    clear = [i for i in range(8 * len(c["fm"])) if not (c["fm"][i // 8] >> (i % 8)) & 1]
    d.update(path="renderband", serving_cell="refers to PCS 1900" if c["pcs"] else "does not refer to PCS",
             unsupported_band_indexes=clear if len(clear) <= 40 else clear[:40] + ["...(%d)" % len(clear)], line=line_of_band(c))
    return d


def _band_index(pcs, a):
    """45.005 band plan as the phone's settings hold it: index = ARFCN, PCS 1900 channels 512..810 behind the 1024 plain ones"""
    return a - 512 + 1024 if pcs and 512 <= a <= 810 else a


def gen_band_cases(rng, n):
    edges = [0, 1, 124, 125, 127, 128, 251, 252, 259, 293, 306, 340, 438, 511, 512, 513, 700, 809, 810, 811, 885, 886, 954, 955, 974, 975, 1023]
    cases = []
    for k in range(n):
        pcs = k % 2
        ca = set(rng.choice([[512, 809, 810, 811], [810], [809, 810], [810, 811], [512], []]))
        for _ in range(rng.range(0, 8)):
            ca.add(rng.choice(edges) if rng.chance(2, 3) else rng.below(1024))
        ca = sorted(ca)
        t = {a: 1 | (rng.below(256) & 0xFC if rng.chance(1, 4) else 0) for a in ca}
        l = max(1, (len(ca) + 7) // 8)
        v = [255] * l if rng.chance(2, 3) else _rand_bitmap(rng, l, len(ca))
        lv = ([l] + v + [0] * 9)[:9]
        mode = rng.choice(["all", "all", "one-clear", "one-clear", "no-pcs", "no-dcs", "random", "only-selected"])
        fm = [255] * 166
        idxs = [_band_index(pcs, a) for a in ca]
        if mode == "one-clear" and idxs:
            i = rng.choice(idxs)
            fm[i // 8] &= ~(1 << (i % 8)) & 255
        elif mode == "no-pcs":
            for i in range(1024, 1323):
                fm[i // 8] &= ~(1 << (i % 8)) & 255
        elif mode == "no-dcs":
            for i in range(512, 886):
                fm[i // 8] &= ~(1 << (i % 8)) & 255
        elif mode == "random":
            fm = [rng.below(256) for _ in range(166)]
        elif mode == "only-selected":
            fm = [0] * 166
            for i in idxs:
                fm[i // 8] |= 1 << (i % 8)
        c = mk_rendercd(rng.choice([0, 1, 64]), rng.choice([0, 7, 65500]), 0, lv, [0] * 17, t, "band " + mode)
        c.update(path="renderband", pcs=pcs, fm=fm)
        cases.append(c)
    return cases


def band_spec_py(c):
    cls, e = rendercd_spec_py(c)
    if e[0] != 0:
        return "branch-error", e
    n, pcs = e[1], c["pcs"]
    ma, rc = list(e[2:2 + 64]), 0
    for i in range(n):
        a = ma[i]
        if pcs and 512 <= a <= 810:
            ma[i] = a | 0x8000
        bi = _band_index(pcs, a)
        if not (c["fm"][bi // 8] >> (bi % 8)) & 1:
            rc = _SI4.get("notimpl", 8)
            break
    return ("refused" if rc else "accepted") + ("-pcs" if pcs else ""), [rc, n] + ma + e[2 + 64:]


# ------------------------------------------------------------------ immediate assignment: message -> mob_alloc_lv -> L1

def mk_assign(limit, ours, h, hl0, hfill, bg, tl, table, kind):
    return dict(path="assign", limit=limit, ours=ours, h=h, hl0=hl0, hfill=hfill, bg=bg, tl=list(tl), table=dict(table), kind=kind,
                msg="IMMEDIATE ASSIGNMENT" if limit == 8 else "IMMEDIATE ASSIGNMENT EXTENDED",
                ref={0: "no request reference is ours", 1: "request reference 1 is ours" if limit == 4 else "the request reference is ours",
                     2: "request reference 2 is ours"}.get(ours, "?"))


def line_of_assign(c):
    a = [c["limit"], c["ours"], c["h"], c["hl0"], c["hfill"], c["bg"], len(c["tl"])] + c["tl"]
    for k in sorted(c["table"]):
        a += [k, c["table"][k]]
    return " ".join(map(str, a))


def assign_of_line(line, kind):
    a = [int(x) for x in line.split()]
    n = a[6]
    rest = a[7 + n:]
    t = {rest[i]: rest[i + 1] for i in range(0, len(rest) - 1, 2)}
    return mk_assign(a[0], a[1], a[2], a[3], a[4], a[5], a[7:7 + n], t, kind)


def show_assign(c):
    ca = [a for a, m in enumerate(masks_of(c)) if m & 1]
    return dict(path="assign", kind=c["kind"], message=c["msg"], reference=c["ref"], hopping_channel=bool(c["h"]),
                from_mob_alloc_len_on=" ".join("%02x" % b for b in c["tl"]), hl0=c["hl0"], hfill=c["hfill"],
                cell_alloc=ca if len(ca) <= 80 else ca[:80] + ["...(%d)" % len(ca)], line=line_of_assign(c))


def gen_assign_cases(rng, n):
    cases = []
    for k in range(n):
        t, bg, nca = _rand_table(rng)
        limit = 4 if k % 2 else 8
        ours = rng.choice([1, 1, 1, 0]) if limit == 8 else rng.choice([1, 2, 2, 2, 0])
        shape = rng.choice(["ok", "ok", "ok", "ok", "ok", "large", "short", "none"])
        h = 1
        if shape == "ok":
            l = rng.range(0, limit)
            if l == 0:
                h = 0                              # hopping without a Mobile Allocation takes the other branches of gsm48_rr_render_ma (not modelled)
            elif rng.chance(1, 8):
                h = 0
            v = _rand_bitmap(rng, l, nca)
            if l and rng.chance(1, 3):             # make sure the LAST octet (cell-allocation indexes 0..7) and the FIRST octet carry bits
                v[-1] |= 1 << rng.below(8)
                v[0] |= 1 << rng.below(8)
            tl = [l] + v + rng.choice([[], [0x7C, rng.below(256), rng.below(256)], [rng.below(256) for _ in range(rng.range(1, 4))]])
        elif shape == "large":
            l = rng.choice([limit + 1, limit + 2, 9, 9, 17, 200, 255])
            l = max(l, limit + 1)
            tl = [l] + [rng.below(256) for _ in range(rng.choice([l, l, l + 3, 8]))]
        elif shape == "short":
            l = rng.range(1, limit)
            tl = [l] + _rand_bitmap(rng, l, nca)[:rng.range(0, l - 1)]
        else:
            tl = []
        cases.append(mk_assign(limit, ours, h, rng.choice([0, 1, 63, 64]), rng.choice([0, 7, 1000, 65500]), bg, tl, t, "assign " + shape))
    bad = [mk_assign(5, 1, 1, 0, 0, 0, [1, 1], {}, "malformed"), mk_assign(8, 1, 1, 0, 0, 0, [256], {}, "malformed"),
           mk_assign(8, 1, 1, 256, 0, 0, [1, 1], {}, "malformed")]
    return cases + bad


def assign_spec_py(c):
    """44.018 9.1.18 / 9.1.19 + 10.5.2.21 on one message: (class, expected observation rc est lv[9] [cause ma_len ma[64] flags])"""
    tl, limit = c["tl"], c["limit"]
    untouched = [170] * 9
    hop0 = [(c["hfill"] + j) % 65536 for j in range(64)]
    if not tl or tl[0] > len(tl) - 1:
        return "short", [-22, 0] + untouched
    l = tl[0]
    if l > limit:
        return "too-large", [-22, 0] + untouched
    if not c["ours"]:
        return "not-ours", [0, 0] + untouched
    v = tl[1:1 + l]
    lv = [l] + v + [0] * (8 - l)
    if not c["h"]:
        return "non-hopping", [0, 1] + lv + [0, 0] + hop0
    e = spec(dict(c, si4=0, len=l, ma=v, kind="assign"))
    exp, sel, ca = e
    return ("list-empty" if not sel else "list"), [0, 1] + lv + [101 if not sel else 0] + exp[1:]


# ------------------------------------------------------------------ histories: SI4 stored, re-decoded at SI1

def mk_hist(pos, hl0, hfill, bg, bfill, A, B, table, kind):
    order = {0: "SI1 first", 1: "SI4 before SI1", 2: "both SI4 before SI1"}[pos] if kind != "malformed" else "?"
    return dict(path="hist", pos=pos, hl0=hl0, hfill=hfill, bg=bg, bfill=bfill, A=list(A), B=list(B), table=dict(table), kind=kind, order=order)


def line_of_hist(c):
    a = [c["pos"], c["hl0"], c["hfill"], c["bg"], c["bfill"], len(c["A"])] + c["A"] + [len(c["B"])] + c["B"]
    for k in sorted(c["table"]):
        a += [k, c["table"][k]]
    return " ".join(map(str, a))


def hist_of_line(line, kind):
    a = [int(x) for x in line.split()]
    nA = a[5]
    A = a[6:6 + nA]
    nB = a[6 + nA]
    B = a[7 + nA:7 + nA + nB]
    rest = a[7 + nA + nB:]
    t = {rest[i]: rest[i + 1] for i in range(0, len(rest) - 1, 2)}
    return mk_hist(a[0], a[1], a[2], a[3], a[4], A, B, t, kind)


def show_hist(c):
    ca = [a for a, m in enumerate(masks_of(c)) if m & 1]
    ev = ["SI4 A (%d octets)" % len(c["A"])] + (["SI4 B (%d octets)" % len(c["B"])] if c["B"] else [])
    ev.insert(min(c["pos"], len(ev)), "SI1")
    return dict(path="hist", kind=c["kind"], events=ev, hl0=c["hl0"], hfill=c["hfill"], bfill=c["bfill"],
                A=" ".join("%02x" % b for b in c["A"]), B=" ".join("%02x" % b for b in c["B"]),
                cell_alloc_of_SI1=ca if len(ca) <= 80 else ca[:80] + ["...(%d)" % len(ca)], line=line_of_hist(c))


def _si4_message(rng, nca, shape):
    """one SI4 message: 13 arbitrary fixed octets + payload of the given shape"""
    hdr = [rng.below(256) for _ in range(13)]
    cd = []
    if rng.chance(1, 2):
        cd = [IE_CD, rng.below(256), (rng.below(8) << 5) | (rng.below(2) << 4) | rng.below(16), rng.below(256)]
    room = 23 - 13 - len(cd) - 2
    if shape == "air":                      # what the BCCH carries: 23 octets, IE inside, padded with rest octets
        l = rng.range(0, room)
        pay = cd + [IE_MA, l] + _rand_bitmap(rng, l, nca)
        pay += [0x2B] * (10 - len(pay))
    elif shape == "short":                  # IE complete, message ends before octet 23
        l = rng.range(0, room)
        pay = cd + [IE_MA, l] + _rand_bitmap(rng, l, nca) + [0x2B] * rng.range(0, 1)
    elif shape == "long":                   # longer than the buffer
        l = rng.range(max(0, room - 1), 10)
        pay = cd + [IE_MA, l] + _rand_bitmap(rng, l, nca) + [rng.below(256) for _ in range(rng.range(0, 4))]
    elif shape == "long-edge":              # longer than the buffer, the IE starts in its last octets: the stored copy ends with the tag / the length octet
        l = rng.range(1, 4)
        pay = [0x2B] * rng.choice([7, 8, 8, 9, 9]) + [IE_MA, l] + _rand_bitmap(rng, l, nca)
    elif shape == "cut":
        l = rng.range(1, 8)
        full = cd + [IE_MA, l] + _rand_bitmap(rng, l, nca)
        pay = full[:rng.range(1, len(full) - 1)]
    elif shape == "none":                   # no Mobile Allocation IE
        pay = cd + ([0x2B] * rng.range(0, 6) if rng.chance(2, 3) else [])
    else:                                   # noise
        pay = [rng.choice([IE_CD, IE_MA, rng.below(10), rng.below(256), 0x2B]) for _ in range(rng.range(0, 14))]
    return hdr + pay


def gen_hist_cases(rng, n):
    cases = []
    shapes = ["air", "air", "air", "short", "short", "long", "long-edge", "cut", "none", "noise"]
    for k in range(n):
        t, bg, nca = _rand_table(rng)
        A = _si4_message(rng, nca, shapes[k % len(shapes)])
        two = rng.chance(1, 3)
        B = _si4_message(rng, nca, rng.choice(shapes)) if two else []
        pos = rng.choice([0, 1, 2] if two else [0, 1])
        cases.append(mk_hist(pos, rng.choice([0, 3, 64, 200]), rng.choice([0, 7, 1000, 65500]), bg,
                             rng.choice([0, 0, 0x2B, IE_MA, IE_CD, rng.below(256)]), A, B, t, "hist " + shapes[k % len(shapes)] + ("+B" if two else "")))
    bad = [mk_hist(1, 0, 0, 0, 0, [0] * 12, [], {}, "malformed"), mk_hist(2, 0, 0, 0, 0, [0] * 13, [], {}, "malformed"),
           mk_hist(1, 0, 0, 0, 256, [0] * 13, [], {}, "malformed"), mk_hist(1, 0, 0, 0, 0, [0] * 13 + [256], [], {}, "malformed"),
           mk_hist(1, 0, 0, 0, 0, [0] * 13, [0] * 5, {}, "malformed"), mk_hist(3, 0, 0, 0, 0, [0] * 13, [], {}, "malformed")]
    return cases + bad


def _parse_payload(pay):
    """(kind, l, value octets, octets up to the end of the IE)"""
    off = 0
    if pay and pay[0] == IE_CD:
        if len(pay) < 4:
            return "cut", None, None, None
        off = 4
    rem = pay[off:]
    if rem and rem[0] == IE_MA:
        if len(rem) < 2 or len(rem) < 2 + rem[1]:
            return "cut", None, None, None
        return "ie", rem[1], rem[2:2 + rem[1]], off + 2 + rem[1]
    return "none", None, None, off


def hist_spec(c):
    """the statement on a history: (class, expectation or None).  After SI1 and an SI4 whose CBCH Mobile Allocation IE is complete (and
    inside the 23 octets of a BCCH block) the list / hopp_len / flags are the specified ones - whatever the order of arrival."""
    def listed(l, v):
        e = spec(dict(c, si4=1, len=l, ma=v, kind="hist"))
        return (e[1], e[0][2 + 64:])          # (list, flag changes relative to the table of SI1)
    kA = _parse_payload(c["A"][13:])
    rcA = -5 if kA[0] == "cut" else 0
    if not c["B"]:
        if kA[0] == "cut":
            return "cut", dict(rc=[-5], si4=0, state="untouched")
        if kA[0] == "none":
            return "no-ie", dict(rc=[0], si4=1, state="untouched")
        _, l, v, end = kA
        if 13 + end > 23:
            # as it is (c20_hist_order_long_refuted): the stored copy is cut inside the IE
            return "long-ie-cut", dict(rc=[0], si4=1, state=("untouched" if c["pos"] == 1 or l > 8 else listed(l, v)))
        if l > 8:
            return "ie-9+", dict(rc=[0], si4=1, state="untouched")
        return "ie", dict(rc=[0], si4=1, state=listed(l, v))
    kB = _parse_payload(c["B"][13:])
    if kB[0] == "ie" and kB[1] <= 8 and 13 + kB[3] <= 23:
        return "two-B-ie", dict(rc=[rcA, 0], si4=1, state=listed(kB[1], kB[2]))
    return "two-other", None


def run_callers(ctx, replay_case):
    import hashlib
    binp = _SI4["bin"]
    ctx.extra["si4_function_sha256"] = _SI4["si4_sha"]
    ctx.extra["render_function_sha256"] = _SI4["render_sha"]
    if _SI4["si4_sha"] != REVIEWED_SI4_SHA256:
        ctx.note("source of gsm48_decode_sysinfo4 changed since the caller model was reviewed (the correspondence decides)")
    if _SI4["render_sha"] and _SI4["render_sha"] != REVIEWED_RENDER_SHA256:
        ctx.note("source of gsm48_rr_render_ma changed since the caller model was reviewed (the correspondence decides)")
    rng = ctx.rng.fork("callers")
    quick = ctx.tier == "quick"
    if replay_case is not None:
        path = replay_case.get("path", "decoder")
        si4c = [caller_of_line("si4", replay_case["line"], replay_case.get("kind", "replay"))] if path == "si4" else []
        renc = [caller_of_line("render", replay_case["line"], replay_case.get("kind", "replay"))] if path == "render" else []
    else:
        si4c = gen_si4_cases(rng, 4 if quick else 30, 400 if quick else 5000)
        renc = gen_render_cases(rng, 300 if quick else 3000, _SI4["lv"]) if _SI4["render"] else []
    fails = {}

    def fail(what, case, key, expected=None, observed=None):
        fails.setdefault(key, []).append((what, case, expected, observed))

    # ---- SI4
    lines = [line_of_caller(c) for c in si4c]
    impl, report = run_impl(binp, lines, args=("si4",))
    idx = list(range(len(si4c)))
    ctx.correspond("si4-cbch-mobile-alloc", "MobAlloc", idx, lambda k: "w_c20_si4 " + lines[k], lambda k: impl[k], show=lambda k: show_caller(si4c[k]))
    for k, c in enumerate(si4c):
        o = impl[k]
        ctx.count("si4:" + c["kind"].split(" ")[0])
        if c["kind"] == "malformed":
            if o != [-999]:
                fail("SI4 harness accepted a malformed line", show_caller(c), key="c20-harness-malformed", expected=[-999], observed=o)
            continue
        (cls, cdk, lo), exp = si4_spec(c)
        if o and o[0] in CODES:
            case = dict(show_caller(c), sanitizer=report.get(k, ""))
            if cls == "cut-after-tag":
                fail("gsm48_decode_sysinfo4 reads the length octet of the CBCH Mobile Allocation IE behind the end of the message: " + CODES[o[0]],
                     case, key=TAG_LAST_KEY, expected=exp[:10], observed=o)
            elif cls == "cut-in-ie":
                fail("gsm48_decode_sysinfo4 hands the decoder a CBCH Mobile Allocation that ends behind the message (announced %d octets, %d present): %s"
                     % (lo, len(c["pay"]) - (4 if cdk != "none" else 0) - 2, CODES[o[0]]), case, key="c20-si4-ma-overread", expected=exp[:10], observed=o)
            else:
                fail("gsm48_decode_sysinfo4: " + CODES[o[0]], case, key="c20-si4-memory", expected=exp[:10], observed=o)
            ctx.nontrivial(("si4-crash", cls, cdk))
            continue
        if o != exp:
            if cls.startswith("cut") and (o[:3] != exp[:3] or o[9:] != exp[9:]):
                key, what = "c20-si4-short-read-accepted", "a SYSTEM INFORMATION 4 cut inside the %s is not refused with -EIO / changes the hopping list" % (
                    "CBCH Channel Description" if cls == "cut-in-cd" else "CBCH Mobile Allocation IE")
            elif o[:1] != exp[:1]:
                key, what = "c20-si4-return-code", "gsm48_decode_sysinfo4 return code"
            elif o[3:9] != exp[3:9]:
                key, what = "c20-si4-chan-desc", "CBCH channel description members deviate from 44.018 10.5.2.5"
            elif o[9:] != exp[9:] and not c["si1"]:
                key, what = "c20-si4-before-si1", "CBCH Mobile Allocation not ignored before SI1"
            elif o[9:10 + 64] != exp[9:10 + 64]:
                key, what = "c20-si4-hopping-list", "hopping list stored by SI4 deviates from 44.018 10.5.2.21 on the IE value octets"
            elif o[10 + 64:] != exp[10 + 64:]:
                key, what = "c20-si4-hopp-flags", "FREQ_TYPE_HOPP flags after SI4"
            else:
                key, what = "c20-si4-consumed", "octets consumed before the SI4 rest octets"
            fail(what, show_caller(c), key=key, expected=exp[:10 + 8], observed=o[:10 + 8])
        ctx.nontrivial(("si4", cls, cdk, min(lo, 10) if lo is not None else None, bool(c["si1"]), exp[1] >= 0))
    # ---- gsm48_rr_render_ma
    if renc:
        rl = [line_of_caller(c) for c in renc]
        rimpl, rreport = run_impl(binp, rl, args=("render",))
        ridx = list(range(len(renc)))
        ctx.correspond("render-ma-assignment", "MobAlloc", ridx, lambda k: "w_c20_render " + rl[k], lambda k: rimpl[k], show=lambda k: show_caller(renc[k]))
        for k, c in enumerate(renc):
            o = rimpl[k]
            cls, exp = render_spec_py(c)
            ctx.count("render:l%s" % (c["lv"][0] if c["lv"][0] <= 8 else ">8"))
            if exp is None:
                fail("mob_alloc_lv holds %d bitmap octets, the length octet %d is accepted by the decoder: it reads behind the array"
                     % (len(c["lv"]) - 1, c["lv"][0]), show_caller(c), key="c20-render-array-short", observed=o[:10])
                continue
            if o and o[0] in CODES:
                fail("gsm48_rr_render_ma: " + CODES[o[0]], dict(show_caller(c), sanitizer=rreport.get(k, "")), key="c20-render-memory", expected=exp[:10], observed=o)
                continue
            if o != exp:
                key = "c20-render-cause" if o[:1] != exp[:1] else "c20-render-list" if o[:2 + 64] != exp[:2 + 64] else "c20-render-flags"
                fail("gsm48_rr_render_ma (mobile allocation) deviates from 44.018 10.5.2.21", show_caller(c), key=key, expected=exp[:10], observed=o[:10])
            ctx.nontrivial(("render",) + cls)
    elif replay_case is None:
        ctx.count("render:not-executed")
    # ---- gsm48_rr_render_ma with the Cell Channel Description (real gsm48_decode_freq_list)
    if replay_case is not None:
        cc = [rendercd_of_line(replay_case["line"], replay_case.get("kind", "replay"))] if replay_case.get("path") == "rendercd" else []
    else:
        cc = gen_rendercd_cases(rng, 700 if quick else 7000) if _SI4.get("freqlist") else []
    if cc:
        # the formats the model does not decode: the set the REAL decoder flags is the model's explicit argument
        need = [k for k, c in enumerate(cc) if c["kind"] != "malformed" and c["cdlv"][0] == 16 and c["cdlv"][1] >= 64 and not c.get("other_fixed")]
        fl, frep = run_impl(binp, [" ".join(map(str, [len(cc[k]["cdlv"])] + cc[k]["cdlv"])) for k in need], args=("freqlist",))
        for k, o in zip(need, fl):
            cc[k]["other"] = o[1:] if o and o[0] not in CODES and o != [-999] else []
            if o and o[0] in CODES:
                fail("gsm48_decode_freq_list: " + CODES[o[0]], show_rendercd(cc[k]), key="c20-render-cell-desc-memory", observed=o)
        cl = [line_of_rendercd(c) for c in cc]
        cimpl, creport = run_impl(binp, cl, args=("rendercd",))
        cidx = list(range(len(cc)))
        ctx.correspond("render-ma-cell-desc", "MobAlloc", cidx, lambda k: "w_c20_rendercd " + cl[k], lambda k: cimpl[k], show=lambda k: show_rendercd(cc[k]))
        for k, c in enumerate(cc):
            o = cimpl[k]
            if c["kind"] == "malformed":
                if o != [-999]:
                    fail("rendercd harness accepted a malformed line", show_rendercd(c), key="c20-harness-malformed", expected=[-999], observed=o)
                continue
            cls, exp = rendercd_spec_py(c)
            ctx.count("rendercd:" + cls)
            if o and o[0] in CODES:
                fail("gsm48_rr_render_ma / gsm48_decode_freq_list: " + CODES[o[0]], dict(show_rendercd(c), sanitizer=creport.get(k, "")),
                     key="c20-render-cell-desc-memory", expected=exp[:10], observed=o)
                continue
            if o != exp:
                if o[:1] != exp[:1]:
                    key, what = "c20-render-cell-desc-cause", "gsm48_rr_render_ma: cause / acceptance against the length octet of the Cell Channel Description"
                elif o[:2 + 64] != exp[:2 + 64]:
                    key, what = "c20-render-cell-desc-list", ("gsm48_rr_render_ma: the hopping list handed to L1 is not the Mobile Allocation applied to the cell "
                                                              "allocation in force (Cell Channel Description of the assignment: %s)" % cls)
                else:
                    key, what = "c20-render-cell-desc-table", "gsm48_rr_render_ma: FREQ_TYPE_SERV flags after the Cell Channel Description"
                fail(what, show_rendercd(c), key=key, expected=exp[:12], observed=o[:12])
            ctx.nontrivial(("rendercd", cls, c["lv"][0], c["cdlv"][0], c["cdlv"][1] == 0, exp[1] == 0))
    elif replay_case is None:
        ctx.count("rendercd:not-executed")
    # ---- the final loop of gsm48_rr_render_ma: PCS flag and band support (real gsm_refer_pcs / arfcn2index)
    if replay_case is not None:
        bc = [band_of_line(replay_case["line"], replay_case.get("kind", "replay"))] if replay_case.get("path") == "renderband" else []
    else:
        bc = gen_band_cases(rng, 500 if quick else 5000) if _SI4.get("freqlist") else []
    if bc:
        bl = [line_of_band(c) for c in bc]
        bimpl, breport = run_impl(binp, bl, args=("renderband",))
        bidx_ = list(range(len(bc)))
        ctx.correspond("render-ma-band-loop", "MobAlloc", bidx_, lambda k: "w_c20_renderband " + bl[k], lambda k: bimpl[k], show=lambda k: show_band(bc[k]))
        for k, c in enumerate(bc):
            o = bimpl[k]
            cls, exp = band_spec_py(c)
            ctx.count("band:" + cls)
            if o and o[0] in CODES:
                fail("gsm48_rr_render_ma (band conversion loop): " + CODES[o[0]], dict(show_band(c), sanitizer=breport.get(k, "")),
                     key="c20-render-band-memory", expected=exp[:10], observed=o)
                continue
            if o != exp:
                if [x & 1023 for x in o[2:2 + 64]] != [x & 1023 for x in exp[2:2 + 64]] or o[1] != exp[1]:
                    key, what = "c20-render-band-numbers", "gsm48_rr_render_ma: the channel numbers handed to L1 are not the decoded list"
                elif o[2:2 + 64] != exp[2:2 + 64]:
                    key, what = "c20-render-band-pcs-flag", ("gsm48_rr_render_ma: ARFCN_PCS must mark exactly the channels 512..810 of a cell that refers to PCS 1900 "
                                                             "(serving cell %s)" % ("PCS" if c["pcs"] else "not PCS"))
                elif o[:1] != exp[:1]:
                    key, what = "c20-render-band-support", "gsm48_rr_render_ma: refusal (FREQ_NOT_IMPL) against the support bits of the channels' bands"
                else:
                    key, what = "c20-render-band-table", "gsm48_rr_render_ma: frequency table after the call"
                fail(what, show_band(c), key=key, expected=exp[:12], observed=o[:12])
            ctx.nontrivial(("band", cls, c["pcs"], exp[0], tuple(a in c["table"] for a in (512, 809, 810, 811))))
    elif replay_case is None:
        ctx.count("band:not-executed")
    # ---- IMMEDIATE ASSIGNMENT / IMMEDIATE ASSIGNMENT EXTENDED: message -> cd_now.mob_alloc_lv -> list at the L1 boundary
    if replay_case is not None:
        ac = [assign_of_line(replay_case["line"], replay_case.get("kind", "replay"))] if replay_case.get("path") == "assign" else []
    else:
        ac = gen_assign_cases(rng, 1200 if quick else 12000) if _SI4.get("assign") else []
    if ac:
        al = [line_of_assign(c) for c in ac]
        aimpl, areport = run_impl(binp, al, args=("assign",))
        aidx = list(range(len(ac)))
        ctx.correspond("imm-ass-mob-alloc", "MobAlloc", aidx, lambda k: "w_c20_assign " + al[k], lambda k: aimpl[k], show=lambda k: show_assign(ac[k]))
        for k, c in enumerate(ac):
            o = aimpl[k]
            if c["kind"] == "malformed":
                if o != [-999]:
                    fail("assignment harness accepted a malformed line", show_assign(c), key="c20-harness-malformed", expected=[-999], observed=o)
                continue
            cls, exp = assign_spec_py(c)
            ctx.count("assign:" + cls)
            if o and o[0] in CODES:
                fail("%s handler / gsm48_rr_render_ma: %s" % (c["msg"], CODES[o[0]]), dict(show_assign(c), sanitizer=areport.get(k, "")),
                     key="c20-assign-memory", expected=exp[:11], observed=o)
                continue
            if o != exp:
                if o[:2] != exp[:2]:
                    key, what = "c20-assign-guard", "%s: accepted / refused against the length octet of the Mobile Allocation" % c["msg"]
                elif o[2:11] != exp[2:11]:
                    key, what = "c20-assign-mob-alloc-copy", ("%s (%s): cd_now.mob_alloc_lv is not the length octet + the value octets of the "
                                                              "Mobile Allocation in the message" % (c["msg"], c["ref"]))
                else:
                    key, what = "c20-assign-list", ("%s (%s): the hopping list handed to L1 is not the one specified by the Mobile Allocation in "
                                                    "the message and the cell allocation" % (c["msg"], c["ref"]))
                fail(what, show_assign(c), key=key, expected=exp[:11 + 10], observed=o[:11 + 10])
            ctx.nontrivial(("assign", cls, c["limit"], c["ours"], c["h"], c["tl"][0] if c["tl"] else None))
    elif replay_case is None:
        ctx.count("assign:not-executed")
    # ---- histories of SI4 and SI1
    if replay_case is not None:
        hc = [hist_of_line(replay_case["line"], replay_case.get("kind", "replay"))] if replay_case.get("path") == "hist" else []
    else:
        hc = gen_hist_cases(rng, 1500 if quick else 16000)
    hl = [line_of_hist(c) for c in hc]
    himpl, hreport = run_impl(binp, hl, args=("hist",))
    hidx = list(range(len(hc)))
    ctx.correspond("si4-si1-history", "MobAlloc", hidx, lambda k: "w_c20_hist " + hl[k], lambda k: himpl[k], show=lambda k: show_hist(hc[k]))
    asis = 0
    for k, c in enumerate(hc):
        o = himpl[k]
        if c["kind"] == "malformed":
            if o != [-999]:
                fail("history harness accepted a malformed line", show_hist(c), key="c20-harness-malformed", expected=[-999], observed=o)
            continue
        cls, e = hist_spec(c)
        ctx.count("hist:" + cls)
        if o and o[0] in CODES:
            fail("gsm48_decode_sysinfo4 / gsm48_decode_sysinfo1 (re-decode of the stored SI4): " + CODES[o[0]],
                 dict(show_hist(c), sanitizer=hreport.get(k, "")), key="c20-hist-memory", observed=o)
            continue
        if cls == "long-ie-cut":
            asis += 1
        if e is not None:
            nr = 2 if c["B"] else 1
            rcs, si1, si4, hlen = o[:nr], o[nr], o[nr + 1], o[nr + 8]
            hop, diffs = o[nr + 9:nr + 9 + 64], o[nr + 9 + 64 + 23:]
            hop0 = [(c["hfill"] + j) % 65536 for j in range(64)]
            if e["state"] == "untouched":
                want = (e["rc"], 1, e["si4"], c["hl0"], hop0, [])
                got = (rcs, si1, si4, hlen, hop, diffs)
            else:
                sel, fl = e["state"]
                want = (e["rc"], 1, e["si4"], len(sel), sel, fl)
                got = (rcs, si1, si4, hlen, hop[:len(sel)], diffs)
            if got != want:
                if cls == "long-ie-cut":
                    key, what = "c20-hist-long-message", "SI4 longer than si4_msg: behaviour differs from c20_hist_order_long_refuted"
                else:
                    key, what = "c20-si4-si1-order", ("after SI1 and SYSTEM INFORMATION 4 (%s) the hopping list / hopp_len / HOPP flags are not the ones "
                                                      "specified by the CBCH Mobile Allocation and the cell allocation" % c["order"])
                fail(what, show_hist(c), key=key, expected=[list(x) if isinstance(x, (list, tuple)) else x for x in want][:5],
                     observed=[list(x) if isinstance(x, (list, tuple)) else x for x in got][:5])
        ctx.nontrivial(("hist", cls, c["pos"], bool(c["B"]), len(c["A"]) <= 23, e["si4"] if e else None))
    if asis:
        ctx.note("%d generated histories carry an SI4 whose CBCH Mobile Allocation IE ends behind octet 23: order dependent exactly as stated by "
                 "c20_hist_order_long_refuted (BCCH blocks have 23 octets; not counted as a violation)" % asis)
    ctx.extra["hist_sanitizer_reports_first"] = [hreport[k] for k in sorted(hreport)[:3]]
    for r in range(8):
        for key in sorted(fails):
            if r < len(fails[key]):
                what, case, exp, obs = fails[key][r]
                ctx.oracle_fail(what, case, key=key, expected=exp, observed=obs)
    for key in fails:
        if len(fails[key]) > 8:
            ctx.count("oracle_fail:" + key, len(fails[key]) - 8)
    for k in range(0, len(si4c), max(1, len(si4c) // 3)):
        ctx.sample(dict(case=show_caller(si4c[k]), impl=impl[k][:12]), limit=10)
    ctx.extra["si4_sanitizer_reports_first"] = [report[k] for k in sorted(report)[:3]]


def run_composer(ctx, binp, rng):
    """the consumer at the far end (trx_if.c is anchored in C20): the list the REAL decoder produces is handed, in hopping order, to
    trxcon's REAL SETFH composer (trx_if_cmd_setfh, ASan/UBSan harness of C05/C14) - the command must carry exactly the decoded
    list or be refused with nothing sent; in particular 63 / 64 channels whose frequencies need the most characters (DCS band)"""
    from .. import trxif_util as TI
    TI.build_harness(ctx)
    cases = []
    bands = [("p900", list(range(1, 125))), ("dcs", list(range(512, 886))), ("egsm0", [0] + list(range(975, 1024))), ("dcs-high", list(range(822, 886))),
             ("pcs", list(range(512, 811)))]      # a PCS 1900 cell: the renderer (gsm48_rr_render_ma, band indicator 1900) hands the decoded channels on with ARFCN_PCS set
    for name, pool in bands:
        for size in (1, 2, 17, 50, 61, 62, 63, 64):
            if size > len(pool):
                continue
            for bm in ("ones", "drop-one", "random"):
                p = list(pool)
                rng.shuffle(p)
                ca = sorted(p[:size], key=lambda a: (a == 0, a))
                nbits = len(ca)
                length = (nbits + 7) // 8
                bits = [1] * nbits
                if bm == "drop-one":
                    bits[rng.below(nbits)] = 0
                elif bm == "random":
                    bits = [1 if rng.chance(3, 4) else 0 for _ in range(nbits)]
                ma = [0] * length
                for i, b in enumerate(bits):
                    if b:
                        ma[length - 1 - i // 8] |= 1 << (i % 8)
                cases.append(mk_case(0, length, 0, 0, 0, ma, {a: 1 for a in ca}, "composer %s %d %s" % (name, size, bm)))
    if ctx.tier == "quick":
        cases = [c for k, c in enumerate(cases) if c["kind"].split(" ")[2] in ("61", "62", "63", "64", "1") or k % 3 == 0]
    lines = [line_of(c) for c in cases]
    impl, _ = run_impl(binp, lines)
    res = {}
    for c, o in zip(cases, impl):
        e = spec(c)
        if not o or o[0] != 0 or isinstance(e, list) or e is None:
            continue
        hopping = o[2:2 + o[1]]
        if hopping != e[1]:
            continue          # the decoder itself deviates: reported by the decoder oracle above
        if c["kind"].split(" ")[1] == "pcs":
            hopping = [a | 0x8000 for a in hopping]       # what the renderer passes on for a PCS 1900 cell (proved + tied: renderband)
        r = TI.setfh_spec_check(ctx, rng.below(64), rng.below(64), hopping, "c20", extra=dict(path="composer", kind=c["kind"], decoder_case=show(c)["line"]))
        res[r] = res.get(r, 0) + 1
        ctx.nontrivial(("composer", c["kind"].split(" ")[1], min(len(hopping), 65), r))
        ctx.evaluations += 1
    for r, n in res.items():
        ctx.count("composer:" + r, n)
    # and the composer itself against its Coq model (Model/TrxIf.v c_phyif_cmd, the function theorem c20_setfh_carries_exactly_the_list is about)
    pc = [("setfreq_h1", rng.below(64), rng.below(64), list(o[2:2 + o[1]])) for c, o in zip(cases, impl) if o and o[0] == 0 and 0 < o[1] <= 64]
    pobs = [TI.parse_cmd_obs(t) for t in TI.run_lines([TI.cmd_line(c) for c in pc])]
    ctx.correspond("trx_if_cmd_setfh", "TrxIf", list(range(len(pc))), lambda j: TI.m_cmd_line(pc[j]), lambda j: TI.cmd_wire(pobs[j]), show=lambda j: (pc[j][1], pc[j][2], len(pc[j][3]), pc[j][3][:4]))


def run(ctx):
    binp, consts = gen(ctx)
    import hashlib
    h = hashlib.sha256(extract_sources().rstrip("\n").encode()).hexdigest()
    ctx.extra["function_sha256"] = h
    if h != REVIEWED_FN_SHA256:
        ctx.note("source of gsm48_decode_mobile_alloc changed since the model was reviewed (the correspondence decides)")
    ctx.prove()
    if ctx.tier == "thorough":
        ctx.coqchk()
    rng = ctx.rng
    replay_case = None
    if ctx.replay:
        with open(ctx.replay) as f:
            replay_case = json.load(f)["case"]
    if replay_case is not None and replay_case.get("path", "decoder") != "decoder":
        cases = []
    elif replay_case is not None:
        rc = replay_case
        t = {}
        a = [int(x) for x in rc["line"].split()]
        nma = a[5]
        rest = a[6 + nma:]
        for i in range(0, len(rest) - 1, 2):
            t[rest[i]] = rest[i + 1]
        cases = [mk_case(a[0], a[1], a[2], a[3], a[4], a[6:6 + nma], t, rc.get("kind", "replay"))]
    else:
        cases = gen_cases(rng, 2500 if ctx.tier == "quick" else 60000)
    lines = [line_of(c) for c in cases]
    impl, report = run_impl(binp, lines)
    idx = list(range(len(cases)))
    ctx.correspond("mobile-alloc", "MobAlloc", idx, lambda k: "w_c20_decode " + lines[k], lambda k: impl[k], show=lambda k: show(cases[k]))
    # the Coq specification (spec_hopping) against the Python oracle below, so that the oracle is the theorem's spec
    # (the literal specification walks the table by index for each of the 1024 ARFCNs: ~30 ms per case, so a sample)
    sp = [k for k in idx if 0 <= cases[k]["len"] <= 8 and len(cases[k]["ma"]) >= cases[k]["len"] and cases[k]["kind"] != "malformed"]
    sp = sp[::max(1, len(sp) // (150 if ctx.tier == "quick" else 1500))]
    spec_py = {}
    for k in sp:
        spec_py[k] = spec(cases[k])[1]
    ctx.correspond("spec-vs-python-oracle", "MobAlloc", sp, lambda k: "w_c20_spec " + lines[k], lambda k: spec_py[k], show=lambda k: show(cases[k]))

    # implementation-level oracle: the property stated on the observations of the real function
    first_report = report
    fails = {}

    def fail(what, case, key, expected=None, observed=None):
        fails.setdefault(key, []).append((what, case, expected, observed))

    for k, c in enumerate(cases):
        o = impl[k]
        e = spec(c)
        ctx.count("len:%s" % (c["len"] if c["len"] <= 9 else ">9"))
        ctx.count("kind:" + c["kind"])
        if e is None:
            ctx.nontrivial(("short", c["len"], o[0] if o else None))
            continue
        if c["kind"] == "malformed":
            if o != [-999]:
                fail("harness accepted a malformed line", show(c), key="c20-harness-malformed", expected=[-999], observed=o)
            continue
        exp, sel, ca = (e, None, None) if isinstance(e, list) else e
        if o and o[0] in CODES:
            if c["len"] == 0:
                fail("gsm48_decode_mobile_alloc(len = 0): " + CODES[o[0]] + " (zero-length VLA / write beyond the local array)",
                     dict(show(c), sanitizer=first_report.get(k, "")), key=LEN0_KEY, expected=exp, observed=o)
                ctx.nontrivial(("len0-crash", o[0], min(len(ca), 2)))
            else:
                fail("gsm48_decode_mobile_alloc: " + CODES[o[0]], dict(show(c), sanitizer=first_report.get(k, "")),
                                key="c20-memory-len%s" % ("1-8" if c["len"] <= 8 else ">8"), expected=exp, observed=o)
            continue
        if o != exp:
            if c["len"] == 0:
                key = LEN0_KEY
            elif c["len"] > 8:
                key = "c20-long-not-rejected"
            elif o[0] != exp[0]:
                key = "c20-return-code"
            elif o[:2 + 64] != exp[:2 + 64]:
                key = "c20-hopping-list"
            else:
                key = "c20-hopp-flags"
            fail("gsm48_decode_mobile_alloc deviates from 44.018 10.5.2.21", show(c), key=key, expected=exp, observed=o)
        if c["len"] > 8:
            ctx.nontrivial(("long", min(c["len"], 10)))
        else:
            n = len(sel)
            # also the direct bounds of the statement
            if n > 64 or len(set(sel)) != n or any(a not in ca for a in sel):
                fail("hopping list not a duplicate-free subset of the cell allocation of at most 64 entries", show(c), key="c20-subset-bound")
            cutoff = any((c["ma"][c["len"] - 1 - i // 8] >> (i % 8)) & 1 for i in range(len(ca), 8 * c["len"])) if c["len"] else False
            ctx.nontrivial((c["len"], min(len(ca), 65), 0 in ca, 0 in sel, n == 0, n == 64, cutoff, c["si4"] != 0))
    # report every failure class: round-robin over the keys, at most 8 recorded inputs per key, all of them counted
    for r in range(8):
        for key in sorted(fails):
            if r < len(fails[key]):
                what, case, exp, obs = fails[key][r]
                ctx.oracle_fail(what, case, key=key, expected=exp, observed=obs)
    for key in fails:
        if len(fails[key]) > 8:
            ctx.count("oracle_fail:" + key, len(fails[key]) - 8)
    for k in range(0, len(cases), max(1, len(cases) // 6)):
        ctx.sample(dict(case=show(cases[k]), impl=impl[k][:12]))
    ctx.extra["sanitizer_reports_first"] = [first_report[k] for k in sorted(first_report)[:3]]
    run_callers(ctx, replay_case)
    if replay_case is None or replay_case.get("path") == "composer":
        run_composer(ctx, binp, rng)
    ctx.extra["rule"] = ("grid of lengths 0..9 x cell-allocation sizes {0,1,2,3,7,8,9,15,16,17,31,32,33,63,64,65,66,100,200,1023} x with/without ARFCN 0, "
                         "then random (lengths up to 255); bitmaps random / all ones / single bit / bits beyond the cell allocation / exactly the allocation / zero; "
                         "si4 in {0,1,2,-1}; stale HOPP and other flag bits in the table; short and over-long IE buffers; malformed wire lines; "
                         "distinct_nontrivial = distinct (len, min(|CA|,65), ARFCN 0 in CA, ARFCN 0 selected, empty, full 64, cut by a bit beyond CA, si4) classes; "
                         "callers: SI4 payloads = [CBCH channel description (H=0 / H=1) or none] + CBCH mobile allocation IE with every length octet 0..10 "
                         "(bitmap kinds as above) + 0..3 rest octets, cut at EVERY position 0..end, SI1 received / not, previous list of 0/3/64/200 entries and "
                         "stale HOPP flags, plus a hostile stream of random short payloads built from the two tags, length octets and noise; the message is an "
                         "exact-size heap block (ASan redzone behind its last octet); gsm48_rr_render_ma: mob_alloc_lv with length octet 1..8 (and 9..255 with "
                         "a previous ma_len <= 64) x the bitmap kinds; histories [SI1, A], [A, SI1], [SI1, A, B], [A, SI1, B], [A, B, SI1] of SI4 messages "
                         "(23-octet BCCH shape / shorter / longer than si4_msg, also with the IE starting in the last octets of the stored copy / cut / without IE / noise, arbitrary fixed part) and one SI1 (cell allocation "
                         "installed by the stubbed decode_freq_list) on one struct with si4_msg pre-filled (0, 0x2b, 0x72, 0x64, random) and its "
                         "successor member poisoned; gsm48_rr_render_ma with cell_desc_lv: absent (also with old value octets behind a zero length), length 16 bit map 0 "
                         "(random subsets of 1..124, with and without 121..124, first octet 0x00, spare bits), wrong lengths (1, 15, 17, 255, random), range / "
                         "variable-bit-map formats (the set flagged by the real gsm48_decode_freq_list handed to the model), serving allocation competing inside 1..124; "
                         "band loop: serving cell PCS / not PCS x allocations with the boundary channels 512, 809, 810, 811 and every band's edge ARFCNs x freq_map all "
                         "supported / one selected channel's bit cleared / no PCS / no DCS / random / only the selected ones; "
                         "IMMEDIATE ASSIGNMENT / IMMEDIATE ASSIGNMENT EXTENDED messages (our request reference none / 1 / 2, hopping and "
                         "non-hopping channel descriptions, Mobile Allocation length 0..limit with bits forced into the first and the last octet, lengths the guards "
                         "must refuse, IE cut short, no length octet, starting-time IE or noise behind) through the real handlers up to the L1 boundary; caller classes = (path, channel description, length octet, complete / cut in IE / "
                         "cut after tag / cut in channel description / no IE, SI1, list empty / full)")
