"""C20 - Mobile Allocation decoding (gsm48_decode_mobile_alloc, layer23 sysinfo.c).
Model: Model/MobAlloc.v; theorems: Props/C20.v.
Tie: Gen/MobAllocConst.v (FREQ_TYPE_SERV/HOPP, freq[]/hopping[] bounds from sysinfo.h, EINVAL, sizeof(struct gsm_sysinfo_freq),
the bound of the function's local array f - all as compiled) + correspondence of the extracted model with the textually
extracted real function, compiled with ASan + UBSan (vla-bound on), one forked child per input so that a sanitizer abort is
attributed to its input.  The former defect (len = 0: zero-length VLA + stack overflow, fixed in /repo 1f7898e) stays in the
oracle under its key: a sanitizer report or a wrong result at len = 0 is reported as c20-len0-vla-overflow."""
import json
import os
import re
import subprocess

from .. import common
from ..common import REPO, LIBOSMO, ROOT, WORK

SYSINFO_C = "src/host/layer23/src/common/sysinfo.c"
SYSINFO_H = "src/host/layer23/include/osmocom/bb/common/sysinfo.h"
LEN0_KEY = "c20-len0-vla-overflow"
# sha256 of the text of gsm48_decode_mobile_alloc the model was written against (a change is a note, never an alarm)
REVIEWED_FN_SHA256 = "7cf774ea26ea9c9e037655bcb1fd1a635d1be7f5dcfbe42c3b67f74f33acd5c3"
CODES = {-997: "UBSan vla-bound (zero-length VLA)", -998: "ASan/UBSan memory error", -996: "abnormal end"}


# ------------------------------------------------------------------ build

def extract_sources():
    """textual extraction: the function, the FREQ_TYPE_* #defines, the array bounds of struct gsm48_sysinfo"""
    d = os.path.join(WORK, "c")
    os.makedirs(d, exist_ok=True)
    fn = common.c_function_text(os.path.join(REPO, SYSINFO_C), "gsm48_decode_mobile_alloc")
    common.write_if_changed(os.path.join(d, "c20_fn.inc"), fn + "\n")
    with open(os.path.join(REPO, SYSINFO_H)) as f:
        h = f.read()
    defs = re.findall(r"^[ \t]*#[ \t]*define[ \t]+FREQ_TYPE_\w+[ \t]+[^\n]*$", h, re.M)
    if not any("FREQ_TYPE_SERV" in x for x in defs) or not any("FREQ_TYPE_HOPP" in x for x in defs):
        raise RuntimeError("FREQ_TYPE_SERV / FREQ_TYPE_HOPP not found in " + SYSINFO_H)
    m1 = re.search(r"struct\s+gsm_sysinfo_freq\s+freq\s*\[\s*([^\]]+)\]\s*;", h)
    m2 = re.search(r"uint16_t\s+hopping\s*\[\s*([^\]]+)\]\s*;", h)
    if not m1 or not m2:
        raise RuntimeError("freq[] / hopping[] members not found in " + SYSINFO_H)
    # the local array of the function: its bound as written, if it is an integer constant expression (else 0: a VLA)
    m3 = re.search(r"uint16_t\s+f\s*\[([^\]]*)\]\s*;", fn)
    fb = m3.group(1).strip() if m3 else ""
    if not fb or not re.fullmatch(r"[\s0-9xXa-fA-FuUlL<>+\-*/()]+", fb):
        fb = "0"
    txt = "/* extracted from %s */\n%s\n#define C20_FREQ_SIZE (%s)\n#define C20_HOPPING_SIZE (%s)\n#define C20_F_BOUND (%s)\n" % (
        SYSINFO_H, "\n".join(defs), m1.group(1).strip(), m2.group(1).strip(), fb)
    common.write_if_changed(os.path.join(d, "c20_defs.inc"), txt)
    return fn


def build_c(ctx):
    extract_sources()
    flags = "-I%s/include -I%s/c" % (LIBOSMO, WORK)
    src = [os.path.join(ROOT, "charness/c20.c")]
    ok, path, log = common.cc("c20", src, flags=flags)
    if not ok:
        raise RuntimeError("C20 harness does not compile:\n" + log[-3000:])
    return path


def gen(ctx):
    bins = build_c(ctx)
    out = subprocess.run([bins, "const"], stdout=subprocess.PIPE, text=True, timeout=30).stdout.split()
    serv, hopp, fsize, hsize, einval, esize, fcap = [int(x) for x in out]
    txt = common.gen_header("sysinfo.h (FREQ_TYPE_* #defines, freq[]/hopping[] array bounds, as compiled), errno.h EINVAL, "
                            "gsm48_ie.h sizeof(struct gsm_sysinfo_freq), sysinfo.c bound of the local array f in gsm48_decode_mobile_alloc (0 = not a constant)")
    txt += ("Definition c_FREQ_TYPE_SERV : Z := %d.\nDefinition c_FREQ_TYPE_HOPP : Z := %d.\n"
            "Definition c_FREQ_TABLE_SIZE : Z := %d.\nDefinition c_HOPPING_SIZE : Z := %d.\n"
            "Definition c_EINVAL : Z := %d.\nDefinition c_FREQ_ENTRY_SIZE : Z := %d.\nDefinition c_F_CAPACITY : Z := %d.\n"
            % (serv, hopp, fsize, hsize, einval, esize, fcap))
    ctx.gen("MobAllocConst", txt)
    ctx.extra["gen_constants"] = dict(FREQ_TYPE_SERV=serv, FREQ_TYPE_HOPP=hopp, freq_size=fsize, hopping_size=hsize, EINVAL=einval, f_capacity=fcap)
    return bins, dict(serv=serv, hopp=hopp, fsize=fsize, hsize=hsize, einval=einval)


# ------------------------------------------------------------------ cases

def mk_case(si4, length, hl0, hfill, bg, ma, table, kind):
    """table: dict idx -> mask (entries different from bg need not be listed, but may be)"""
    return dict(si4=si4, len=length, hl0=hl0, hfill=hfill, bg=bg, ma=list(ma), table=dict(table), kind=kind)


def line_of(c):
    a = [c["si4"], c["len"], c["hl0"], c["hfill"], c["bg"], len(c["ma"])] + c["ma"]
    for k in sorted(c["table"]):
        a += [k, c["table"][k]]
    return " ".join(map(str, a))


def show(c):
    ca = [a for a, m in enumerate(masks_of(c)) if m & 1]
    return dict(kind=c["kind"], si4=c["si4"], len=c["len"], hl0=c["hl0"], hfill=c["hfill"], bg=c["bg"], ma=c["ma"],
                cell_alloc=ca if len(ca) <= 80 else ca[:80] + ["...(%d)" % len(ca)], line=line_of(c))


def gen_cases(rng, n):
    cases = []

    def table_for(ca, bg, others):
        """cell allocation ca gets SERV + random other bits; a few non-CA entries carry stale flags"""
        t = {}
        for a in ca:
            t[a] = 1 | (rng.below(256) & 0xFE if rng.chance(1, 2) else (2 if rng.chance(1, 2) else 0))
        for _ in range(others):
            a = rng.below(1024)
            if a not in t:
                t[a] = rng.below(256) & 0xFE      # no SERV: stale HOPP / neighbour flags
        if bg & 1:
            # background is serving: listed non-CA entries are the holes
            pass
        return t

    def rand_ca(size, with0):
        pool = list(range(1, 1024))
        rng.shuffle(pool)
        ca = pool[:max(0, size - (1 if with0 else 0))]
        if with0:
            ca.append(0)
        return ca

    def bitmap(kind, length, nca):
        if length == 0:
            return []
        nb = 8 * length
        if kind == "ones":
            return [255] * length
        if kind == "zero":
            return [0] * length
        if kind == "single":
            i = rng.below(nb)
            m = [0] * length
            m[length - 1 - i // 8] = 1 << (i % 8)
            return m
        if kind == "beyond":
            # random bits below the cell allocation size, one bit at/after it, random garbage above
            m = [0] * length
            lim = min(nca, nb)
            for i in range(lim):
                if rng.chance(1, 2):
                    m[length - 1 - i // 8] |= 1 << (i % 8)
            if lim < nb:
                i = rng.range(lim, min(nb - 1, lim + 2))
                m[length - 1 - i // 8] |= 1 << (i % 8)
                for k in range(i + 1, nb):
                    if rng.chance(1, 2):
                        m[length - 1 - k // 8] |= 1 << (k % 8)
            return m
        if kind == "exact":
            # exactly the first nca bits
            m = [0] * length
            for i in range(min(nca, nb)):
                m[length - 1 - i // 8] |= 1 << (i % 8)
            return m
        return [rng.below(256) for _ in range(length)]

    sizes = [0, 1, 2, 3, 7, 8, 9, 15, 16, 17, 31, 32, 33, 63, 64, 65, 66, 100, 200, 1023]
    kinds = ["random", "ones", "single", "beyond", "exact", "zero"]
    # structured grid first: every length x a spread of sizes x with/without ARFCN 0 x bitmap kinds
    grid = []
    for length in range(0, 10):
        for size in sizes:
            for with0 in (False, True):
                if with0 and size == 0:
                    continue
                grid.append((length, size, with0))
    rng.shuffle(grid)
    k = 0
    while len(cases) < n:
        if k < len(grid):
            length, size, with0 = grid[k]
        else:
            length = rng.choice([0, 1, 1, 2, 3, 4, 5, 6, 7, 8, 8, 8, 9, rng.choice([9, 10, 16, 31, 32, 128, 255])])
            size = rng.choice(sizes + [rng.range(0, 64), rng.range(0, 64), rng.range(0, 70)])
            with0 = rng.chance(1, 2) and size > 0
        k += 1
        kind = kinds[k % len(kinds)] if rng.chance(2, 3) else "random"
        si4 = rng.choice([0, 1, 1, 1, 2, -1])
        if size == 1023 and rng.chance(1, 2):
            # background serving: the cell allocation is everything except a few holes
            holes = set(rng.below(1024) for _ in range(rng.range(0, 5)))
            if with0:
                holes.discard(0)
            else:
                holes.add(0)
            bg = 1 | (rng.below(256) & 0xFC)
            t = {a: rng.below(256) & 0xFE for a in holes}
            nca = 1024 - len(holes)
        else:
            ca = rand_ca(size, with0)
            bg = rng.choice([0, 0, 0, 2, 0x1C, 0xE2, 0xFE])
            t = table_for(ca, bg, rng.range(0, 6))
            nca = len(ca)
        ma = bitmap(kind, length, nca)
        # the IE buffer is exactly len octets, except in the "short buffer" stream (caller contract broken: tie of the checked reads only)
        if 1 <= length <= 8 and rng.chance(1, 40):
            ma = ma[:rng.range(0, length - 1)]
            kind = "short-buffer"
        elif rng.chance(1, 30):
            ma = ma + [rng.below(256) for _ in range(rng.range(1, 3))]
        cases.append(mk_case(si4, length, rng.choice([0, 1, 63, 64, 200, 255]), rng.choice([0, 7, 1000, 40000, 65500]), bg, ma, t, kind))
    # malformed lines (wire level): both sides must answer -999
    bad = [mk_case(1, 256, 0, 0, 0, [1], {5: 1}, "malformed"), mk_case(1, 1, 0, 0, 0, [256], {5: 1}, "malformed"),
           mk_case(1, 1, 0, 0, 0, [1], {5: 256}, "malformed"), mk_case(1, 1, 0, 0, 256, [1], {}, "malformed"),
           mk_case(1, 1, 0, 70000, 0, [1], {}, "malformed"), mk_case(1, 1, 0, 0, 0, [1], {1024: 1}, "malformed")]
    return cases + bad


# ------------------------------------------------------------------ the specification, in Python, on the implementation's observations

def masks_of(c, fsize=1024):
    t = [c["bg"]] * fsize
    for k, m in c["table"].items():
        if 0 <= k < fsize:
            t[k] = m
    return t

def spec(c):
    """expected observation according to the property (3GPP TS 44.018 10.5.2.21); None = outside the property's domain"""
    if c["kind"] == "malformed":
        return [-999]
    t = masks_of(c)
    length, ma = c["len"], c["ma"]
    hop0 = [(c["hfill"] + k) % 65536 for k in range(64)]
    if length > 8:
        return [-22, c["hl0"]] + hop0
    if len(ma) < length:
        return None
    ca = [a for a in range(1, 1024) if t[a] & 0x01] + ([0] if t[0] & 0x01 else [])
    sel = []
    for i in range(8 * length):
        if (ma[length - 1 - i // 8] >> (i % 8)) & 1:
            if i >= len(ca):
                break
            sel.append(ca[i])
    exp = [0, len(sel)] + sel + hop0[len(sel):]
    if c["si4"] != 0:
        for a in range(1024):
            new = (t[a] | 0x02) if a in sel else (t[a] & 0xFD)
            if new != t[a]:
                exp += [a, new]
    return exp, sel, ca


def _run_chunk(binp, lines, timeout):
    p = subprocess.run([binp], input="\n".join(lines) + "\n", stdout=subprocess.PIPE, stderr=subprocess.PIPE, text=True, timeout=timeout)
    outl = p.stdout.strip("\n").split("\n") if p.stdout.strip() else []
    if p.returncode != 0 or len(outl) != len(lines):
        raise RuntimeError("C20 harness failed (rc %d, %d of %d lines): %s" % (p.returncode, len(outl), len(lines), p.stderr[-1500:]))
    reports = {}
    for blk in p.stderr.split("case ")[1:]:
        try:
            reports[int(blk.split(":")[0]) - 1] = re.sub(r"0x[0-9a-f]+", "0x..", re.sub(r"==\d+==", "", blk.split(":", 1)[1].strip()))[:500]
        except ValueError:
            pass
    return [[int(x) for x in l.split()] for l in outl], reports


def run_impl(binp, lines, timeout=3000):
    """every line runs in its own forked child inside the harness; chunks run in parallel harness processes.
    Returns (observations, {case index: first lines of the sanitizer report})"""
    from concurrent.futures import ThreadPoolExecutor
    n = len(lines)
    step = max(50, (n + 4 * common.NPROC - 1) // (4 * common.NPROC))
    chunks = [(a, lines[a:a + step]) for a in range(0, n, step)]
    res, reports = [None] * n, {}
    with ThreadPoolExecutor(max_workers=max(1, common.NPROC - 2)) as ex:
        for (a, ch), (obs, rep) in zip(chunks, ex.map(lambda c: _run_chunk(binp, c[1], timeout), chunks)):
            res[a:a + len(ch)] = obs
            for k, v in rep.items():
                reports[a + k] = v
    return res, reports


def run(ctx):
    binp, consts = gen(ctx)
    import hashlib
    h = hashlib.sha256(extract_sources().rstrip("\n").encode()).hexdigest()
    ctx.extra["function_sha256"] = h
    if h != REVIEWED_FN_SHA256:
        ctx.note("source of gsm48_decode_mobile_alloc changed since the model was reviewed (the correspondence decides)")
    ctx.prove()
    if ctx.tier == "thorough":
        ctx.coqchk()
    rng = ctx.rng
    if ctx.replay:
        with open(ctx.replay) as f:
            rc = json.load(f)["case"]
        t = {}
        a = [int(x) for x in rc["line"].split()]
        nma = a[5]
        rest = a[6 + nma:]
        for i in range(0, len(rest) - 1, 2):
            t[rest[i]] = rest[i + 1]
        cases = [mk_case(a[0], a[1], a[2], a[3], a[4], a[6:6 + nma], t, rc.get("kind", "replay"))]
    else:
        cases = gen_cases(rng, 2500 if ctx.tier == "quick" else 60000)
    lines = [line_of(c) for c in cases]
    impl, report = run_impl(binp, lines)
    idx = list(range(len(cases)))
    ctx.correspond("mobile-alloc", "MobAlloc", idx, lambda k: "w_c20_decode " + lines[k], lambda k: impl[k], show=lambda k: show(cases[k]))
    # the Coq specification (spec_hopping) against the Python oracle below, so that the oracle is the theorem's spec
    # (the literal specification walks the table by index for each of the 1024 ARFCNs: ~30 ms per case, so a sample)
    sp = [k for k in idx if 0 <= cases[k]["len"] <= 8 and len(cases[k]["ma"]) >= cases[k]["len"] and cases[k]["kind"] != "malformed"]
    sp = sp[::max(1, len(sp) // (150 if ctx.tier == "quick" else 1500))]
    spec_py = {}
    for k in sp:
        spec_py[k] = spec(cases[k])[1]
    ctx.correspond("spec-vs-python-oracle", "MobAlloc", sp, lambda k: "w_c20_spec " + lines[k], lambda k: spec_py[k], show=lambda k: show(cases[k]))

    # implementation-level oracle: the property stated on the observations of the real function
    first_report = report
    fails = {}

    def fail(what, case, key, expected=None, observed=None):
        fails.setdefault(key, []).append((what, case, expected, observed))

    for k, c in enumerate(cases):
        o = impl[k]
        e = spec(c)
        ctx.count("len:%s" % (c["len"] if c["len"] <= 9 else ">9"))
        ctx.count("kind:" + c["kind"])
        if e is None:
            ctx.nontrivial(("short", c["len"], o[0] if o else None))
            continue
        if c["kind"] == "malformed":
            if o != [-999]:
                fail("harness accepted a malformed line", show(c), key="c20-harness-malformed", expected=[-999], observed=o)
            continue
        exp, sel, ca = (e, None, None) if isinstance(e, list) else e
        if o and o[0] in CODES:
            if c["len"] == 0:
                fail("gsm48_decode_mobile_alloc(len = 0): " + CODES[o[0]] + " (zero-length VLA / write beyond the local array)",
                     dict(show(c), sanitizer=first_report.get(k, "")), key=LEN0_KEY, expected=exp, observed=o)
                ctx.nontrivial(("len0-crash", o[0], min(len(ca), 2)))
            else:
                fail("gsm48_decode_mobile_alloc: " + CODES[o[0]], dict(show(c), sanitizer=first_report.get(k, "")),
                                key="c20-memory-len%s" % ("1-8" if c["len"] <= 8 else ">8"), expected=exp, observed=o)
            continue
        if o != exp:
            if c["len"] == 0:
                key = LEN0_KEY
            elif c["len"] > 8:
                key = "c20-long-not-rejected"
            elif o[0] != exp[0]:
                key = "c20-return-code"
            elif o[:2 + 64] != exp[:2 + 64]:
                key = "c20-hopping-list"
            else:
                key = "c20-hopp-flags"
            fail("gsm48_decode_mobile_alloc deviates from 44.018 10.5.2.21", show(c), key=key, expected=exp, observed=o)
        if c["len"] > 8:
            ctx.nontrivial(("long", min(c["len"], 10)))
        else:
            n = len(sel)
            # also the direct bounds of the statement
            if n > 64 or len(set(sel)) != n or any(a not in ca for a in sel):
                fail("hopping list not a duplicate-free subset of the cell allocation of at most 64 entries", show(c), key="c20-subset-bound")
            cutoff = any((c["ma"][c["len"] - 1 - i // 8] >> (i % 8)) & 1 for i in range(len(ca), 8 * c["len"])) if c["len"] else False
            ctx.nontrivial((c["len"], min(len(ca), 65), 0 in ca, 0 in sel, n == 0, n == 64, cutoff, c["si4"] != 0))
    # report every failure class: round-robin over the keys, at most 8 recorded inputs per key, all of them counted
    for r in range(8):
        for key in sorted(fails):
            if r < len(fails[key]):
                what, case, exp, obs = fails[key][r]
                ctx.oracle_fail(what, case, key=key, expected=exp, observed=obs)
    for key in fails:
        if len(fails[key]) > 8:
            ctx.count("oracle_fail:" + key, len(fails[key]) - 8)
    for k in range(0, len(cases), max(1, len(cases) // 6)):
        ctx.sample(dict(case=show(cases[k]), impl=impl[k][:12]))
    ctx.extra["sanitizer_reports_first"] = [first_report[k] for k in sorted(first_report)[:3]]
    ctx.extra["rule"] = ("grid of lengths 0..9 x cell-allocation sizes {0,1,2,3,7,8,9,15,16,17,31,32,33,63,64,65,66,100,200,1023} x with/without ARFCN 0, "
                         "then random (lengths up to 255); bitmaps random / all ones / single bit / bits beyond the cell allocation / exactly the allocation / zero; "
                         "si4 in {0,1,2,-1}; stale HOPP and other flag bits in the table; short and over-long IE buffers; malformed wire lines; "
                         "distinct_nontrivial = distinct (len, min(|CA|,65), ARFCN 0 in CA, ARFCN 0 selected, empty, full 64, cut by a bit beyond CA, si4) classes")
