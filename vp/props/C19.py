"""C19 - GSM time arithmetic. Models: Model/GsmTime.v (helpers), Model/GsmTimeRun.v (the firmware's running time and
every call site of the arithmetic in firmware/layer1); theorems: Props/C19.v.
Tie: Gen/GsmTimeConst.v (GSM_MAX_FN as compiled, GSM_HYPERFRAME as imported), Gen/GsmTimeSites.v (constants of
synchronize_tdma as compiled + every call-site expression translated from the current source text, fail closed) and
correspondence of the extracted model with (a) the real gsm_utils.c / l1s_time_inc / fn2gsm_time, (b) the REAL sync.c compiled
whole on the host (l1_sync, synchronize_tdma), the verbatim l1s_decode_sb and re-initialisation statements of prim_fbsb.c and
the pasted call-site expressions."""
import os
import re
import subprocess

from .. import common
from ..common import REPO, LIBOSMO, ROOT, WORK

H = 2715648
L1 = os.path.join(REPO, "src/target/firmware/layer1")
FWINC = os.path.join(REPO, "src/target/firmware/include")


def build_c(ctx):
    os.makedirs(os.path.join(WORK, "c"), exist_ok=True)
    txt = common.c_function_text(os.path.join(REPO, "src/target/firmware/layer1/sync.c"), "l1s_time_inc")
    common.write_if_changed(os.path.join(WORK, "c", "l1s_time_inc.inc"), txt + "\n")
    stubs = os.path.join(ROOT, "charness/stubs")
    ok, path, log = common.cc("c19", [os.path.join(ROOT, "charness/c19.c"), os.path.join(LIBOSMO, "src/gsm/gsm_utils.c")],
                              flags="-I%s/a/b -I%s -I%s/include -I%s/c" % (stubs, stubs, LIBOSMO, WORK))
    if not ok:
        raise RuntimeError("C19 harness does not compile:\n" + log[-3000:])
    return path


def py_hyperframe():
    common.import_toolkit()
    import gsm_shared
    return int(gsm_shared.GSM_HYPERFRAME)


# ---------------------------------------------------------------------------------------------------------------------
# call-site translator (small on purpose; every shape it does not know raises SiteError = the check fails closed)

class SiteError(Exception):
    pass


def strip_comments(src):
    """C comments and string literals blanked, every other character (and every newline) kept in place"""
    out = []
    i, n = 0, len(src)
    while i < n:
        c = src[i]
        if src.startswith("/*", i):
            j = src.find("*/", i + 2)
            j = n if j < 0 else j + 2
            out.append("".join(ch if ch == "\n" else " " for ch in src[i:j]))
            i = j
        elif src.startswith("//", i):
            j = src.find("\n", i)
            j = n if j < 0 else j
            out.append(" " * (j - i))
            i = j
        elif c == '"' or c == "'":
            j = i + 1
            while j < n and src[j] != c:
                j += 2 if src[j] == "\\" else 1
            out.append(c + " " * (j - i - 1) + c)
            i = j + 1
        else:
            out.append(c)
            i += 1
    return "".join(out)


def call_args(src, pos):
    """src[pos] == '(' -> (list of top-level argument texts, index after the closing parenthesis)"""
    depth, args, start = 0, [], pos + 1
    for j in range(pos, len(src)):
        c = src[j]
        if c in "([":
            depth += 1
        elif c in ")]":
            depth -= 1
            if depth == 0:
                args.append(src[start:j].strip())
                return args, j + 1
        elif c == "," and depth == 1:
            args.append(src[start:j].strip())
            start = j + 1
    raise SiteError("unbalanced call")


TOK = re.compile(r"\s*(?:(0[xX][0-9a-fA-F]+|\d+)([uUlL]*)|([A-Za-z_][A-Za-z_0-9]*(?:(?:\.|->)[A-Za-z_][A-Za-z_0-9]*)*)|(>=|<=|==|!=|[-+*/%()<>]))")

# C type lattice used here: 'int' (32 bit signed, only constants and promoted narrow variables), 'u32'
class Node:
    def __init__(self, coq, ty, const=None, nonneg=False):
        self.coq, self.ty, self.const, self.nonneg = coq, ty, const, nonneg


class Translator:
    """expression / statement text -> Coq term over Z; variables: name -> (coq name, C type)"""

    def __init__(self, variables, macros):
        self.vars = variables
        self.macros = macros          # callable name -> (value, ctype) or raises SiteError
        self.used_macros = {}

    def tokenize(self, text):
        toks, i = [], 0
        text = text.strip()
        while i < len(text):
            m = TOK.match(text, i)
            if not m or m.end() == i:
                raise SiteError("cannot tokenise %r at %r" % (text, text[i:i + 12]))
            if m.group(1) is not None:
                toks.append(("num", int(m.group(1), 0), m.group(2).lower()))
            elif m.group(3) is not None:
                toks.append(("id", m.group(3)))
            else:
                toks.append(("op", m.group(4)))
            i = m.end()
            while i < len(text) and text[i].isspace():
                i += 1
        return toks

    # --- typing helpers
    @staticmethod
    def lit(v):
        return str(v) if v >= 0 else "(%d)" % v

    def to_u32(self, n):
        if n.ty == "u32":
            return n
        if n.const is not None:
            v = n.const % (1 << 32)
            return Node(self.lit(v), "u32", v, True)
        if n.nonneg:
            return Node(n.coq, "u32", None, True)
        return Node("(w32 %s)" % n.coq, "u32", None, True)

    def binop(self, op, a, b):
        if a.ty == "int" and b.ty == "int":
            if a.const is None or b.const is None:
                raise SiteError("signed arithmetic on variables (%s %s %s) is not supported" % (a.coq, op, b.coq))
            if op in "/%" and b.const == 0:
                raise SiteError("division by zero")
            x, y = a.const, b.const
            q = abs(x) // abs(y) * (1 if (x < 0) == (y < 0) else -1) if op in "/%" else 0
            v = {"+": x + y, "-": x - y, "*": x * y, "/": q, "%": x - q * y if op == "%" else 0}[op]
            if not -(1 << 31) <= v < (1 << 31):
                raise SiteError("constant expression overflows int")
            return Node(self.lit(v), "int", v, v >= 0)
        a, b = self.to_u32(a), self.to_u32(b)
        if op in "+-*":
            return Node("(w32 (%s %s %s))" % (a.coq, op, b.coq), "u32", None, True)
        if b.const == 0:
            raise SiteError("division by zero")
        if b.const is None:
            raise SiteError("division by a variable is not supported")
        return Node("(%s %s %s)" % ("Z.quot" if op == "/" else "Z.rem", a.coq, b.coq), "u32", None, True)

    # --- recursive descent: expr := term (('+'|'-') term)* ; term := atom (('*'|'/'|'%') atom)*
    def parse_expr(self, toks, i):
        a, i = self.parse_term(toks, i)
        while i < len(toks) and toks[i] in (("op", "+"), ("op", "-")):
            b, j = self.parse_term(toks, i + 1)
            a, i = self.binop(toks[i][1], a, b), j
        return a, i

    def parse_term(self, toks, i):
        a, i = self.parse_atom(toks, i)
        while i < len(toks) and toks[i] in (("op", "*"), ("op", "/"), ("op", "%")):
            b, j = self.parse_atom(toks, i + 1)
            a, i = self.binop(toks[i][1], a, b), j
        return a, i

    def parse_atom(self, toks, i):
        if i >= len(toks):
            raise SiteError("unexpected end of expression")
        t = toks[i]
        if t[0] == "num":
            if "u" in t[2]:
                if t[1] >= 1 << 32:
                    raise SiteError("literal too wide")
                return Node(self.lit(t[1]), "u32", t[1], True), i + 1
            if t[1] >= 1 << 31:
                raise SiteError("literal does not fit int")
            return Node(self.lit(t[1]), "int", t[1], True), i + 1
        if t[0] == "id":
            name = t[1]
            if name in self.vars:
                coq, ty = self.vars[name]
                if ty == "u32":
                    return Node(coq, "u32", None, True), i + 1
                if ty == "u16":           # promoted to int, value 0..65535
                    return Node(coq, "int", None, True), i + 1
                if ty == "i32":
                    return Node(coq, "int", None, False), i + 1
                raise SiteError("variable type " + ty)
            val, ty = self.macros(name)
            self.used_macros[name] = val
            return Node(self.lit(val), ty, val, val >= 0), i + 1
        if t == ("op", "("):
            a, j = self.parse_expr(toks, i + 1)
            if j >= len(toks) or toks[j] != ("op", ")"):
                raise SiteError("missing )")
            return Node(a.coq, a.ty, a.const, a.nonneg), j + 1
        if t == ("op", "-"):
            a, j = self.parse_atom(toks, i + 1)
            return self.binop("-", Node("0", "int", 0, True), a), j
        raise SiteError("unexpected token %r" % (t,))

    def expr(self, text):
        toks = self.tokenize(text)
        a, i = self.parse_expr(toks, 0)
        if i != len(toks):
            raise SiteError("trailing tokens in %r" % text)
        return a

    def cond(self, text):
        toks = self.tokenize(text)
        a, i = self.parse_expr(toks, 0)
        if i >= len(toks) or toks[i][0] != "op" or toks[i][1] not in (">=", "<=", "<", ">", "==", "!="):
            raise SiteError("condition shape %r" % text)
        op = toks[i][1]
        b, j = self.parse_expr(toks, i + 1)
        if j != len(toks):
            raise SiteError("trailing tokens in condition %r" % text)
        if not (a.ty == "int" and b.ty == "int"):
            a, b = self.to_u32(a), self.to_u32(b)
        elif a.const is None or b.const is None:
            pass   # int compare of promoted values: mathematical compare is exact
        fmt = {">=": "(%s >=? %s)", "<=": "(%s <=? %s)", "<": "(%s <? %s)", ">": "(%s >? %s)", "==": "(%s =? %s)", "!=": "(negb (%s =? %s))"}[op]
        return fmt % (a.coq, b.coq)

    STMT = re.compile(r"\s*([A-Za-z_]\w*)\s*([-+*/%]?)=(?!=)\s*([^;]*);\s*")
    IFST = re.compile(r"\s*if\s*\(([^()]*(?:\([^()]*\)[^()]*)*)\)\s*")

    def stmts(self, text, result):
        """sequence of  v = E; | v op= E; | if (C) <one such statement>  -> Coq term: value of `result` at the end"""
        lets, i = [], 0
        while i < len(text):
            if not text[i:].strip():
                break
            m = self.IFST.match(text, i)
            c = None
            if m:
                c = self.cond(m.group(1))
                i = m.end()
            m = self.STMT.match(text, i)
            if not m:
                raise SiteError("statement shape %r" % text[i:i + 40])
            v, op, e = m.group(1), m.group(2), m.group(3)
            if v not in self.vars or self.vars[v][1] != "u32":
                raise SiteError("assignment to %s" % v)
            rhs = self.expr("(%s) %s (%s)" % (v, op, e) if op else e)
            rhs = self.to_u32(rhs)
            coqv = self.vars[v][0]
            lets.append("let %s := %s in" % (coqv, rhs.coq if c is None else "(if %s then %s else %s)" % (c, rhs.coq, coqv)))
            i = m.end()
        return " ".join(lets) + " " + self.vars[result][0]


def macro_resolver(ctx, cfile_text):
    """identifier -> (value, 'int'|'u32'): a #define of the same .c file (pasted verbatim) or of the headers, evaluated by the compiler"""
    cache = {}

    def resolve(name):
        if name in cache:
            return cache[name]
        if not re.fullmatch(r"[A-Z_][A-Z_0-9]*", name):
            raise SiteError("unknown identifier %s" % name)
        local = re.findall(r"^[ \t]*#[ \t]*define[ \t]+%s\b[^\n]*$" % re.escape(name), cfile_text, re.M)
        d = os.path.join(WORK, "c")
        os.makedirs(d, exist_ok=True)
        p = os.path.join(d, "c19_macro_%s.c" % name)
        with open(p, "w") as f:
            f.write("#include <stdio.h>\n#include <stdint.h>\n#include <osmocom/gsm/gsm_utils.h>\n#include <calypso/tpu.h>\n%s\n"
                    "int main(void){ printf(\"%%lld %%d %%d\\n\", (long long)(%s), (int)sizeof(%s), ((__typeof__(%s))-1) < 0); return 0; }\n"
                    % ("\n".join(local), name, name, name))
        ok, binp, log = common.cc("c19_macro_" + name, [p], flags="-I%s/include -idirafter %s" % (LIBOSMO, FWINC), sanitize=False)
        if not ok:
            raise SiteError("identifier %s is not a compile-time constant of the known headers" % name)
        val, size, signed = [int(x) for x in subprocess.run([binp], stdout=subprocess.PIPE, text=True, timeout=20).stdout.split()]
        if size != 4:
            raise SiteError("macro %s has a %d-byte type" % (name, size))
        cache[name] = (val, "int" if signed else "u32")
        return cache[name]
    return resolve


# the call sites the Coq development has theorems for, in the order the harness and Model/GsmTimeRun.site_eval use
EXPECTED_SITES = ["prim_tch_1", "prim_tch_2", "prim_rx_nb_1", "prim_rx_nb_2", "prim_fbsb_1", "prim_rach_1", "prim_freq_1"]
# calls that are covered by executing / modelling the whole enclosing function instead of a site expression:
# file -> {callee: number of calls}
WHOLE_FUNCTION_CALLS = {
    "sync.c": {"l1s_time_inc": 3, "gsm_fn2gsmtime": 1},      # synchronize_tdma x2, l1_sync x1; gsm_fn2gsmtime inside l1s_time_inc
    "prim_fbsb.c": {"l1s_time_inc": 1, "gsm_gsmtime2fn": 1},  # l1s_sbdet_resp re-initialisation; l1s_decode_sb
}
FN_VARS = {"l1s.current_time.fn": "l1s.current_time.fn", "fbs.mon.time.fn": "fbs.mon.time.fn"}


def coq_comment(s):
    return re.sub(r"\s+", " ", s).replace("(*", "( *").replace("*)", "* )")


def discover_sites(ctx):
    """-> (sites, problems). site = dict(name, file, line, kind, text, coq, cfun, var, aux)"""
    sites, problems = [], []
    for fname in sorted(os.listdir(L1)):
        if not fname.endswith(".c"):
            continue
        with open(os.path.join(L1, fname)) as f:
            raw = f.read()
        src = strip_comments(raw)
        base = fname[:-2]
        macros = macro_resolver(ctx, raw)
        try:
            inc_body = strip_comments(common.c_function_text(os.path.join(L1, fname), "l1s_time_inc")) if fname == "sync.c" else None
        except RuntimeError:
            inc_body = None
        inc_span = (src.find(inc_body), src.find(inc_body) + len(inc_body)) if inc_body and src.find(inc_body) >= 0 else (-1, -1)
        counts = {"l1s_time_inc": 0, "gsm_fn2gsmtime": 0, "gsm_gsmtime2fn": 0}
        ordinal = 0
        for m in re.finditer(r"\b(l1s_time_inc|gsm_fn2gsmtime|gsm_gsmtime2fn)\s*\(", src):
            callee = m.group(1)
            line = src.count("\n", 0, m.start()) + 1
            # the definition of l1s_time_inc itself
            if re.match(r"[^\n;{}]*\bvoid\s+$", src[src.rfind("\n", 0, m.start()) + 1:m.start()]):
                continue
            inside_inc = inc_span[0] <= m.start() < inc_span[1]
            if callee != "gsm_fn2gsmtime" or inside_inc:
                counts[callee] += 1
                continue
            ordinal += 1
            name = "%s_%d" % (base, ordinal)
            try:
                args, _ = call_args(src, m.end() - 1)
                if len(args) != 2:
                    raise SiteError("gsm_fn2gsmtime with %d arguments" % len(args))
                text = args[1]
                var = [v for v in FN_VARS if v in text]
                if len(var) != 1:
                    raise SiteError("argument %r does not mention exactly one known frame-number variable" % text)
                tr = Translator({var[0]: ("v", "u32")}, macros)
                node = tr.to_u32(tr.expr(text))
                defines = "".join(d + "\n" for mac in tr.used_macros for d in re.findall(r"^[ \t]*#[ \t]*define[ \t]+%s\b[^\n]*$" % mac, raw, re.M))
                sites.append(dict(name=name, file=fname, line=line, kind="argument of gsm_fn2gsmtime", text=text, coq=node.coq, var=var[0],
                                  defines=defines, cbody="%s = v; return (uint32_t)(%s);" % (var[0], text), aux=None))
            except SiteError as e:
                problems.append("%s:%d call site %s: %s" % (fname, line, name, e))
        exp = WHOLE_FUNCTION_CALLS.get(fname, {})
        for callee, cnt in counts.items():
            if cnt != exp.get(callee, 0):
                problems.append("%s: %d call(s) of %s outside the known site expressions, the model covers %d" % (fname, cnt, callee, exp.get(callee, 0)))
    # statement sites (frame numbers handed to the gsmtime scheduler)
    for name, fname, func, rx, variables, decls, result, aux in (
        ("prim_rach_1", "prim_rach.c", "l1a_rach_req",
         r"else\s+(fn_sched\s*=[^;]*;)(?:\s*l1s\.rach\.\w+\s*=\s*\w+\s*;)*\s*(fn_sched\s*[-+*/%]?=[^;]*;)\s*sched_gsmtime\s*\(",
         {"l1s.current_time.fn": ("v", "u32"), "offset": ("offset", "u16"), "fn_sched": ("fn_sched", "u32")},
         [r"uint16_t\s+offset\b", r"uint32_t\s+fn_sched\b"], "fn_sched", ("offset", "uint16_t", "let offset := aux mod 65536 in")),
        ("prim_freq_1", "prim_freq.c", "l1a_freq_req",
         r"(fn_sched\s*=\s*l1s\.current_time\.fn[^;]*;)\s*(if\s*\([^;{}]*\)\s*fn_sched\s*[-+*/%]?=[^;]*;)\s*printf\s*\(",
         {"l1s.current_time.fn": ("v", "u32"), "diff": ("diff", "i32"), "fn_sched": ("fn_sched", "u32")},
         [r"int32_t\s+diff\b", r"uint32_t\s+fn_sched\b"], "fn_sched", ("diff", "int32_t", "let diff := aux in")),
    ):
        path = os.path.join(L1, fname)
        try:
            with open(path) as f:
                raw = f.read()
            try:
                body = strip_comments(common.c_function_text(path, func))
            except RuntimeError as e:
                raise SiteError(str(e))
            ms = list(re.finditer(rx, body))
            if len(ms) != 1:
                raise SiteError("expected exactly one statement group in %s(), found %d" % (func, len(ms)))
            for d in decls:
                if not re.search(d, body):
                    raise SiteError("declaration /%s/ not found in %s()" % (d, func))
            text = " ".join(g.strip() for g in ms[0].groups())
            tr = Translator(variables, macro_resolver(ctx, raw))
            coq = aux[2] + " " + tr.stmts(text, result)
            sraw = strip_comments(raw)
            line = sraw.count("\n", 0, max(sraw.find(body), 0) + ms[0].start(1)) + 1
            sites.append(dict(name=name, file=fname, line=line, kind="frame number handed to sched_gsmtime", text=text, coq=coq, var="l1s.current_time.fn",
                              defines="", cbody="%s %s = (%s)aux; uint32_t fn_sched = 0; l1s.current_time.fn = v; %s return fn_sched;" % (aux[1], aux[0], aux[1], text), aux=aux[0]))
        except (SiteError, OSError) as e:
            problems.append("%s call site %s: %s" % (fname, name, e))
    names = [s["name"] for s in sites]
    for n in EXPECTED_SITES:
        if n not in names:
            problems.append("call site %s was not found in the source (the theorems about it have no object)" % n)
    for n in names:
        if n not in EXPECTED_SITES:
            problems.append("call site %s (%s:%d, %s) is new: no theorem covers it" % (n, *[(s["file"], s["line"], s["text"]) for s in sites if s["name"] == n][0]))
    sites.sort(key=lambda s: (EXPECTED_SITES.index(s["name"]) if s["name"] in EXPECTED_SITES else len(EXPECTED_SITES), s["name"]))
    return sites, problems


def fbsb_reinit_text():
    """the statements of l1s_sbdet_resp() that re-initialise the two times (verbatim), fail closed"""
    path = os.path.join(L1, "prim_fbsb.c")
    body = strip_comments(common.c_function_text(path, "l1s_sbdet_resp"))
    m = re.search(r"synchronize_tdma\s*\([^;]*;\s*((?:[^;{}]*\b(?:current_time|next_time)\b[^;{}]*;\s*)+)", body)
    if not m:
        raise SiteError("re-initialisation statements of l1s_sbdet_resp() not found")
    txt = m.group(1).strip()
    n = len(re.findall(r";", txt))
    if n != 3:
        raise SiteError("l1s_sbdet_resp() re-initialises the time with %d statements, the model has 3: %r" % (n, txt))
    return txt


def build_run(ctx):
    """Gen/GsmTimeSites.v + the harness around the real sync.c. Returns (binary or None, sites, problems)"""
    problems = []
    sites, p = discover_sites(ctx)
    problems += p
    d = os.path.join(WORK, "c")
    os.makedirs(d, exist_ok=True)
    with open(os.path.join(L1, "prim_fbsb.c")) as f:
        fbsb_raw = f.read()
    inc = ["/* GENERATED by vp/props/C19.py from %s - do not edit */" % L1]
    seen_def = set()
    for dline in re.findall(r"^[ \t]*#[ \t]*define[ \t]+SB2_LATENCY\b[^\n]*$", fbsb_raw, re.M) + [x for s in sites for x in s["defines"].split("\n") if x.strip()]:
        if dline not in seen_def:
            seen_def.add(dline)
            inc.append(dline)
    inc.append("static struct { struct { struct gsm_time time; } mon; } fbs;")
    try:
        inc.append(common.c_function_text(os.path.join(L1, "prim_fbsb.c"), "l1s_decode_sb"))
    except RuntimeError as e:
        problems.append(str(e))
    try:
        inc.append("static void c19_fbsb_reinit(void)\n{\n\t%s\n}" % fbsb_reinit_text())
    except (SiteError, RuntimeError) as e:
        problems.append(str(e))
    for k, s in enumerate(sites):
        inc.append("/* %s:%d */\nstatic uint32_t c19_site_%d(uint32_t v, long aux) { (void)aux; %s }" % (s["file"], s["line"], k, s["cbody"]))
    inc.append("static const struct { const char *name; uint32_t (*f)(uint32_t, long); } c19_sites[] = {\n%s\n\t{ 0, 0 } };"
               % "\n".join('\t{ "%s", c19_site_%d },' % (s["name"], k) for k, s in enumerate(sites)))
    common.write_if_changed(os.path.join(d, "c19_gen.inc"), "\n".join(inc) + "\n")
    stubs = os.path.join(ROOT, "charness/stubs")
    ok, path, log = common.cc("c19_run", [os.path.join(ROOT, "charness/c19_run.c"), os.path.join(LIBOSMO, "src/gsm/gsm_utils.c")],
                              flags="-ffunction-sections -fdata-sections -Wl,--gc-sections -D__ASM_ARM_SYSTEM_H -include %s/c19/host_stubs.h "
                                    "-I%s/a/b -I%s -I%s -I%s/include -I%s/include -I%s -idirafter %s"
                                    % (stubs, stubs, stubs, L1, LIBOSMO, REPO, d, FWINC))
    consts = None
    if not ok:
        problems.append("harness around the real sync.c does not compile:\n" + log[-2500:])
        path = None
    else:
        consts = [int(x) for x in subprocess.run([path, "const"], stdout=subprocess.PIPE, text=True, timeout=30).stdout.split()]
    txt = common.gen_header("firmware layer1: QBITS_PER_TDMA / SWITCH_TIME / SB2_LATENCY and struct widths as compiled with the real sync.c, "
                            "call-site expressions translated from the source text of prim_tch.c prim_rx_nb.c prim_fbsb.c prim_rach.c prim_freq.c")
    txt += "Definition w32 (x : Z) : Z := x mod 4294967296.\n"
    if consts:
        txt += "Definition c_QBITS_PER_TDMA : Z := %d.\nDefinition c_SWITCH_TIME : Z := %d.\nDefinition c_SB2_LATENCY : Z := %d.\n" % tuple(consts[1:4])
        txt += ("(* sizeof fn t1 t2 t3 tc of struct gsm_time; sizeof cinfo->fn_offset, its signedness; sizeof cinfo->time_alignment, l1s.tpu_offset *)\n"
                "Definition c_widths : list Z := %s.\n" % common.zlist(consts[4:]))
        if consts[0] != H:
            problems.append("GSM_MAX_FN compiled into sync.c is %d" % consts[0])
    for s in sites:
        txt += "\n(* %s:%d  %s:  %s *)\nDefinition site_%s (v aux : Z) : Z := %s.\n" % (s["file"], s["line"], s["kind"], coq_comment(s["text"]), s["name"], s["coq"])
    ctx.gen("GsmTimeSites", txt)
    return path, sites, problems


def gen(ctx):
    binp = build_c(ctx)
    c_max = int(subprocess.run([binp, "const"], stdout=subprocess.PIPE, text=True, timeout=30).stdout.strip())
    txt = common.gen_header("gsm_utils.h GSM_MAX_FN (as compiled), gsm_shared.GSM_HYPERFRAME (as imported)")
    txt += "Definition c_GSM_MAX_FN : Z := %d.\nDefinition py_GSM_HYPERFRAME : Z := %d.\n" % (c_max, py_hyperframe())
    ctx.gen("GsmTimeConst", txt)
    # second Gen file (only C19 uses it); other properties that call gen() for GsmTimeConst are not affected by a failure here
    try:
        ctx.c19_run = build_run(ctx)
    except Exception as e:  # noqa - reported by run()
        ctx.c19_run = (None, [], ["Gen/GsmTimeSites.v could not be produced: %s: %s" % (type(e).__name__, e)])
    return binp


def fn_pool(rng, n):
    pts = set()
    for base in (0, 26, 51, 1326, 51 * 26 * 8, H // 2, H):
        for k in range(-3, 4):
            for mult in (1, 2, 7, 1000, 2047):
                v = base * mult + k
                if 0 <= v < H:
                    pts.add(v)
    pts = sorted(pts)
    out = list(pts)
    while len(out) < n:
        out.append(rng.below(H))
    return out[:max(n, len(pts))]


def decomp(fn):
    return [fn, fn // 1326, fn % 26, fn % 51, (fn // 51) % 8]


# ---------------------------------------------------------------------------------------------------------------------
# second part: the running time

SITE_INTENT = {   # site -> (k as a function of aux, aux values, what)
    "prim_tch_1": (lambda a: -1, [0], "the frame before the current one"),
    "prim_tch_2": (lambda a: -1, [0], "the frame before the current one"),
    "prim_rx_nb_1": (lambda a: -1, [0], "the frame before the current one"),
    "prim_rx_nb_2": (lambda a: -4, [0], "four frames before the current one"),
    "prim_fbsb_1": (None, [0], "SB2_LATENCY frames after the frame of the synchronisation burst"),
    "prim_rach_1": (lambda a: a, [0, 3, 30, 217, 65535], "offset frames after the current one"),
    "prim_freq_1": (lambda a: a, [0, 1, 6, 32023, 42431], "diff frames after the current one"),
}


def sb_word(t1, t2, t3p, bsic=0):
    """the 25 information bits of a synchronisation burst as the DSP delivers them (inverse of l1s_decode_sb, TS 05.02 3.3.2.2.1)"""
    sb = (bsic & 0x3f) << 2
    sb |= ((t1 >> 9) & 3) | (((t1 >> 1) & 0xff) << 8) | ((t1 & 1) << 23)
    sb |= (t2 & 0x1f) << 18
    sb |= ((t3p >> 1) & 3) << 16 | (t3p & 1) << 24
    return sb


def sync_cases(rng, tier):
    """histories: flat op streams for w_c19_run"""
    hs = []
    offs = [0, 1, 2, 3, 26, 51, 52, 1326, H - 1, H, 12, 100]
    tas = [0, 1, 4914, 4915, 4916, 4925, 4999, 5000, 9915, 123456789, 4294967295 - 75, 4294967295]

    def place(fn):       # put the running time on frame fn through the re-initialisation (fn - SB2 may be "negative": use raw then)
        return [4] + decomp(fn) + decomp((fn + 1) % H) + [rng.choice([0, 0, 4915, 4989, 4990, 2500])]

    # 1. boot, then single interrupts (every state visible)
    hs.append([0, 1] * 8)
    # 2. free runs across the wrap, single steps near it
    for back in (1, 2, 3, 30):
        hs.append(place(H - back) + [0, 1] * (back + 3))
    hs.append(place(H - 3000) + [0, 2990] + [0, 1] * 20 + [0, 3000])
    # 3. every offset x both tpu branches x landing points around the wrap / superframe / multiframe carries
    for fo in offs:
        for ta in tas:
            for land in (H - 1, 0, 1, 1325, 1326, 51 * 26 - 1, H // 2):
                # choose the start so that start + fo - 1 (+1) lands on `land` in the no-compensation branch
                start = (land - (fo - 1)) % H
                if fo == 0 and start == 0:
                    continue   # fn_offset 0 at frame 0 is the recorded out-of-range case, generated separately
                hs.append(place(start) + [1, fo, ta, 0, 1, 0, 1])
                start2 = (land - fo) % H
                hs.append(place(start2) + [1, fo, ta, 0, 1])
    # 3b. re-initialisation from burst frame numbers around the carries and just below the end of the hyperframe
    for m in (0, 1, 48, 49, 1323, 1324, 1325, H - 12, H - 10, H - 5, H - 4, H - 3):
        hs.append([0, 3, 2, m, 0, 1, 0, 1, 0, 1])
    for t1 in (0, 1, 2047):
        for t2 in (0, 25):
            for t3p in range(5):
                hs.append([3, sb_word(t1, t2, t3p, 63), 0, 1, 0, 1])
    # 4. random histories
    nrand = 150 if tier == "quick" else 6000
    for _ in range(nrand):
        h = []
        if rng.chance(3, 4):
            h += place(rng.choice([rng.below(H), H - 1 - rng.below(40), rng.below(40), 1326 * rng.below(2048) + rng.choice([0, 1, 1325])]))
        for _ in range(rng.range(1, 12)):
            r = rng.below(10)
            if r < 4:
                h += [0, rng.choice([1, 1, 1, 2, 5, 51, 104, 1326, rng.below(3000)])]
            elif r < 7:
                h += [1, rng.choice(offs + [rng.range(1, 4000)]), rng.choice(tas + [rng.below(5000)])]
            elif r < 8:
                h += [2, rng.choice([rng.below(H - 2), H - 3, H - 12, 0, 1324])]
            elif r < 9:
                t1, t2, t3p = rng.choice([0, 1, 2046, 2047, rng.below(2048)]), rng.below(26), rng.below(5)
                h += [3, sb_word(t1, t2, t3p, rng.below(64))]
            else:
                h += place(rng.below(H))
        hs.append(h)
    # 5. out-of-range arguments (the model is compared, the property oracle does not apply): negative / huge offsets, arbitrary components
    for fo, start in ((0, 0), (-1, 0), (-5, 3), (-5, 5), (0, 1), (H + 1, 5), (H + 1, H - 1), (2 * H, 7), (2147483647, 0), (-2147483647, H - 1), (-2147483647, 0)):
        hs.append(place(start) + [1, fo, 0, 0, 1])
        hs.append(place(start) + [1, fo, 4915, 0, 1])
    for _ in range(40 if tier == "quick" else 1500):
        hs.append([4, rng.below(1 << 32), rng.below(65536), rng.below(256), rng.below(256), rng.below(256),
                   rng.below(1 << 32), rng.below(65536), rng.below(256), rng.below(256), rng.below(256), rng.below(1 << 32)]
                  + rng.choice([[0, rng.below(60)], [1, rng.range(-3, 3000), rng.below(5000)], [0, 1, 0, 1]]))
        hs.append([3, rng.below(1 << 32), 0, 2])
        hs.append([3, sb_word(2047, rng.below(32), rng.below(8), rng.below(64)), 0, 2])
        hs.append([2, rng.choice([H - 2, H - 1, H, rng.below(1 << 32), 4294967295, 4294967294])])
    hs.append([0, 5, 3, sb_word(2047, 20, 7), 0, 1, 0, 1])     # a burst word outside the coding: decoded frame number 2715668
    # 6. malformed streams
    hs += [[5], [0], [0, -1], [0, 100001], [1, 1], [1, 2147483648, 0], [1, 0, 4294967296], [2], [2, -1], [3, 4294967296], [4, 1, 2, 3],
           [4, 0, 65536, 0, 0, 0, 0, 0, 0, 0, 0, 0], [0, 1, 7, 7], [4, 0, 0, 256, 0, 0, 0, 0, 0, 0, 0, 0]]
    return hs


def split_ops(h):
    ops, i = [], 0
    n = {0: 2, 1: 3, 2: 2, 3: 2, 4: 12}
    while i < len(h):
        ops.append(h[i:i + n[h[i]]])
        i += n[h[i]]
    return ops


def time_ok(cur, nxt):
    return cur == decomp(cur[0]) and nxt == decomp(nxt[0]) and cur[0] < H and nxt[0] < H and nxt[0] == (cur[0] + 1) % H


def ofail(ctx, what, case, key, expected=None, observed=None, cap=6):
    """oracle_fail, but at most `cap` full reports per key (the rest is only counted) so that one defect cannot crowd out the others"""
    seen = ctx.__dict__.setdefault("c19_reported", {})
    seen[key] = seen.get(key, 0) + 1
    if seen[key] <= cap:
        ctx.oracle_fail(what, case, key=key, expected=expected, observed=observed)
    else:
        ctx.count("oracle_fail:" + key)


def run_oracle(ctx, h, obs, consts):
    """the property stated directly on the observations of the real functions (independent of the Coq model)"""
    qbits, switch, sb2 = consts
    cur, nxt, tpu = [0] * 5, [0] * 5, 0            # .bss
    pos = 0
    for k, o in enumerate(split_ops(h)):
        ncur, nnxt, ntpu, extra = obs[pos:pos + 5], obs[pos + 5:pos + 10], obs[pos + 10], obs[pos + 11]
        pos += 12
        pre_ok = time_ok(cur, nxt)
        case = dict(history=h, op_index=k, op=o, before=dict(current_time=cur, next_time=nxt, tpu_offset=tpu))
        seen = dict(current_time=ncur, next_time=nnxt)
        if o[0] == 0:
            if pre_ok and o[1] >= 1:
                e = (cur[0] + o[1]) % H
                if ncur != decomp(e) or nnxt != decomp((e + 1) % H):
                    ofail(ctx, "after %d frame interrupt(s) the running time is not frame (old + n) mod 2715648 / its successor" % o[1], case,
                                    key="c19-run-irq", expected=dict(current_time=decomp(e), next_time=decomp((e + 1) % H)), observed=seen)
                ctx.nontrivial(("irq", min(o[1], 3), e < cur[0], e % 1326 == 0, e % 51 == 0))
            elif o[1] >= 1 and nxt == decomp(nxt[0]) and nxt[0] < H:
                # e.g. the boot state: next_time is a frame, so one interrupt must give a consistent pair
                e = (nxt[0] + o[1] - 1) % H
                if ncur != decomp(e) or nnxt != decomp((e + 1) % H):
                    ofail(ctx, "frame interrupts from a state whose next_time is a valid frame do not give a consistent pair", case,
                                    key="c19-run-irq", expected=dict(current_time=decomp(e), next_time=decomp((e + 1) % H)), observed=seen)
        elif o[0] == 1:
            fo, ta = o[1], o[2]
            shift = (tpu + ((ta + 75) % (1 << 32))) % (1 << 32) % qbits
            d = fo - 1 + (1 if shift < switch else 0)
            if cur == decomp(cur[0]) and cur[0] < H and 0 <= cur[0] + d < 2 * H and fo > -(1 << 31):
                e = (cur[0] + d) % H
                if ncur != decomp(e) or nnxt != decomp((e + 1) % H) or ntpu != shift or extra != 0:
                    ofail(ctx, "synchronize_tdma(fn_offset=%d, time_alignment=%d): the running time is not frame (old %+d) mod 2715648 / its successor" % (fo, ta, d),
                                    case, key="c19-run-sync", expected=dict(current_time=decomp(e), next_time=decomp((e + 1) % H), tpu_offset=shift),
                                    observed=dict(seen, tpu_offset=ntpu))
                ctx.nontrivial(("sync", shift < switch, min(max(fo, -1), 3), e == H - 1, e == 0, e < cur[0], e % 1326 == 0))
        elif o[0] in (2, 3):
            if o[0] == 3:
                mon = obs[pos:pos + 5]
                pos += 5
                sb = o[1]
                t1 = ((sb >> 23) & 1) | ((sb >> 7) & 0x1fe) | ((sb << 9) & 0x600)
                t2 = (sb >> 18) & 0x1f
                t3p = ((sb >> 24) & 1) | ((sb >> 15) & 6)
                if t2 < 26 and t3p <= 4:
                    cand = [f for f in range(t1 * 1326, t1 * 1326 + 1326) if f % 26 == t2 and f % 51 == t3p * 10 + 1]
                    if mon != decomp(cand[0]):
                        ofail(ctx, "l1s_decode_sb: the decoded time is not the SCH frame (T1, T2, T3') names", dict(case, sb=sb, t1=t1, t2=t2, t3p=t3p),
                                        key="c19-decode-sb", expected=decomp(cand[0]), observed=mon)
                    ctx.nontrivial(("sb", t3p, t1 in (0, 2047), t2 in (0, 25)))
                m = mon[0]
            else:
                m = o[1]
            if m + sb2 < (1 << 32):
                # whatever frame number the burst carries, the running time must be the frame SB2_LATENCY later (mod the hyperframe)
                e = (m + sb2) % H
                if ncur != decomp(e) or nnxt != decomp((e + 1) % H):
                    ofail(ctx, "re-initialisation after a synchronisation burst (prim_fbsb.c l1s_sbdet_resp) with fbs.mon.time.fn = %d: the running time is not frame "
                                    "(%d + SB2_LATENCY) mod 2715648 / its successor" % (m, m),
                                    dict(case, site="prim_fbsb_1", mon_time_fn=m), key="c19-prim_fbsb_1-unreduced-fn",
                                    expected=dict(current_time=decomp(e), next_time=decomp((e + 1) % H)), observed=seen)
                ctx.nontrivial(("fbsb", o[0], e % 1326 < 2, e % 51 < 2, m + sb2 >= H))
        cur, nxt, tpu = ncur, nnxt, ntpu


def run_part2(ctx, gsm_shared):
    binp, sites, problems = getattr(ctx, "c19_run", (None, [], ["gen() did not build the running-time harness"]))
    for p in problems:
        ctx.proof_failures.append(("call-site-coverage", p))
        ctx.note("fail closed: " + p)
    if binp is None:
        return
    consts = [int(x) for x in subprocess.run([binp, "const"], stdout=subprocess.PIPE, text=True, timeout=30).stdout.split()]
    ctx.extra["c19_constants_as_compiled"] = dict(GSM_MAX_FN=consts[0], QBITS_PER_TDMA=consts[1], SWITCH_TIME=consts[2], SB2_LATENCY=consts[3], widths=consts[4:])
    rng = ctx.rng
    # ---- b. model vs real expression on samples + boundaries
    cases = []
    for idx, s in enumerate(sites):
        if s["name"] not in EXPECTED_SITES:
            continue
        midx = EXPECTED_SITES.index(s["name"])
        auxs = SITE_INTENT[s["name"]][1] + ([rng.below(65536), rng.below(42432)] if s["aux"] else [])
        vs = list(range(0, 8)) + list(range(H - 8, H + 4)) + [H // 2, 4294967295, 4294967294, 4294967292, 1 << 31] + [rng.below(H) for _ in range(40 if ctx.tier == "quick" else 2000)]
        for v in vs:
            for aux in (auxs if s["aux"] else [0]):
                cases.append(("w_c19_site", [midx, v, aux], idx))
    cases += [("w_c19_site", [7, 0, 0], None), ("w_c19_site", [0, -1, 0], None), ("w_c19_site", [0, 1], None)]
    # ---- c. l1s_decode_sb
    for t1 in (0, 1, 1023, 2046, 2047):
        for t2 in range(32):
            for t3p in range(8):
                cases.append(("w_c19_sb", [sb_word(t1, t2, t3p, (t1 + t2) % 64)], None))
    for _ in range(300 if ctx.tier == "quick" else 20000):
        cases.append(("w_c19_sb", [rng.below(1 << 32)], None))
    # ---- d. histories
    for h in sync_cases(rng, ctx.tier):
        cases.append(("w_c19_run", h, None))
    lines = []
    for op, a, idx in cases:
        if op == "w_c19_site" and idx is not None:
            lines.append("%s %d %d %d" % (op, idx, a[1], a[2]))      # harness index of the site
        elif op == "w_c19_site" and len(a) == 3 and a[0] == 7:
            lines.append("%s %d %d %d" % (op, 99, a[1], a[2]))
        else:
            lines.append(op + " " + " ".join(map(str, a)))
    impl, side = {}, {}
    start, stops = 0, 0
    while start < len(cases) and stops < 6:
        p = subprocess.run([binp], input="\n".join(lines[start:]) + "\n", stdout=subprocess.PIPE, stderr=subprocess.PIPE, text=True, timeout=900)
        outl = p.stdout.split("\n")
        j, k = 0, start
        while k < len(cases):
            need = 2 if cases[k][0] == "w_c19_run" else 1
            if j + need > len(outl) - 1:        # the last element is the empty string behind the final newline (or a cut line)
                break
            impl[k] = [int(x) for x in outl[j].split()]
            if need == 2:
                side[k] = outl[j + 1].split()[1:]
            j += need
            k += 1
        if k >= len(cases) and p.returncode == 0:
            break
        # the harness stopped while working on case k (sanitizer report or crash): that case is the failing input; go on behind it
        stops += 1
        if k < len(cases):
            ofail(ctx, "harness around the real sync.c stopped on this input (sanitizer report / crash)",
                  dict(op=cases[k][0], args=cases[k][1], stderr=p.stderr[-2500:]), key="c19-harness-crash")
        start = k + 1
    idxs = [k for k in range(len(cases)) if k in impl]
    ctx.correspond("gsm-time-run", "GsmTime", idxs, lambda k: cases[k][0] + " " + " ".join(map(str, cases[k][1])), lambda k: impl[k],
                   show=lambda k: dict(op=cases[k][0], args=cases[k][1]))
    # ---- e. oracles
    for k in idxs:
        op, a, idx = cases[k]
        o = impl[k]
        if op == "w_c19_run" and o != [-999]:
            run_oracle(ctx, a, o, consts[1:4])
            sd = side[k]
            if len(sd) >= 2 and int(sd[1]) > 0:
                ofail(ctx, "frame interrupts of the real l1_sync(): a frame was skipped, repeated or announced with inconsistent components "
                                "(op index, step, frame before, frame announced to sched_gsmtime_execute, current_time, next_time: %s)" % " ".join(sd[2:]),
                                dict(history=a, harness_report=sd), key="c19-run-irq")
            ctx.evaluations += int(sd[0]) if sd else 0
        elif op == "w_c19_sb" and len(o) == 6:
            sb = a[0]
            if o[5] != (sb >> 2) & 0x3f:
                ofail(ctx, "l1s_decode_sb BSIC", dict(sb=sb), key="c19-decode-sb", expected=(sb >> 2) & 0x3f, observed=o[5])
    n = 0
    for k in idxs:
        if cases[k][0] == "w_c19_run" and len(cases[k][1]) > 20 and n < 2:
            ctx.sample(dict(op="w_c19_run", history=cases[k][1], observed=impl[k][:24]))
            n += 1

    # ---- a. the real expression + the real gsm_fn2gsmtime for EVERY frame number, per call site
    site_report = {}
    for idx, s in enumerate(sites):
        intent = SITE_INTENT.get(s["name"])
        if intent is None or s["name"] == "prim_fbsb_1":
            # unknown site: the intended offset is what the expression gives in the middle of the hyperframe
            mid = subprocess.run([binp], input="w_c19_site %d %d 0\n" % (idx, H // 2), stdout=subprocess.PIPE, text=True, timeout=30).stdout.split()
            kf, auxs, what = (lambda a, k=int(mid[0]) - H // 2: k), [0], (intent[2] if intent else "a fixed distance from the frame variable")
        else:
            kf, auxs, what = intent
        for aux in auxs:
            k = kf(aux)
            out = subprocess.run([binp, "sweep", str(idx), str(k), str(aux)], stdout=subprocess.PIPE, stderr=subprocess.PIPE, text=True, timeout=300)
            lines = out.stdout.strip().split("\n")
            if out.returncode != 0 or not lines[-1].startswith("DONE"):
                ofail(ctx, "harness crashed in the sweep of call site " + s["name"], dict(site=s["name"], stderr=out.stderr[-1500:]), key="c19-harness-crash")
                continue
            total, nbad = int(lines[-1].split()[1]), int(lines[-1].split()[2])
            ctx.evaluations += total
            site_report["%s aux=%d" % (s["name"], aux)] = "%d/%d frame numbers give the decomposition of (%s %+d) mod 2715648" % (total - nbad, total, s["var"], k)
            for l in lines[:-1][:2]:
                _, v, arg, fn, t1, t2, t3, tc = l.split()
                v, arg = int(v), int(arg)
                e = (v + k) % H
                ofail(ctx, "%s:%d %s: '%s' with %s = %d hands frame number %d to the decomposition; intended: %s = frame %d"
                                % (s["file"], s["line"], s["kind"], s["text"], s["var"], v, arg, what, e),
                                dict(site=s["name"], file=s["file"], line=s["line"], expression=s["text"], variable=s["var"], value=v, aux=aux, total_bad_values=nbad),
                                key="c19-%s-unreduced-fn" % s["name"], expected=decomp(e), observed=[int(fn), int(t1), int(t2), int(t3), int(tc)])
            ctx.nontrivial(("site", s["name"], aux, nbad > 0))
    ctx.extra["c19_call_sites"] = site_report


def run(ctx):
    binp = gen(ctx)
    ctx.prove()
    if ctx.tier == "thorough":
        ctx.coqchk()
    common.import_toolkit()
    import gsm_shared
    rng = ctx.rng
    n = 3000 if ctx.tier == "quick" else 200000
    deltas = [1] * 6 + list(range(2, 61)) + [1325, 1326, 2715647, 2715648]
    cases = []
    for fn in fn_pool(rng, n):
        cases.append(("w_c19_fn2gt", [fn]))
        cases.append(("w_c19_py", [fn]))
        t1, t2, t3 = fn // 1326, fn % 26, fn % 51
        cases.append(("w_c19_gt2fn", [t1, t2, t3]))
        d = rng.choice(deltas)
        cases.append(("w_c19_inc", [fn, t1, t2, t3, (fn // 51) % 8, d]))
    # every delta landing exactly on / just around the hyperframe end
    for d in sorted(set(deltas)):
        for fn in (H - d - 1, H - d, H - d + 1):
            if 0 <= fn < H:
                cases.append(("w_c19_inc", [fn, fn // 1326, fn % 26, fn % 51, (fn // 51) % 8, d]))
    # off-domain inputs (robustness of the tie, not part of the property): arbitrary components
    for _ in range(n // 10):
        cases.append(("w_c19_gt2fn", [rng.below(2048), rng.below(256), rng.below(256)]))
        cases.append(("w_c19_inc", [rng.below(H), rng.below(2048), rng.below(26), rng.below(51), rng.below(8), rng.choice(deltas)]))
    c_lines = [op + " " + " ".join(map(str, a)) for op, a in cases if op != "w_c19_py"]
    p = subprocess.run([binp], input="\n".join(c_lines) + "\n", stdout=subprocess.PIPE, stderr=subprocess.PIPE, text=True, timeout=600)
    if p.returncode != 0:
        ctx.oracle_fail("C harness crashed (sanitizer?)", p.stderr[-2000:], key="c19-harness-crash")
    c_out = iter(p.stdout.strip().split("\n"))
    impl = {}
    for k, (op, a) in enumerate(cases):
        if op == "w_c19_py":
            try:
                impl[k] = list(gsm_shared.HoppingParams.fn2gsm_time(a[0]))
            except Exception as e:  # noqa
                impl[k] = [-1, -1, -1]
                ctx.oracle_fail("the Python toolkit does not derive T1, T2, T3 for frame number %d: fn2gsm_time raises %s (%s)" % (a[0], type(e).__name__, e),
                                dict(fn=a[0]), key="c19-py-raises", expected=[a[0] // 1326 % 2048, a[0] % 26, a[0] % 51])
        else:
            impl[k] = [int(x) for x in next(c_out).split()]
    idx = list(range(len(cases)))
    res = ctx.correspond("gsm-time", "GsmTime", idx, lambda k: cases[k][0] + " " + " ".join(map(str, cases[k][1])),
                         lambda k: impl[k], show=lambda k: cases[k])
    # implementation-level oracle (the property stated directly on the implementation)
    for k, (op, a) in enumerate(cases):
        o = impl[k]
        if op == "w_c19_fn2gt":
            fn = a[0]
            exp = [fn, fn // 1326, fn % 26, fn % 51, (fn // 51) % 8]
            if o != exp:
                ctx.oracle_fail("gsm_fn2gsmtime deviates from (T1,T2,T3,TC)", dict(fn=fn), key="c19-decomp", expected=exp, observed=o)
            ctx.nontrivial(("d", fn % 26 == 0, fn % 51 == 0, fn % 1326 == 0, fn == H - 1))
        elif op == "w_c19_py":
            fn = a[0]
            exp = [fn // 1326, fn % 26, fn % 51, (fn // 51) % 8]
            if o != exp:
                ctx.oracle_fail("fn2gsm_time deviates from the C decomposition", dict(fn=fn), key="c19-py", expected=exp, observed=o)
        elif op == "w_c19_gt2fn" and a[1] < 26 and a[2] < 51 and (a[0] * 1326 + 0) < H:
            # only consistent triples have a defined answer
            cand = [f for f in range(a[0] * 1326, a[0] * 1326 + 1326) if f % 26 == a[1] and f % 51 == a[2]]
            if cand and o != [cand[0]]:
                ctx.oracle_fail("gsm_gsmtime2fn does not recompose", dict(t1=a[0], t2=a[1], t3=a[2]), key="c19-recompose", expected=cand[:1], observed=o)
        elif op == "w_c19_inc":
            fn, t1, t2, t3, tc, d = a
            if [t1, t2, t3, tc] == [fn // 1326, fn % 26, fn % 51, (fn // 51) % 8] and 1 <= d <= H:
                f2 = (fn + d) % H
                exp = [f2, f2 // 1326, f2 % 26, f2 % 51, (f2 // 51) % 8]
                if o != exp:
                    ctx.oracle_fail("l1s_time_inc result is not the decomposition of the new FN", dict(fn=fn, delta=d), key="c19-inc", expected=exp, observed=o)
                ctx.nontrivial(("i", min(d, 2), f2 % 26 == 0, f2 % 51 == 0, f2 % 1326 == 0, f2 < fn))
    for k in range(0, len(cases), max(1, len(cases) // 5)):
        ctx.sample(dict(op=cases[k][0], args=cases[k][1], impl=impl[k]), limit=4)
    # complete hyperframe walk on the C implementation (both tiers: 0.1 s)
    w = subprocess.run([binp, "walk"], stdout=subprocess.PIPE, text=True, timeout=600).stdout.strip()
    ctx.extra["c_full_hyperframe_walk"] = w
    if not w.startswith("OK"):
        parts = w.split()
        ctx.oracle_fail("full hyperframe walk in C failed: " + w, dict(kind=parts[1] if len(parts) > 1 else "?", fn=parts[2:] ), key="c19-walk")
    else:
        ctx.evaluations += int(w.split()[1])
        ctx.exhaustive = True
    # Python side over the whole hyperframe in thorough
    step = 1 if ctx.tier == "thorough" else 101
    for fn in list(range(0, H, step)) + [H - 1]:
        try:
            got = gsm_shared.HoppingParams.fn2gsm_time(fn)
        except Exception as e:  # noqa
            got = "%s: %s" % (type(e).__name__, e)
        if got != (fn // 1326, fn % 26, fn % 51, (fn // 51) % 8):
            ctx.oracle_fail("fn2gsm_time deviates from the decomposition of the frame number", dict(fn=fn), key="c19-py", expected=[fn // 1326, fn % 26, fn % 51, (fn // 51) % 8], observed=str(got))
            break
    ctx.evaluations += len(range(0, H, step))
    # the firmware's running time and the call sites
    run_part2(ctx, gsm_shared)
    ctx.extra["rule"] = ("helpers: FN pool +-3 around multiples of 26, 51, 1326, 10608 and the hyperframe end, then uniform; deltas 1, 2..60, 1325, 1326, 2715647, 2715648; "
                         "running time: histories of frame interrupts (real l1_sync, runs across the wrap), synchronize_tdma (fn_offset 0,1,2,3,26,51,52,1326,H-1,H x "
                         "time alignments on both sides of the SWITCH_TIME branch x landing frames H-1, 0, 1, 1325, 1326), re-initialisation from frame numbers and from "
                         "synchronisation-burst words, raw states, malformed streams; call sites: the real expression for every frame number 0..2715647; "
                         "distinct_nontrivial = distinct carry patterns / branch x landing classes / call site x outcome reached")
