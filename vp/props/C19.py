"""C19 - GSM time arithmetic. Model: Model/GsmTime.v; theorems: Props/C19.v.
Tie: Gen/GsmTimeConst.v (GSM_MAX_FN as compiled, GSM_HYPERFRAME as imported) + correspondence of the
extracted model with the real gsm_utils.c / l1s_time_inc (textually extracted from sync.c) / fn2gsm_time."""
import os
import subprocess

from .. import common
from ..common import REPO, LIBOSMO, ROOT, WORK

H = 2715648


def build_c(ctx):
    os.makedirs(os.path.join(WORK, "c"), exist_ok=True)
    txt = common.c_function_text(os.path.join(REPO, "src/target/firmware/layer1/sync.c"), "l1s_time_inc")
    common.write_if_changed(os.path.join(WORK, "c", "l1s_time_inc.inc"), txt + "\n")
    stubs = os.path.join(ROOT, "charness/stubs")
    ok, path, log = common.cc("c19", [os.path.join(ROOT, "charness/c19.c"), os.path.join(LIBOSMO, "src/gsm/gsm_utils.c")],
                              flags="-I%s/a/b -I%s -I%s/include -I%s/c" % (stubs, stubs, LIBOSMO, WORK))
    if not ok:
        raise RuntimeError("C19 harness does not compile:\n" + log[-3000:])
    return path


def py_hyperframe():
    common.import_toolkit()
    import gsm_shared
    return int(gsm_shared.GSM_HYPERFRAME)


def gen(ctx):
    binp = build_c(ctx)
    c_max = int(subprocess.run([binp, "const"], stdout=subprocess.PIPE, text=True, timeout=30).stdout.strip())
    txt = common.gen_header("gsm_utils.h GSM_MAX_FN (as compiled), gsm_shared.GSM_HYPERFRAME (as imported)")
    txt += "Definition c_GSM_MAX_FN : Z := %d.\nDefinition py_GSM_HYPERFRAME : Z := %d.\n" % (c_max, py_hyperframe())
    ctx.gen("GsmTimeConst", txt)
    return binp


def fn_pool(rng, n):
    pts = set()
    for base in (0, 26, 51, 1326, 51 * 26 * 8, H // 2, H):
        for k in range(-3, 4):
            for mult in (1, 2, 7, 1000, 2047):
                v = base * mult + k
                if 0 <= v < H:
                    pts.add(v)
    pts = sorted(pts)
    out = list(pts)
    while len(out) < n:
        out.append(rng.below(H))
    return out[:max(n, len(pts))]


def run(ctx):
    binp = gen(ctx)
    ctx.prove()
    if ctx.tier == "thorough":
        ctx.coqchk()
    common.import_toolkit()
    import gsm_shared
    rng = ctx.rng
    n = 3000 if ctx.tier == "quick" else 200000
    deltas = [1] * 6 + list(range(2, 61)) + [1325, 1326, 2715647, 2715648]
    cases = []
    for fn in fn_pool(rng, n):
        cases.append(("w_c19_fn2gt", [fn]))
        cases.append(("w_c19_py", [fn]))
        t1, t2, t3 = fn // 1326, fn % 26, fn % 51
        cases.append(("w_c19_gt2fn", [t1, t2, t3]))
        d = rng.choice(deltas)
        cases.append(("w_c19_inc", [fn, t1, t2, t3, (fn // 51) % 8, d]))
    # every delta landing exactly on / just around the hyperframe end
    for d in sorted(set(deltas)):
        for fn in (H - d - 1, H - d, H - d + 1):
            if 0 <= fn < H:
                cases.append(("w_c19_inc", [fn, fn // 1326, fn % 26, fn % 51, (fn // 51) % 8, d]))
    # off-domain inputs (robustness of the tie, not part of the property): arbitrary components
    for _ in range(n // 10):
        cases.append(("w_c19_gt2fn", [rng.below(2048), rng.below(256), rng.below(256)]))
        cases.append(("w_c19_inc", [rng.below(H), rng.below(2048), rng.below(26), rng.below(51), rng.below(8), rng.choice(deltas)]))
    c_lines = [op + " " + " ".join(map(str, a)) for op, a in cases if op != "w_c19_py"]
    p = subprocess.run([binp], input="\n".join(c_lines) + "\n", stdout=subprocess.PIPE, stderr=subprocess.PIPE, text=True, timeout=600)
    if p.returncode != 0:
        ctx.oracle_fail("C harness crashed (sanitizer?)", p.stderr[-2000:], key="c19-harness-crash")
    c_out = iter(p.stdout.strip().split("\n"))
    impl = {}
    for k, (op, a) in enumerate(cases):
        if op == "w_c19_py":
            impl[k] = list(gsm_shared.HoppingParams.fn2gsm_time(a[0]))
        else:
            impl[k] = [int(x) for x in next(c_out).split()]
    idx = list(range(len(cases)))
    res = ctx.correspond("gsm-time", "GsmTime", idx, lambda k: cases[k][0] + " " + " ".join(map(str, cases[k][1])),
                         lambda k: impl[k], show=lambda k: cases[k])
    # implementation-level oracle (the property stated directly on the implementation)
    for k, (op, a) in enumerate(cases):
        o = impl[k]
        if op == "w_c19_fn2gt":
            fn = a[0]
            exp = [fn, fn // 1326, fn % 26, fn % 51, (fn // 51) % 8]
            if o != exp:
                ctx.oracle_fail("gsm_fn2gsmtime deviates from (T1,T2,T3,TC)", dict(fn=fn), key="c19-decomp", expected=exp, observed=o)
            ctx.nontrivial(("d", fn % 26 == 0, fn % 51 == 0, fn % 1326 == 0, fn == H - 1))
        elif op == "w_c19_py":
            fn = a[0]
            exp = [fn // 1326, fn % 26, fn % 51, (fn // 51) % 8]
            if o != exp:
                ctx.oracle_fail("fn2gsm_time deviates from the C decomposition", dict(fn=fn), key="c19-py", expected=exp, observed=o)
        elif op == "w_c19_gt2fn" and a[1] < 26 and a[2] < 51 and (a[0] * 1326 + 0) < H:
            # only consistent triples have a defined answer
            cand = [f for f in range(a[0] * 1326, a[0] * 1326 + 1326) if f % 26 == a[1] and f % 51 == a[2]]
            if cand and o != [cand[0]]:
                ctx.oracle_fail("gsm_gsmtime2fn does not recompose", dict(t1=a[0], t2=a[1], t3=a[2]), key="c19-recompose", expected=cand[:1], observed=o)
        elif op == "w_c19_inc":
            fn, t1, t2, t3, tc, d = a
            if [t1, t2, t3, tc] == [fn // 1326, fn % 26, fn % 51, (fn // 51) % 8] and 1 <= d <= H:
                f2 = (fn + d) % H
                exp = [f2, f2 // 1326, f2 % 26, f2 % 51, (f2 // 51) % 8]
                if o != exp:
                    ctx.oracle_fail("l1s_time_inc result is not the decomposition of the new FN", dict(fn=fn, delta=d), key="c19-inc", expected=exp, observed=o)
                ctx.nontrivial(("i", min(d, 2), f2 % 26 == 0, f2 % 51 == 0, f2 % 1326 == 0, f2 < fn))
    for k in range(0, len(cases), max(1, len(cases) // 5)):
        ctx.sample(dict(op=cases[k][0], args=cases[k][1], impl=impl[k]))
    # complete hyperframe walk on the C implementation (both tiers: 0.1 s)
    w = subprocess.run([binp, "walk"], stdout=subprocess.PIPE, text=True, timeout=600).stdout.strip()
    ctx.extra["c_full_hyperframe_walk"] = w
    if not w.startswith("OK"):
        parts = w.split()
        ctx.oracle_fail("full hyperframe walk in C failed: " + w, dict(kind=parts[1] if len(parts) > 1 else "?", fn=parts[2:] ), key="c19-walk")
    else:
        ctx.evaluations += int(w.split()[1])
        ctx.exhaustive = True
    # Python side over the whole hyperframe in thorough
    step = 1 if ctx.tier == "thorough" else 101
    for fn in range(0, H, step):
        if gsm_shared.HoppingParams.fn2gsm_time(fn) != (fn // 1326, fn % 26, fn % 51, (fn // 51) % 8):
            ctx.oracle_fail("fn2gsm_time deviates", dict(fn=fn), key="c19-py")
            break
    ctx.evaluations += len(range(0, H, step))
    ctx.extra["rule"] = ("FN pool: +-3 around multiples of 26, 51, 1326, 10608 and the hyperframe end, then uniform; deltas 1, 2..60, 1325, 1326, 2715647, 2715648; "
                         "distinct_nontrivial = distinct carry patterns (which of T2/T3/T1/hyperframe wrap at the new FN, delta class) reached")
