"""C02 - virtual Um routing. Model: Model/Trx.v (forward / fwd_loop / tick); theorems: Props/C02.v.
Tie: Gen + correspondence of random multi-transceiver sessions on the real Application with the extracted session model
+ independent reference of the routing rule computed from the implementation's own state before each tick."""
from .. import common, session_check as SC, session_wire as W
from .C07 import spec_mai


def gen(ctx):
    SC.gen_all(ctx)


def fanout_script(rng):
    """one sender, several receivers tuned to it (the situation in which 'one copy each' matters), random mute / drop / versions per receiver"""
    defs = W.rand_trx_defs(rng)
    while len(defs) < 1:
        defs = W.rand_trx_defs(rng)
    n = 2 + len(defs)
    snd = rng.below(n)
    fa, fb = W.FREQS[0], W.FREQS[2]
    ops, vers = [], [0] * n
    for i in range(n):
        if i == snd:
            ops += [("ctrl", i, W.cmd("CMD RXTUNE %d" % fb)), ("ctrl", i, W.cmd("CMD TXTUNE %d" % fa))]
        else:
            ops += [("ctrl", i, W.cmd("CMD RXTUNE %d" % (fa if rng.chance(5, 6) else fb))), ("ctrl", i, W.cmd("CMD TXTUNE %d" % fb))]
        vers[i] = rng.below(2)
        ops.append(("ctrl", i, W.cmd("CMD SETFORMAT %d" % vers[i])))
        ops.append(("ctrl", i, W.cmd("CMD POWERON")))
    fn = rng.below(W.H - 100)
    for _ in range(rng.range(6, 25)):
        i = rng.below(n)
        w = rng.below(6)
        if w == 0:
            ops.append(("ctrl", i, W.cmd("CMD RFMUTE %d" % rng.choice([0, 1, 1]))))
        elif w == 1:
            ops.append(("ctrl", i, W.cmd("CMD FAKE_DROP %d %d" % (rng.choice([0, 1, 2, 3]), rng.choice([1, 1, 2])))))
        else:
            ops.append(("data", snd, W.tx_datagram(vers[snd], fn, rng.below(8), rng.choice([0, 5, 20]), W.rand_burst(rng, 148))))
            ops.append(("state",))
            ops.append(("tick", fn))
            fn += 1
    ops.append(("state",))
    return defs, ops


def make_script(rng):
    if rng.chance(2, 5):
        return fanout_script(rng)
    defs = W.rand_trx_defs(rng)
    n = 2 + len(defs)
    ops = W.setup_ops(rng, n)
    if rng.chance(1, 2):
        # frequency hopping from the start on one or two transceivers (fixed tuning stays configured underneath and differs from the hopping channels)
        for i in set(rng.below(n) for _ in range(rng.range(1, 2))):
            k = rng.range(1, 4)
            fr = " ".join("%d %d" % (rng.choice(W.FREQS), rng.choice(W.FREQS)) for _ in range(k))
            ops.append(("ctrl", i, W.cmd("CMD SETFH %d %d %s" % (rng.choice([0, 1, 17, 63]), rng.below(4), fr))))
    fn = rng.choice([0, 0, 100, 2715640, W.H - 3, W.H - 1, 1326 * 7, rng.below(W.H)])
    vers = [0] * n
    for _ in range(rng.range(15, 60)):
        w = rng.below(10)
        if w < 2:
            i = rng.below(n)
            c = rng.below(8)
            if c == 0:
                ops.append(("ctrl", i, W.cmd("CMD RXTUNE %d" % W.rand_int_arg(rng, "RXTUNE"))))
            elif c == 1:
                ops.append(("ctrl", i, W.cmd("CMD TXTUNE %d" % W.rand_int_arg(rng, "TXTUNE"))))
            elif c == 2:
                k = rng.range(1, 4)
                fr = " ".join("%d %d" % (rng.choice(W.FREQS), rng.choice(W.FREQS)) for _ in range(k))
                ops.append(("ctrl", i, W.cmd("CMD SETFH %d %d %s" % (rng.choice([0, 1, 17, 63, 63, 64, -1, 100]), rng.below(4), fr))))      # incl. rejected ones (HSN outside 0..63): no effect
            elif c == 3:
                ops.append(("ctrl", i, W.cmd("CMD POWEROFF")))
            elif c == 4:
                ops.append(("ctrl", i, W.cmd("CMD POWERON")))
            elif c == 5:
                vers[i] = rng.below(2)
                ops.append(("ctrl", i, W.cmd("CMD SETFORMAT %d" % vers[i])))
            elif c == 6:
                ops.append(("ctrl", i, W.cmd("CMD RFMUTE %d" % rng.choice([0, 1, 1]))))
            else:
                ops.append(("ctrl", i, W.cmd("CMD FAKE_DROP %d %d" % (rng.choice([0, 1, 2, 5]), rng.choice([1, 1, 2, 3])))))
        else:
            for _ in range(1 + rng.below(3)):
                i = rng.below(n)
                # mostly bursts for the frame about to be ticked; some for the next frame (they wait) and some for a frame already
                # past (dropped as stale by their own transceiver - which must not disturb the routing of the others' bursts in that tick)
                dfn = (fn + rng.choice([0, 0, 0, 0, 0, 0, 1, -2])) % W.H
                ops.append(("data", i, W.tx_datagram(vers[i] if rng.chance(9, 10) else 1 - vers[i], dfn, rng.below(8), rng.choice([0, 5, 20, 40]), W.rand_burst(rng, rng.choice([148, 148, 444])))))
            ops.append(("state",))
            ops.append(("tick", fn))
            fn = (fn + rng.choice([1, 1, 1, 2])) % W.H
        if rng.chance(1, 10):
            ops.append(("ctrl", rng.below(n), W.rejected_cmd(rng)))      # refused / ignored: tuning, hopping and power stay as they are
    ops.append(("state",))
    return defs, ops


def freq(t, fn, rx):
    if t["fh"] is None:
        return t["rx"] if rx else t["tx"]
    hsn, maio, ma = t["fh"]
    pair = ma[spec_mai(hsn, maio, len(ma), fn)]
    return pair[0] if rx else pair[1]


def oracle(ctx, script, real):
    defs, ops = script
    cfg, obs, events = real
    last = None
    # the radio configuration as the command history defines it (independent of the state the implementation reports)
    track = [dict(rx=None, tx=None, fh=None, run=False) for _ in cfg]
    # mute flags, drop counters / periods and header versions likewise come from the command history (C05's reference of the documented
    # command table), not from the attributes the implementation reports: RFMUTE / FAKE_DROP / SETFORMAT act on the addressed transceiver only
    from . import C05 as _C05
    # which transceiver manages which children is taken from the --trx definitions (the wiring fake_trx documents: the BTS and
    # additional parents manage their children, the MS does not), not from the objects' own attributes
    from . import C12 as _C12
    want_cfg = _C12.expected_config(defs)
    if len(want_cfg) == len(cfg):
        for k, (g, w) in enumerate(zip(cfg, want_cfg)):
            bad = [f for f in w if g.get(f) != w[f]]
            if bad:
                ctx.oracle_fail("transceiver %d is not wired as its --trx definition says: %s" % (k, ",".join(bad)), dict(trx=k, trx_defs=defs),
                                key="c02-wiring:" + ",".join(bad), expected={f: w[f] for f in bad}, observed={f: g.get(f) for f in bad})
        cfg = [dict(c, **w) for c, w in zip(cfg, want_cfg)]
    ref = _C05.Ref(cfg)
    for e in events:
        if e["op"][0] == "ctrl":
            try:
                tk = bytes(e["op"][2]).decode("ascii").strip().strip("\0").split(" ")
                if tk[0] == "CMD" and len(tk) >= 2:
                    ref.cmd(e["op"][1], tk[1], [int(x) for x in tk[2:]])
            except (ValueError, UnicodeDecodeError):
                pass
        if e["op"][0] == "ctrl" and e["obs"][1] == 1:
            try:
                toks = bytes(e["op"][2]).decode("ascii").strip("\0").split(" ")
                rsp = bytes(e["obs"][3:]).decode("ascii").strip("\0").split(" ")
            except UnicodeDecodeError:
                toks, rsp = [], []
            i = e["op"][1]
            if len(toks) >= 2 and toks[0] == "CMD" and len(rsp) >= 3 and rsp[1] == toks[1]:
                aff = [i] + (cfg[i]["children"] if cfg[i]["mgt"] and cfg[i]["idx"] == 0 else [])
                try:
                    if toks[1] == "RXTUNE" and rsp[2] == "0" and len(toks) == 3:
                        track[i]["rx"] = int(toks[2]) * 1000
                    elif toks[1] == "TXTUNE" and rsp[2] == "0" and len(toks) == 3:
                        track[i]["tx"] = int(toks[2]) * 1000
                    elif toks[1] == "SETFH" and rsp[2] == "0" and len(toks) >= 6:
                        a = [int(x) for x in toks[2:]]
                        track[i]["fh"] = (a[0], a[1], [(a[k] * 1000, a[k + 1] * 1000) for k in range(2, len(a) - 1, 2)])
                    elif toks[1] == "POWEROFF":
                        for j in aff:
                            track[j]["fh"] = None      # power-off ends frequency hopping, on the children it switches off too
                            track[j]["run"] = False
                    elif toks[1] == "POWERON" and rsp[2] == "0":
                        for j in aff:
                            track[j]["run"] = True
                except ValueError:
                    pass
        if "state" in e:
            last = e["state"]
            for i, t in enumerate(last[0]):
                rep = dict(rx=t["rx"], tx=t["tx"], fh=None if t["fh"] is None else (t["fh"][0], t["fh"][1], [tuple(x) for x in t["fh"][2]]), run=bool(t["run"]))
                if rep != track[i]:
                    diff = [k for k in rep if rep[k] != track[i][k]]
                    ctx.oracle_fail("the radio configuration of a transceiver differs from what the commands sent to it (and to its parent) configured: " + ",".join(diff),
                                    dict(trx=i, trx_defs=defs, ops=[SC.describe(o) for o in ops]), key="c02-config:" + ",".join(diff),
                                    expected={k: track[i][k] for k in diff}, observed={k: rep[k] for k in diff})
                    track[i] = rep            # report once, then follow the implementation
                simr = (bool(t["sim"][0]), t["sim"][11], t["sim"][12], t["ver"])
                simw = (bool(ref.t[i]["muted"]), ref.t[i]["drop"], ref.t[i]["period"], ref.t[i]["ver"])
                if simr != simw:
                    ctx.oracle_fail("mute flag / drop counter / drop period / header version of a transceiver differ from what the commands addressed to IT set (and the bursts it suppressed since)",
                                    dict(trx=i, trx_defs=defs, ops=[SC.describe(o) for o in ops]), key="c02-loss-parameters-vs-history", expected=simw, observed=simr)
                    ref.t[i]["muted"], ref.t[i]["drop"], ref.t[i]["period"], ref.t[i]["ver"] = simr      # report once
        elif e["op"][0] == "tick" and last is not None and not e.get("exc"):
            fn = e["op"][1]
            st = last[0]
            expect = []
            for i, t in enumerate(st):
                if not t["run"]:
                    continue
                for qfn in t["q"]:
                    if qfn != fn:
                        continue
                    txf = freq(t, fn, False)
                    for j, u in enumerate(st):
                        if j != i and u["run"] and freq(u, fn, True) == txf:
                            # every tuned running peer gets its own copy; what it sees depends only on ITS mute / drop state and the sender's mute
                            if ref.t[j]["muted"] or ref.t[i]["muted"]:
                                sup = True
                            elif ref.t[j]["drop"] != 0 and fn % ref.t[j]["period"] == 0:
                                sup = True
                                ref.t[j]["drop"] -= 1
                            else:
                                sup = False
                            if sup and ref.t[j]["ver"] == 0:
                                continue
                            expect.append((i, j, "nope" if sup else "burst"))
                            ctx.nontrivial(("route", len(st), t["fh"] is not None, u["fh"] is not None, txf is None, bool(cfg[i]["children"]), cfg[j]["idx"] > 0))
            got = [(src, j, "nope" if (d[0] >> 4) >= 1 and (d[8] & 0x80) else "burst") for src, j, d, remote in e["log"]]
            if got != expect:
                ctx.oracle_fail("bursts were delivered to other transceivers than the running peers tuned to the sender's frequency",
                                dict(tick=fn, state=[dict(run=t["run"], rx=t["rx"], tx=t["tx"], fh=t["fh"], q=t["q"]) for t in st],
                                     trx_defs=defs, ops=[SC.describe(o) for o in ops]),
                                key="c02-routing", expected=expect, observed=got)
            for src, j, d, remote in e["log"]:
                t = cfg[j]
                want = ("127.0.0.1", None)
                if remote[0] != "127.0.0.1":
                    ctx.oracle_fail("burst sent to a foreign address", dict(remote=remote), key="c02-remote-addr")
        elif e.get("exc"):
            ctx.oracle_fail("clock tick raised %s" % e["exc"], dict(trx_defs=defs, ops=[SC.describe(o) for o in ops]), key="c02-tick-raises")


def mid_tick_reconfig(ctx, rng):
    """the socket thread may handle a command BETWEEN the clock thread's ticks of two transceivers of one frame (nothing is held across
    them): a hopping receiver that gets a new SETFH there is judged by its OLD sequence for the sender ticked before and by its NEW
    sequence for the sender ticked after - for the same frame number.  Implementation-level (the session model's tick is atomic)."""
    from ..session import Session
    fA, fB, fZ = 935000, 935200, 1805000
    n = 0
    for it in range(12 if ctx.tier == "quick" else 300):
        F = rng.choice([0, 1, 2, 100, 101, 2715646, 2715647, rng.below(W.H)])
        m0, m1 = rng.choice([(0, 1), (1, 0), (0, 0), (1, 1)])
        hsn0, hsn1 = rng.choice([(0, 0), (0, 0), (5, 0), (0, 9), (17, 17)])
        ma = [(fA, 890000), (fB, 890200)]
        s = Session([("127.0.0.1", 7700, 0)])
        try:
            for k in (0, 2):                      # the two senders: both transmit on fA, listen elsewhere
                s.ctrl(k, W.cmd("CMD RXTUNE %d" % fZ)); s.ctrl(k, W.cmd("CMD TXTUNE %d" % fA)); s.ctrl(k, W.cmd("CMD POWERON"))
            setfh = lambda h, m: W.cmd("CMD SETFH %d %d %s" % (h, m, " ".join("%d %d" % p for p in ma)))
            s.ctrl(1, setfh(hsn0, m0)); s.ctrl(1, W.cmd("CMD POWERON"))
            for k in (0, 2):
                s.data(k, W.tx_datagram(0, F, 3, 0, W.rand_burst(rng, 148)))
            rsock = s.trxs[1].data_if.sock
            rsock.sent.clear()
            s.trxs[0].clck_tick(s.app.burst_fwd, F)
            n1 = len(rsock.sent)
            o, exc = s.ctrl(1, setfh(hsn1, m1))
            s.trxs[2].clck_tick(s.app.burst_fwd, F)
            n2 = len(rsock.sent) - n1
            want1 = 1 if ma[spec_mai(hsn0, m0, 2, F)][0] == fA else 0
            want2 = 1 if ma[spec_mai(hsn1, m1, 2, F)][0] == fA else 0
            n += 1
            ctx.evaluations += 1
            ctx.nontrivial(("mid-tick", want1, want2, hsn0 != 0, hsn1 != 0))
            if (n1, n2) != (want1, want2) or exc:
                ctx.oracle_fail("a SETFH handled between the ticks of two transceivers of one frame: the receiver must be judged by its old hopping sequence for the sender ticked before and by the new one for the sender ticked after",
                                dict(frame=F, old=dict(hsn=hsn0, maio=m0), new=dict(hsn=hsn1, maio=m1), ma_khz=ma, sender_tx_khz=fA), key="c02-mid-tick-reconfig",
                                expected=(want1, want2), observed=(n1, n2))
                break
        finally:
            s.close()
    ctx.count("mid_tick_reconfigurations", n)


def arrival_race(ctx, rng):
    """a burst arriving on the socket thread while the clock thread ticks the same transceiver (two real threads, preemption at the
    lock operations and at every access to the queue): whatever the schedule, the burst is either sent in its frame, still queued or
    reported - never lost, so the tuned running peer gets its copy (schedule driver shared with C03)"""
    from .. import sched_driver as SD
    n = 0
    for q, op in (([(1, 10)], ("arrive", 5, 10)), ([(1, 10), (2, 11)], ("arrive", 6, 11)), ([], ("arrive", 7, 10)), ([(1, 9), (2, 10)], ("arrive", 8, 12))):
        for _ in range(12 if ctx.tier == "quick" else 400):
            sched = [rng.below(2) for _ in range(14)]
            ctx.in_flight = ("arrival-race", op, q, sched)
            o, trace, states = SD.run_one(10, True, False, op, q, sched)
            n += 1
            ne = o[3]; emitted = o[4:4 + ne]; ns = o[4 + ne]; stale = o[5 + ne:5 + ne + ns]; nq = o[5 + ne + ns]; queue = o[6 + ne + ns:6 + ne + ns + nq]
            cleared, rejected = o[-2], o[-1]
            accepted = len(q) + (0 if rejected else 1)
            if o[0] or len(emitted) + len(stale) + len(queue) + cleared != accepted or len(set(emitted + stale + queue)) != len(emitted + stale + queue):
                ctx.oracle_fail("a burst accepted while the clock thread was ticking its transceiver is lost (or duplicated): the tuned running peer never gets its copy",
                                dict(tick=10, queue=q, arrival=op, schedule=sched, trace=trace, emitted=emitted, stale=stale, still_queued=queue), key="c02-arrival-race")
                return
    ctx.count("arrival_race_schedules", n)
    ctx.evaluations += n


def run(ctx):
    gen(ctx)
    ctx.prove()
    if ctx.tier == "thorough":
        ctx.coqchk()
    rng = ctx.rng
    n = 120 if ctx.tier == "quick" else 5000
    scripts = [make_script(rng) for _ in range(n)]
    reals = SC.run_scripts(ctx, "session", scripts)
    for s, r in zip(scripts, reals):
        oracle(ctx, s, r)
        W.refused_leaves_no_trace(ctx, s, r, "c02")
    mid_tick_reconfig(ctx, rng)
    arrival_race(ctx, rng)
    # delivery also depends on the simulated level staying in the protocol range, which is computed from the SENDER's power and the
    # burst's attenuation (outside the range nothing is sent: C13) - sessions with SETPOWER / FAKE_RSSI differing between the two
    # sides, judged on what each peer receives (generator and oracle shared with C10)
    from . import C10 as _C10
    _bursts = _C10.gen_bursts(ctx.seed)
    _gi = {tuple(b[0]): (b[1], b[2], b[3]) for b in _bursts}
    eff = [_C10.make_script(rng, _bursts) for _ in range(40 if ctx.tier == "quick" else 1500)]
    for s, r in zip(eff, SC.run_scripts(ctx, "level-session", eff)):
        _C10.oracle(ctx, s, r, _gi)
    ctx.sample(dict(trx_defs=scripts[0][0], ops=[SC.describe(o) for o in scripts[0][1][:12]]))
    ctx.count("operations", sum(len(s[1]) for s in scripts))
    ctx.count("transceivers", sum(2 + len(s[0]) for s in scripts))
    ctx.extra["rule"] = ("sessions of 2..6 transceivers (BTS, MS, extra parents, children) with random RXTUNE/TXTUNE/SETFH/POWERON/POWEROFF/SETFORMAT/RFMUTE/FAKE_DROP and bursts from any of them, "
                         "ticks incl. the hyperframe wrap; distinct_nontrivial = distinct (world size, sender hopping, recipient hopping, untuned None==None match, parent/child) per delivery")
