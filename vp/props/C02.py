"""C02 - virtual Um routing. Model: Model/Trx.v (forward / fwd_loop / tick); theorems: Props/C02.v.
Tie: Gen + correspondence of random multi-transceiver sessions on the real Application with the extracted session model
+ independent reference of the routing rule computed from the implementation's own state before each tick."""
from .. import common, session_check as SC, session_wire as W
from .C07 import spec_mai


def gen(ctx):
    SC.gen_all(ctx)


def make_script(rng):
    defs = W.rand_trx_defs(rng)
    n = 2 + len(defs)
    ops = W.setup_ops(rng, n)
    fn = rng.choice([0, 100, 2715640, 1326 * 7, rng.below(W.H)])
    vers = [0] * n
    for _ in range(rng.range(15, 60)):
        w = rng.below(10)
        if w < 2:
            i = rng.below(n)
            c = rng.below(6)
            if c == 0:
                ops.append(("ctrl", i, W.cmd("CMD RXTUNE %d" % rng.choice(W.FREQS))))
            elif c == 1:
                ops.append(("ctrl", i, W.cmd("CMD TXTUNE %d" % rng.choice(W.FREQS))))
            elif c == 2:
                k = rng.range(1, 4)
                fr = " ".join("%d %d" % (rng.choice(W.FREQS), rng.choice(W.FREQS)) for _ in range(k))
                ops.append(("ctrl", i, W.cmd("CMD SETFH %d %d %s" % (rng.choice([0, 1, 17, 63]), rng.below(4), fr))))
            elif c == 3:
                ops.append(("ctrl", i, W.cmd("CMD POWEROFF")))
            elif c == 4:
                ops.append(("ctrl", i, W.cmd("CMD POWERON")))
            else:
                vers[i] = rng.below(2)
                ops.append(("ctrl", i, W.cmd("CMD SETFORMAT %d" % vers[i])))
        else:
            for _ in range(1 + rng.below(3)):
                i = rng.below(n)
                ops.append(("data", i, W.tx_datagram(vers[i] if rng.chance(9, 10) else 1 - vers[i], fn, rng.below(8), rng.choice([0, 5, 20, 40]), W.rand_burst(rng, rng.choice([148, 148, 444])))))
            ops.append(("state",))
            ops.append(("tick", fn))
            fn = (fn + rng.choice([1, 1, 1, 2])) % W.H
    ops.append(("state",))
    return defs, ops


def freq(t, fn, rx):
    if t["fh"] is None:
        return t["rx"] if rx else t["tx"]
    hsn, maio, ma = t["fh"]
    pair = ma[spec_mai(hsn, maio, len(ma), fn)]
    return pair[0] if rx else pair[1]


def oracle(ctx, script, real):
    defs, ops = script
    cfg, obs, events = real
    last = None
    for e in events:
        if "state" in e:
            last = e["state"]
        elif e["op"][0] == "tick" and last is not None and not e.get("exc"):
            fn = e["op"][1]
            st = last[0]
            expect = []
            for i, t in enumerate(st):
                if not t["run"]:
                    continue
                for qfn in t["q"]:
                    if qfn != fn:
                        continue
                    txf = freq(t, fn, False)
                    for j, u in enumerate(st):
                        if j != i and u["run"] and freq(u, fn, True) == txf:
                            expect.append((i, j))
                            ctx.nontrivial(("route", len(st), t["fh"] is not None, u["fh"] is not None, txf is None, bool(cfg[i]["children"]), cfg[j]["idx"] > 0))
            got = [(src, j) for src, j, d, remote in e["log"]]
            if got != expect:
                ctx.oracle_fail("bursts were delivered to other transceivers than the running peers tuned to the sender's frequency",
                                dict(tick=fn, state=[dict(run=t["run"], rx=t["rx"], tx=t["tx"], fh=t["fh"], q=t["q"]) for t in st],
                                     trx_defs=defs, ops=[SC.describe(o) for o in ops]),
                                key="c02-routing", expected=expect, observed=got)
            for src, j, d, remote in e["log"]:
                t = cfg[j]
                want = ("127.0.0.1", None)
                if remote[0] != "127.0.0.1":
                    ctx.oracle_fail("burst sent to a foreign address", dict(remote=remote), key="c02-remote-addr")
        elif e.get("exc"):
            ctx.oracle_fail("clock tick raised %s" % e["exc"], dict(trx_defs=defs, ops=[SC.describe(o) for o in ops]), key="c02-tick-raises")


def run(ctx):
    gen(ctx)
    ctx.prove()
    if ctx.tier == "thorough":
        ctx.coqchk()
    rng = ctx.rng
    n = 120 if ctx.tier == "quick" else 5000
    scripts = [make_script(rng) for _ in range(n)]
    reals = SC.run_scripts(ctx, "session", scripts)
    for s, r in zip(scripts, reals):
        oracle(ctx, s, r)
    ctx.sample(dict(trx_defs=scripts[0][0], ops=[SC.describe(o) for o in scripts[0][1][:12]]))
    ctx.count("operations", sum(len(s[1]) for s in scripts))
    ctx.count("transceivers", sum(2 + len(s[0]) for s in scripts))
    ctx.extra["rule"] = ("sessions of 2..6 transceivers (BTS, MS, extra parents, children) with random RXTUNE/TXTUNE/SETFH/POWERON/POWEROFF/SETFORMAT and bursts from any of them, "
                         "ticks incl. the hyperframe wrap; distinct_nontrivial = distinct (world size, sender hopping, recipient hopping, untuned None==None match, parent/child) per delivery")
