"""C08 - firmware TDMA scheduler. Model: Model/TdmaSched.v; theorems: Props/C08.v.
Tie: Gen/FwSchedConst.v (TDMASCHED_NUM_FRAMES / NUM_CB, array sizes and field widths as compiled from the real headers)
+ correspondence of the extracted model with the real layer1/tdma_sched.c (host build, ASan/UBSan, logging callbacks)
on generated operation histories; implementation-level oracle = a direct Python statement of the property
(an item scheduled N < 25 frames ahead is due exactly N advances later, runs once, ascending priority, nothing else runs,
a full frame answers -1 and keeps what it holds).
Re-entrant part: callbacks 15 (SPAWN) / 16 (RSPAWN) of the harness call the real tdma_schedule() / tdma_sched_reset() from inside
the real tdma_sched_execute(); the model side is tdma_sched_execute_sp (wire function w_c08_runsp), the old wire function
w_c08_run is still compared on every history without such callbacks (harness mode v1).
GSM-time one-shot events: the real layer1/sched_gsmtime.c is #included too (harness mode gsm: sched_gsmtime / sched_gsmtime_execute /
sched_gsmtime_reset interleaved with the TDMA operations, both llists dumped at the end); model Model/SchedGsmtime.v (w_c08_gsm);
oracle: an event requested for frame F is handed over exactly once, by the execute of frame F - 2, its items run in frame F - 1 + k,
-EBUSY with 16 pending, pool conserved, active list in ascending frame order."""
import os
import subprocess

from .. import common
from ..common import REPO, LIBOSMO, ROOT

DEPTH = 25     # literal protocol numbers of the property statement (the oracle does not read them from the source)
CAP = 8
NCBK = 15
CB_SPAWN = 15
CB_RSPAWN = 16
NEVENTS = 16                # sched_gsmtime event pool
EBUSY = 16
GSM_MAX_FN = 2715648        # 26 * 51 * 2048
SRC = "src/target/firmware/layer1/tdma_sched.c"
SRC_G = "src/target/firmware/layer1/sched_gsmtime.c"


def build_c(ctx):
    flags = ('-idirafter %s/src/target/firmware/include -I%s/include -I%s/include -DC08_SOURCE=\'"%s"\' -DC08G_SOURCE=\'"%s"\''
             % (REPO, LIBOSMO, REPO, os.path.join(REPO, SRC), os.path.join(REPO, SRC_G)))
    ok, path, log = common.cc("c08", [os.path.join(ROOT, "charness/c08.c")], flags=flags)
    if not ok:
        raise RuntimeError("C08 harness does not compile:\n" + log[-3000:])
    return path


def gen(ctx):
    binp = build_c(ctx)
    out = subprocess.run([binp, "const"], stdout=subprocess.PIPE, text=True, timeout=30).stdout
    vals = {}
    for l in out.strip().split("\n"):
        k, v = l.split()
        vals[k] = int(v)
    txt = common.gen_header("firmware include/layer1/tdma_sched.h + sync.h as compiled (charness/c08.c const): macros, ARRAY_SIZEs, field widths")
    for k in ("TDMASCHED_NUM_FRAMES", "TDMASCHED_NUM_CB", "NBUCKETS", "NITEMS", "CUR_BITS", "NUM_ITEMS_BITS",
              "P1_BITS", "P2_BITS", "P3_BITS", "PRIO_BITS", "PRIO_SIGNED", "P3_SIGNED"):
        txt += "Definition c_%s : Z := %d.\n" % (k, vals[k])
    ctx.gen("FwSchedConst", txt)
    txt = common.gen_header("firmware layer1/sched_gsmtime.c + include/layer1/sched_gsmtime.h + errno.h + osmocom/gsm/gsm_utils.h as compiled "
                            "(charness/c08.c const): event pool size, SCHEDULE_AHEAD / SCHEDULE_LATENCY, EBUSY, GSM_MAX_FN, field widths")
    for k in ("GSMTIME_NEVENTS", "SCHEDULE_AHEAD", "SCHEDULE_LATENCY", "EBUSY", "GSM_MAX_FN", "GSMTIME_FN_BITS", "GSMTIME_FN_SIGNED",
              "GSMTIME_P3_BITS"):
        txt += "Definition c_%s : Z := %d.\n" % (k, vals[k])
    ctx.gen("FwGsmtimeConst", txt)
    return binp


# ------------------------------------------------------------------ case generation
# op encodings (python side): ("s", off, cb, p1, p2, p3, prio) ("S", off, p3, [(cb,p1,p2,p3,prio)...]) ("a",) ("x",) ("r",)

def flat(case):
    cur, ops = case
    out = [cur]
    for o in ops:
        if o[0] == "s":
            out += [1] + list(o[1:])
        elif o[0] == "S":
            out += [2, o[1], o[2], len(o[3])]
            for it in o[3]:
                out += list(it)
        elif o[0] == "a":
            out.append(3)
        elif o[0] == "x":
            out.append(4)
        elif o[0] == "r":
            out.append(5)
        elif o[0] == "g":        # sched_gsmtime(items, fn, p3)
            out += [6, o[1], o[2], len(o[3])]
            for it in o[3]:
                out += list(it)
        elif o[0] == "ge":       # sched_gsmtime_execute(fn)
            out += [7, o[1]]
        elif o[0] == "gr":       # sched_gsmtime_reset()
            out.append(8)
        else:  # raw ints (malformed stream)
            out += list(o[1])
    return out


class G:
    def __init__(self, rng, mode):
        self.r = rng
        self.mode = mode
        r = rng
        self.prios = {"ties": [0], "ties3": [-1, 0, 1], "edge": [-32768, -32767, -1, 0, 1, 32766, 32767]}.get(
            r.choice(["ties", "ties3", "ties3", "edge", "any", "any"]))
        self.serial = 0

    def prio(self):
        if self.prios:
            return self.r.choice(self.prios)
        return self.r.range(-32768, 32767) if self.r.chance(1, 2) else self.r.range(-4, 4)

    def cb(self, wild=False):
        r = self.r
        if wild and r.chance(1, 12):
            return r.choice([0, 1, 12, 12, 13, 14])
        return r.range(2, 11)

    def off(self, wild=False):
        r = self.r
        if wild and r.chance(1, 10):
            return r.choice([25, 26, 49, 50, 230, 231, 254, 255, 256, 280, -1])
        k = r.below(10)
        if k < 3:
            return r.choice([0, 0, 24, 24, 1, 23])
        return r.below(DEPTH)

    def item(self, wild=False):
        r = self.r
        self.serial += 1
        p1 = r.choice([0, 255, self.serial & 255]) if r.chance(1, 4) else r.below(256)
        p2 = r.below(256)
        p3 = r.choice([0, 65535, 65536 + 7, -1]) if (wild and r.chance(1, 8)) else (self.serial if r.chance(1, 2) else r.below(65536))
        return (self.cb(wild), p1, p2, p3, self.prio())

    def spawner(self, child_off=None, wild=False):
        """an item whose callback schedules a child child_off frames ahead while execute runs (p2 = offset, p1 -> child cb / prio)"""
        r = self.r
        self.serial += 1
        if child_off is None:
            k = r.below(10)
            child_off = 0 if k < 4 else r.choice([1, 24, 24, 23, 2]) if k < 6 else r.below(DEPTH)
            if wild and r.chance(1, 10):
                child_off = r.choice([25, 26, 50, 255])
        p1 = r.choice([127, 128, 129]) if r.chance(1, 2) else r.below(256)      # child prio p1 - 128: -1 / 0 / 1 or anything
        p3 = self.serial if r.chance(1, 2) else r.below(65536)
        return (CB_RSPAWN if r.chance(1, 6) else CB_SPAWN, p1, child_off, p3, self.prio())

    def sched(self, off=None, wild=False):
        it = self.item(wild)
        if self.mode.startswith("spawn") and self.r.chance(1, 3):
            it = self.spawner(wild=wild)
        return ("s", self.off(wild) if off is None else off) + it

    def sset(self, wild=False):
        r = self.r
        nfr = r.choice([1, 1, 2, 2, 3, 4, 6])
        items = []
        for f in range(nfr):
            for _ in range(r.choice([0, 1, 1, 2, 2, 3, 9 if wild else 2])):
                items.append(self.spawner() if (self.mode.startswith("spawn") and r.chance(1, 5)) else self.item(False))
            if f < nfr - 1 or r.chance(1, 3):
                items.append((0, 0, 0, 0, 0))
        if not (wild and r.chance(1, 6)):
            items.append((1, 0, 0, 0, 0))
            if wild and r.chance(1, 5):     # garbage behind the terminator is never read
                items.append(self.item(False))
        items = items[:64]
        off = self.off(wild)
        if not wild:
            fr = sum(1 for it in items if it[0] == 0)
            off = min(off, DEPTH - 1 - fr)
        return ("S", off, r.below(65536), items)


def gen_case(rng, k):
    r = rng
    modes = ["mix", "mix", "firmware", "firmware", "fill", "ties", "wild", "walk", "sets",
             "spawn", "spawn", "spawnfw", "spawnfw", "spawnfill", "spawnwild", "spawnchain"]
    mode = modes[k % len(modes)]
    g = G(r, mode)
    cur = r.below(DEPTH) if k % 5 else (k // 5) % DEPTH          # every ring position is a start position
    ops = []
    n = r.choice([4, 10, 25, 40, 80, 130])
    wild = mode in ("wild", "spawnwild")
    if mode in ("mix", "wild", "ties", "sets", "spawn", "spawnwild"):
        for _ in range(n):
            x = r.below(100)
            if x < (30 if mode == "sets" else 48):
                ops.append(g.sched(wild=wild))
            elif x < (55 if mode == "sets" else 58):
                ops.append(g.sset(wild=wild))
            elif x < 76:
                ops.append(("a",))
            elif x < 97:
                ops.append(("x",))
            else:
                ops.append(("r",))
    elif mode in ("firmware", "spawnfw"):   # the L1S frame interrupt: execute (callbacks schedule), advance
        for _ in range(n):
            ops.append(("x",))
            for _ in range(r.choice([0, 0, 1, 1, 2, 3])):
                ops.append(g.sset() if r.chance(1, 3) else g.sched())
            if r.chance(1, 40):
                ops.append(("r",))
            ops.append(("a",))
    elif mode == "spawnchain":        # spawners whose children land in frames that hold further spawners; every frame executed
        for _ in range(r.choice([3, 8, 20])):
            ops.append(("s", g.off()) + g.spawner())
            if r.chance(1, 3):
                ops.append(g.sched())
        for _ in range(2 * DEPTH + r.below(5)):
            ops.append(("x",))
            if r.chance(1, 5):
                ops.append(("s", r.choice([0, 0, 1, 24])) + g.spawner())
            ops.append(("a",))
    elif mode == "spawnfill":         # spawners aim at frames that are full or one below full (their own frame included)
        o1 = g.off()
        tgt = r.choice([0, 0, 1, 24, r.below(DEPTH)])
        fill1 = r.choice([5, 6, 7, 7, 8])
        nsp = r.choice([1, 1, 2, 3])
        for _ in range(max(0, fill1 - nsp)):
            ops.append(g.sched(off=o1))
        for _ in range(nsp):
            ops.insert(r.below(len(ops) + 1), ("s", o1) + g.spawner(child_off=tgt))
        if tgt != 0:
            for _ in range(r.choice([6, 7, 7, 8, 8])):
                ops.append(g.sched(off=(o1 + tgt) % DEPTH))
        for _ in range(o1):
            ops.append(("a",))
        ops.append(("x",))
        for _ in range(DEPTH + 1):
            if r.chance(1, 8):
                ops.append(g.sched())
            ops += [("a",), ("x",)]
    elif mode == "fill":              # full buckets, capacity boundary
        offs = [g.off() for _ in range(r.choice([1, 2, 3]))]
        for _ in range(n):
            x = r.below(100)
            if x < 70:
                ops.append(g.sched(off=r.choice(offs)))
            elif x < 78:
                ops.append(g.sset())
            elif x < 88:
                ops.append(("x",))
            elif x < 98:
                ops.append(("a",))
                offs = [o - 1 if o > 0 else DEPTH - 1 for o in offs]
            else:
                ops.append(("r",))
    else:                              # walk: one item at every offset, then a complete trip round the ring
        for o in range(DEPTH):
            for _ in range(r.choice([1, 1, 2, 8, 9])):
                ops.append(g.sched(off=o))
        for _ in range(DEPTH + r.below(4)):
            ops.append(("x",))
            if r.chance(1, 6):
                ops.append(("x",))
            ops.append(("a",))
    return (cur, ops)


def gen_gsm_case(rng, k):
    """the L1S frame interrupt with one-shot events: tdma execute, requests (from callbacks / L23), sched_gsmtime_execute(fn), advance"""
    r = rng
    modes = ["frames", "frames", "desc", "asc", "equal", "between", "pool", "wrap", "wrap", "direct", "u32", "loose"]
    mode = modes[k % len(modes)]
    g = G(r, "gsm")
    g.prios = [-1, 0, 1]
    cur = r.below(DEPTH) if k % 3 else (k // 3) % DEPTH
    if mode == "wrap":
        fn = GSM_MAX_FN - r.choice([1, 2, 3, 5, 12, 30])
    elif mode == "u32":
        fn = (1 << 32) - r.choice([1, 2, 3, 10, 40])
    else:
        fn = r.choice([0, 0, 1, 100, 2715000, r.below(GSM_MAX_FN - 400)])
    ops = []
    serial = [0]

    def gset():
        nfr = r.choice([1, 1, 1, 2, 2, 3, 4])
        items = []
        for f in range(nfr):
            for _ in range(r.choice([1, 1, 1, 2, 3, 0])):
                items.append(g.item(False))
            if f < nfr - 1 or r.chance(1, 2):
                items.append((0, 0, 0, 0, 0))
        items.append((1, 0, 0, 0, 0))
        if r.chance(1, 10):
            items.append(g.item(False))          # behind the terminator: never read
        return items

    def req(F):
        serial[0] += 1
        if mode != "u32":
            F %= GSM_MAX_FN                       # prim_rach.c / prim_freq.c reduce the frame number themselves
        return ("g", F, 1000 + serial[0], gset())

    nframes = r.choice([6, 20, 45, 80])
    for i in range(nframes):
        ops.append(("x",))
        nreq = r.choice([0, 0, 0, 1, 1, 2])
        if mode in ("desc", "asc", "equal", "between") and i % 9 == 0:
            base = fn + r.choice([2, 3, 5, 9])
            ds = {"desc": [12, 8, 4, 0], "asc": [0, 3, 3, 7, 11], "equal": [4, 4, 4, 0, 4], "between": [0, 10, 5, 7, 2, 5]}[mode]
            for d in ds[:r.choice([2, 3, len(ds)])]:
                ops.append(req(base + d))
            nreq = 0
        if mode == "pool" and i % 14 == 2:
            for j in range(r.choice([15, 16, 17, 19])):
                ops.append(req(fn + 2 + r.choice([0, 1, 2, 3, 6, 10, 11])))
            nreq = 0
        for _ in range(nreq):
            d = r.choice([2, 2, 3, 4, 6, 10, 23, 30]) if mode != "loose" else r.choice([0, 1, 2, 3, 5, 200])
            ops.append(req(fn + d))
        if mode == "direct" or r.chance(1, 6):
            for _ in range(r.choice([1, 1, 2, 6])):
                ops.append(g.sset() if r.chance(1, 3) else g.sched(off=r.choice([0, 1, 1, 2, 3, 24])))
        if r.chance(1, 60):
            ops.append(("gr",))
        if r.chance(1, 90):
            ops.append(("r",))
        if mode == "loose" and r.chance(1, 8):
            continue                              # a frame interrupt without sched_gsmtime_execute (never in the firmware)
        ops.append(("ge", fn))
        ops.append(("a",))
        fn = (fn + 1) % ((1 << 32) if mode == "u32" else GSM_MAX_FN)
    return (cur, ops)


def gsm_grid_cases():
    """every ring position: events requested 2..27 frames ahead in descending, ascending and equal frame order; every frame processed"""
    out = []
    for cur in range(DEPTH):
        for shape in range(3):
            fn = 500 + 40 * cur
            ds = [[27, 20, 9, 2], [2, 9, 20, 27], [6, 6, 2, 6]][shape]
            ops = []
            for j, d in enumerate(ds):
                ops.append(("g", fn + d, 3000 + 10 * cur + j,
                            [(2 + j, j, d, 0, 1 - j), (0, 0, 0, 0, 0), (6 + j, j, d, 0, 0), (7, j, d, 0, -1), (0, 0, 0, 0, 0), (1, 0, 0, 0, 0)]))
            for i in range(34):
                ops += [("x",), ("ge", fn + i), ("a",)]
            out.append((cur, ops))
    return out


def grid_cases():
    """every ring position x every offset: one item, every frame executed; it must run at exactly the N-th advance"""
    out = []
    for cur in range(DEPTH):
        for n in range(DEPTH):
            ops = [("s", n, 2 + (cur + n) % 10, cur, n, 1000 + cur * DEPTH + n, n - 12)]
            for _ in range(DEPTH + 2):
                ops += [("x",), ("a",)]
            out.append((cur, ops))
    return out


def spawn_grid_cases():
    """every ring position x every child offset: a spawner M frames ahead (M from the position), other items around it with lower,
    equal and higher priority, every frame executed; the child must run exactly N advances after its parent ran"""
    out = []
    for cur in range(DEPTH):
        for n in range(DEPTH):
            m = (3 * cur + n) % 5
            kind = CB_RSPAWN if (cur + n) % 7 == 0 else CB_SPAWN
            ops = [("s", m, 4, 1, 1, 1, -3), ("s", m, kind, 120 + (cur + n) % 16, n, 2000 + cur * DEPTH + n, 0), ("s", m, 5, 2, 2, 2, 3)]
            if n:
                ops.append(("s", (m + n) % DEPTH, 6, 3, 3, 3, (cur % 3) - 1))
            for _ in range(DEPTH + 6):
                ops += [("x",), ("a",)]
            out.append((cur, ops))
    return out


def has_spawn(case):
    for o in case[1]:
        if o[0] == "s" and o[2] >= NCBK:
            return True
        if o[0] == "S" and any(it[0] >= NCBK for it in o[3]):
            return True
    return False


def sort_cases(vals, maxn):
    """every priority pattern over `vals` for every bucket size: the order of ties is compared with the model"""
    out = []
    for n in range(1, maxn + 1):
        for code in range(len(vals) ** n):
            ops = []
            c = code
            for i in range(n):
                ops.append(("s", 3, 2 + i, i, n, code & 65535, vals[c % len(vals)]))
                c //= len(vals)
            ops += [("a",), ("a",), ("a",), ("x",)]
            out.append(((n + code) % DEPTH, ops))
    return out


def malformed_case(rng, k):
    r = rng
    n = r.choice([0, 1, 3, 9, 20])
    raw = [r.choice([0, 1, 2, 3, 4, 5, 6, -1, 24, 25, 64, 65, 255, 65535, 1 << 40, -(1 << 40)]) if r.chance(2, 3) else r.range(-300, 300)
           for _ in range(n)]
    cur = r.choice([0, 24, 25, -1, 7])
    if k % 3 == 0:      # a valid prefix and a truncated tail
        c = gen_case(r, k)
        fl = flat(c)
        cut = r.below(len(fl) + 1)
        return (fl[0], [("raw", fl[1:cut] + raw)])
    return (cur, [("raw", raw)])


# ------------------------------------------------------------------ implementation-level oracle

def u8(x):
    return x & 255


def u16(x):
    return x & 65535


def s16(x):
    x &= 65535
    return x - 65536 if x >= 32768 else x


class Ref:
    """the property, stated directly: pending = list of [due(mod 25 frame number), call tuple, prio]"""

    def __init__(self, cur):
        self.cur0 = cur
        self.now = 0
        self.pend = []

    def due_now(self, d=0):
        return [e for e in self.pend if (e[0] - self.now - d) % DEPTH == 0]


def oracle(ctx, case, impl):
    """walks the implementation's observation stream of one history against the property. Returns behaviour-class key."""
    cur, ops = case
    ref = Ref(cur)
    pos = 0
    feats = set()

    def fail(what, key, expected=None, observed=None):
        ctx.oracle_fail(what, dict(cur=cur, ops=ops, line=" ".join(map(str, flat(case)))), key=key, expected=expected, observed=observed)

    def take(n):
        nonlocal pos
        v = impl[pos:pos + n]
        pos += n
        return v

    gpend = []          # requested one-shot events not handed over yet: (frame, request serial, p3, item array)
    gser = [0]

    def apply_set(off, p3, items, observe):
        """tdma_schedule_set(off, items, p3); observe = its return value is in the observation stream (not when sched_gsmtime_execute calls it)"""
        fr = 0
        terminated = False
        for it in items:
            if it[0] == 1:
                terminated = True
                break
            if it[0] == 0:
                fr += 1
        if not (0 <= off and off + fr < DEPTH) or not terminated or any(it[0] in (13, 14) for it in items):
            return ("out-of-domain", tuple(sorted(feats)))
        exp = 0
        k = 0
        for it in items:
            if it[0] == 1:
                break
            if it[0] == 0:
                k += 1
                continue
            if len(ref.due_now(off + k)) >= CAP:
                exp = -1
                break
            ref.pend.append([(ref.now + off + k) % DEPTH, (it[0], u8(it[1]), u8(it[2]), u16(p3)), s16(it[4])])
        want = -1 if exp < 0 else k
        feats.add(("set-overflow" if exp < 0 else "set%d" % min(k, 3)) + ("" if observe else "-by-event"))
        if observe:
            rc = take(1)[0]
            if rc != want:
                fail("tdma_schedule_set return value", "c08-set-rc", want, rc)
                return None
        return True

    for o in ops:
        if pos >= len(impl):
            fail("observation stream ends early", "c08-short-output")
            return None
        if o[0] == "s":
            _, off, cb, p1, p2, p3, prio = o
            if not (0 <= off < DEPTH) or cb in (0, 13, 14):
                return ("out-of-domain", tuple(sorted(feats)))       # offsets >= depth, NULL / failing callbacks: outside C08
            n = len(ref.due_now(off))
            rc = take(1)[0]
            if n >= CAP:
                feats.add("overflow")
                if rc != -1:
                    fail("schedule into a full frame not reported", "c08-overflow-not-reported", -1, rc)
                    return None
            else:
                if rc != 0:
                    fail("schedule into a frame with room failed", "c08-schedule-rc", 0, rc)
                    return None
                ref.pend.append([(ref.now + off) % DEPTH, (cb, u8(p1), u8(p2), u16(p3)), s16(prio)])
                if n + 1 == CAP:
                    feats.add("full")
            if (ref.cur0 + ref.now) % DEPTH + off >= DEPTH:
                feats.add("wraps")
            feats.add("off0" if off == 0 else "off24" if off == 24 else "off")
        elif o[0] == "S":
            _, off, p3, items = o
            r_ = apply_set(off, p3, items, True)
            if r_ is not True:
                return r_
        elif o[0] == "g":
            _, gfn, gp3, items = o
            if not (0 <= gfn < GSM_MAX_FN):
                return ("out-of-domain", tuple(sorted(feats)))       # the callers pass absolute frame numbers of the hyperframe
            rc = take(1)[0]
            if len(gpend) >= NEVENTS:
                feats.add("g-ebusy")
                if rc != -EBUSY:
                    fail("sched_gsmtime with all %d event slots pending must answer -EBUSY" % NEVENTS, "c08-gsm-ebusy", -EBUSY, rc)
                    return None
            else:
                if rc != 0:
                    fail("sched_gsmtime with a free event slot failed", "c08-gsm-rc", 0, rc)
                    return None
                gser[0] += 1
                if gpend:
                    fs = [e[0] for e in gpend]
                    feats.add("g-req-equal" if gfn in fs else "g-req-below" if gfn < min(fs) else "g-req-above" if gfn > max(fs) else "g-req-between")
                gpend.append((gfn, gser[0], u16(gp3), items))
                if len(gpend) == NEVENTS:
                    feats.add("g-pool-full")
        elif o[0] == "ge":
            fn = o[1]
            if not (0 <= fn < GSM_MAX_FN):
                return ("out-of-domain", tuple(sorted(feats)))       # l1s.current_time.fn is a frame number of the hyperframe
            # the property: an event requested for frame F is handed over in the frame two before F (frame numbers count modulo the hyperframe)
            duel = sorted((e for e in gpend if e[0] == (fn + 2) % GSM_MAX_FN), key=lambda e: e[1])
            wrapped = [e for e in duel if e[0] != fn + 2]          # due across the hyperframe wrap: events for the frames 0 and 1
            if wrapped:
                feats.add("g-fire-across-wrap")
            num = take(1)[0]
            if num != len(duel):
                if wrapped and num == len(duel) - len(wrapped):
                    # the defect repaired by commit 9c8dce2 (fn + SCHEDULE_AHEAD compared without reduction modulo GSM_MAX_FN): reported under its own key
                    fail("an event requested for frame %d of the next hyperframe is not handed over at frame %d (is fn + SCHEDULE_AHEAD reduced modulo %d?)"
                         % (wrapped[0][0], fn, GSM_MAX_FN), "c08-gsmtime-frame01-never-fires", len(duel), num)
                else:
                    fail("sched_gsmtime_execute(%d) handed over %d events, %d are requested for frame %d" % (fn, num, len(duel), (fn + 2) % GSM_MAX_FN),
                         "c08-gsm-exec-count", len(duel), num)
                return None
            if duel:
                feats.add("g-fire%d" % min(len(duel), 3))
            for e in duel:       # events for the same frame in request order; each is tdma_schedule_set(1, items, p3), result not visible
                gpend.remove(e)
                r_ = apply_set(1, e[2], e[3], False)
                if r_ is not True:
                    return r_
        elif o[0] == "gr":
            n = take(1)[0]
            del gpend[:]
            feats.add("g-reset")
            if n != NEVENTS:
                fail("sched_gsmtime_reset must free every event slot", "c08-gsm-reset", NEVENTS, n)
                return None
        elif o[0] == "a":
            ref.now += 1
            c = take(1)[0]
            if c != (ref.cur0 + ref.now) % DEPTH:
                fail("advance does not move to the next ring position", "c08-advance", (ref.cur0 + ref.now) % DEPTH, c)
                return None
        elif o[0] == "x":
            due = ref.due_now()                       # the items of this frame at entry
            rc, nlog = take(2)
            raw = [tuple(take(4)) for _ in range(nlog)]
            # what the callbacks did with the scheduler while execute ran: every call of 15 / 16 is followed by its markers
            calls = []
            children = []                             # accepted same-frame children, in the order they were scheduled
            j = 0
            while j < len(raw):
                e = raw[j]
                j += 1
                if e[0] < 0:
                    fail("scheduler-use marker without a spawning callback in front of it", "c08-spawn-marker", None, raw)
                    return None
                calls.append(e)
                if e[0] not in (CB_SPAWN, CB_RSPAWN):
                    continue
                _, sp1, sp2, sp3 = e
                if e[0] == CB_RSPAWN:
                    if j >= len(raw) or raw[j][0] != -3:
                        fail("callback 16 did not report its reset", "c08-spawn-marker", None, raw)
                        return None
                    ref.pend = ref.due_now()          # reset from inside a callback: only this frame survives (items already run included)
                    feats.add("cb-reset")
                    if raw[j][1] != len(ref.pend):
                        fail("reset from a callback keeps %d items, only the %d of the running frame may stay" % (raw[j][1], len(ref.pend)),
                             "c08-cb-reset", len(ref.pend), raw[j][1])
                        return None
                    j += 1
                if j >= len(raw) or raw[j][0] != -2:
                    fail("spawning callback did not report its tdma_schedule", "c08-spawn-marker", None, raw)
                    return None
                _, off, ccb, crc = raw[j]
                j += 1
                if off != sp2 or ccb != 2 + sp1 % 8:
                    fail("spawning callback scheduled something else than its parameters say", "c08-spawn-marker", (sp2, 2 + sp1 % 8), (off, ccb))
                    return None
                if not (0 <= off < DEPTH):
                    return ("out-of-domain", tuple(sorted(feats)))
                room = len(ref.due_now(off)) < CAP
                if (ref.cur0 + ref.now) % DEPTH + off >= DEPTH:
                    feats.add("child-wraps")
                if not room:
                    feats.add("child-refused0" if off == 0 else "child-refused")
                    if crc != -1:
                        fail("callback scheduling into a full frame (%d ahead) is not refused" % off, "c08-child-overflow-not-reported", -1, crc)
                        return None
                else:
                    if crc != 0:
                        fail("callback scheduling into a frame with room (%d ahead) failed" % off, "c08-child-schedule-rc", 0, crc)
                        return None
                    child = [(ref.now + off) % DEPTH, (ccb, sp1, sp2, sp3), s16(sp1 - 128)]
                    ref.pend.append(child)
                    if off == 0:
                        children.append(child)
                        feats.add("child-same-frame")
                    else:
                        feats.add("child-24" if off == 24 else "child-ahead")
            if len(children) >= 2:
                feats.add("children-multi")
            if rc != len(due) + len(children):
                fail("execute ran %d items, %d are due in this frame (%d at entry + %d scheduled for this frame by its callbacks)"
                     % (rc, len(due) + len(children), len(due), len(children)), "c08-exec-count", len(due) + len(children), rc)
                return None
            # ascending priority: the calls of the entry items must be the concatenation of the equal-priority groups in ascending order
            i = 0
            for p in sorted(set(e[2] for e in due)):
                grp = sorted(e[1] for e in due if e[2] == p and e[1][0] != 1)
                got = sorted(calls[i:i + len(grp)])
                if grp != got:
                    fail("execute did not run exactly the due items in ascending priority", "c08-exec-order",
                         [(e[1], e[2]) for e in sorted(due, key=lambda e: e[2])], calls)
                    return None
                i += len(grp)
            # then every item a callback scheduled for THIS frame: once, in scheduling order, with its parameters
            want_ch = [c[1] for c in children]
            if calls[i:] != want_ch:
                fail("items scheduled 0 frames ahead by callbacks of this frame must run once, after the entry items, in scheduling order",
                     "c08-exec-extra" if len(calls[i:]) > len(want_ch) else "c08-child-not-run", want_ch, calls[i:])
                return None
            prs = [e[2] for e in due]
            if len(due) >= 2:
                feats.add("exec-ties" if len(set(prs)) < len(prs) else "exec-multi")
                if prs != sorted(prs):
                    feats.add("exec-reordered")
            elif due:
                feats.add("exec1")
            else:
                feats.add("exec0")
            if len(due) + len(children) == CAP:
                feats.add("exec-full")
            ref.pend = [e for e in ref.pend if (e[0] - ref.now) % DEPTH != 0]
        elif o[0] == "r":
            ref.pend = ref.due_now()
            n = take(1)[0]
            feats.add("reset")
            if n != len(ref.pend):
                fail("reset keeps %d items, only the %d of the current frame may stay" % (n, len(ref.pend)), "c08-reset", len(ref.pend), n)
                return None
    # final state: every frame holds exactly the pending items (nothing lost, nothing overwritten, executed frames empty)
    t = take(2)
    if len(t) < 2 or t[0] != 7777 or t[1] != (ref.cur0 + ref.now) % DEPTH:
        fail("final state marker / ring position", "c08-final-cur", (ref.cur0 + ref.now) % DEPTH, t)
        return None
    for b in range(DEPTH):
        n = take(1)[0]
        its = [tuple(take(5)) for _ in range(n)]
        want = sorted((e[1] + (e[2],)) for e in ref.pend if (ref.cur0 + e[0]) % DEPTH == b)
        if sorted(its) != want:
            fail("bucket %d does not hold exactly the pending items of its frame" % b, "c08-final-state", want, its)
            return None
    if pos < len(impl):
        # the event pool: pending events in ascending frame order (equal frames: request order), every slot exactly once on one of the lists
        t = take(2)
        if t[0] != 8888 or t[1] != len(gpend):
            fail("number of pending one-shot events", "c08-gsm-final-active", len(gpend), t)
            return None
        slots = []
        got = []
        for _ in range(t[1]):
            slot, gfn, gp3, n = take(4)
            its = [tuple(take(5)) for _ in range(max(n, 0))]
            slots.append(slot)
            got.append((gfn, gp3, its))
        want = [(e[0], e[2], [(it[0], u8(it[1]), u8(it[2]), u16(it[3]), s16(it[4])) for it in e[3]])
                for e in sorted(gpend, key=lambda e: (e[0], e[1]))]
        if got != want:
            fail("active_evts is not the pending events in ascending frame order (equal frames in request order)", "c08-gsm-final-active", want, got)
            return None
        n = take(1)[0]
        slots += take(n)
        if sorted(slots) != list(range(NEVENTS)):
            fail("event pool not conserved: active + inactive is not each of the %d slots once" % NEVENTS, "c08-gsm-pool", list(range(NEVENTS)), slots)
            return None
    return ("in-domain", tuple(sorted(feats)), cur % 5)


# ------------------------------------------------------------------ run

def run_harness(ctx, binp, lines, mode=()):
    """runs all lines; a crash / sanitizer report is bisected to the line in flight and reported, the rest continues"""
    res = []
    start = 0
    while start < len(lines):
        p = subprocess.run([binp] + list(mode), input="\n".join(lines[start:]) + "\n", stdout=subprocess.PIPE, stderr=subprocess.PIPE,
                           text=True, timeout=900)
        outs = p.stdout.split("\n")
        if outs and outs[-1] == "":
            outs.pop()
        if p.returncode == 0 and len(outs) == len(lines) - start:
            res += outs
            break
        # the harness flushes before every history: complete lines = histories that finished
        done = len(outs) if p.stdout.endswith("\n") or not outs else len(outs) - 1
        done = min(done, len(lines) - start - 1)
        res += outs[:done]
        ctx.oracle_fail("tdma_sched.c harness crashed (signal/sanitizer) on this history: " + p.stderr[-1500:],
                        dict(line=lines[start + done]), key="c08-harness-crash")
        res.append("-996")
        start += done + 1
    return res


def run(ctx):
    binp = gen(ctx)
    ctx.prove()
    if ctx.tier == "thorough":
        ctx.coqchk()
    rng = ctx.rng
    n = 2500 if ctx.tier == "quick" else 60000
    cases = [gen_case(rng, k) for k in range(n)]
    cases += [malformed_case(rng, k) for k in range(n // 10)]
    ngen = len(cases)
    corpus = os.path.join(ROOT, "corpus", "C08", "lines.txt")
    if os.path.exists(corpus):
        with open(corpus) as f:
            for l in f:
                l = l.strip()
                if l and not l.startswith("#"):
                    v = [int(x) for x in l.split()]
                    cases.append((v[0], [("corpus", v[1:])]))
    cases += grid_cases()
    cases += spawn_grid_cases()
    cases += sort_cases([0, 1, 2], 6) if ctx.tier == "quick" else sort_cases([-1, 0, 1, 32767], 8)
    ctx.count("grid+spawn-grid+sort-sweep cases", len(cases) - ngen)
    lines = [" ".join(map(str, flat(c))) for c in cases]
    outs = run_harness(ctx, binp, lines)
    impl = [[int(x) for x in o.split()] for o in outs]
    idx = list(range(len(cases)))
    # the re-entrant model (callback ids 0..16) on every history
    ctx.correspond("tdma-sched-spawn-histories", "TdmaSched", idx, lambda k: "w_c08_runsp " + lines[k], lambda k: impl[k],
                   show=lambda k: dict(line=lines[k]))
    # the model without scheduler-using callbacks (callback ids 0..14) on every history that has none (harness mode v1 rejects 15 / 16)
    idx1 = [k for k in idx if not has_spawn(cases[k])]
    outs1 = run_harness(ctx, binp, [lines[k] for k in idx1], mode=("v1",))
    impl1 = dict((k, [int(x) for x in o.split()]) for k, o in zip(idx1, outs1))
    ctx.correspond("tdma-sched-histories", "TdmaSched", idx1, lambda k: "w_c08_run " + lines[k], lambda k: impl1[k],
                   show=lambda k: dict(line=lines[k]))
    ctx.count("histories with scheduler-using callbacks", len(idx) - len(idx1))
    nops = 0
    for k, c in enumerate(cases):
        nops += len(c[1])
        if c[1] and c[1][0][0] == "corpus":
            ctx.count("corpus")
            continue
        if c[1] and c[1][0][0] == "raw":
            ctx.count("malformed")
            ctx.count("malformed-rejected" if impl[k] == [-999] else "malformed-accepted")
            continue
        if impl[k] and impl[k][-1] in (-996, -997, -998):
            ctx.count("ends:%d" % impl[k][-1])
            ctx.nontrivial(("crash-marker", impl[k][-1]))
        if impl[k] == [-996]:
            continue                      # already reported with its input by run_harness
        try:
            key = oracle(ctx, c, impl[k])
        except (IndexError, ValueError):
            ctx.oracle_fail("observation stream of the implementation is shorter than the history", dict(line=lines[k]), key="c08-short-output")
            key = None
        if key is not None:
            ctx.count(key[0])
            ctx.nontrivial(key)
    # one-shot GSM-time events on top: the real sched_gsmtime.c + tdma_sched.c against Model/SchedGsmtime.v
    ng = 1500 if ctx.tier == "quick" else 40000
    gcases = [gen_gsm_case(rng, k) for k in range(ng)] + gsm_grid_cases()
    # the hyperframe wrap on the real code in every run (Coq: ex_gsm_wrap): frame 2715640, one-shot events for the frames 0, 1, 2 of the next hyperframe
    # (before commit 9c8dce2 the first two were never handed over: key c08-gsmtime-frame01-never-fires)
    for F in (0, 1, 2):
        wops = [("g", F, 77, [(3, 3, 33, 0, 0), (0, 0, 0, 0, 0), (1, 0, 0, 0, 0)])]
        for i in range(40):
            wops += [("x",), ("ge", (2715640 + i) % GSM_MAX_FN), ("a",)]
        gcases.append((7, wops))
    gcases += [(c[0], c[1]) for c in cases[:200] if not (c[1] and c[1][0][0] in ("raw", "corpus"))]     # histories without events behave as before
    glines = [" ".join(map(str, flat(c))) for c in gcases]
    gouts = run_harness(ctx, binp, glines, mode=("gsm",))
    gimpl = [[int(x) for x in o.split()] for o in gouts]
    gidx = list(range(len(gcases)))
    ctx.correspond("gsmtime-event-histories", "TdmaSched", gidx, lambda k: "w_c08_gsm " + glines[k], lambda k: gimpl[k],
                   show=lambda k: dict(line=glines[k]))
    for k, c in enumerate(gcases):
        nops += len(c[1])
        if gimpl[k] == [-996]:
            continue
        try:
            key = oracle(ctx, c, gimpl[k])
        except (IndexError, ValueError):
            ctx.oracle_fail("observation stream of the implementation is shorter than the history", dict(line=glines[k]), key="c08-short-output")
            key = None
        if key is not None:
            ctx.count("gsm:" + key[0])
            ctx.nontrivial(("gsm",) + key)
    ctx.sample(dict(line=glines[0][:300], impl=gimpl[0][:60]))
    ctx.count("operations", nops)
    for k in range(0, len(cases), max(1, len(cases) // 5)):
        ctx.sample(dict(line=lines[k][:300], impl=impl[k][:60]))
    ctx.extra["rule"] = ("histories of 4..130 operations in 16 modes (mixed, firmware frame loop, bucket filling, equal priorities, wild offsets/"
                         "callbacks/unterminated sets, full ring walk, sets; 7 modes with callbacks that call tdma_schedule / tdma_sched_reset from inside "
                         "tdma_sched_execute: same-frame, 1..24 ahead, into full and nearly full frames, chains, with failing callbacks and resets), "
                         "every start position of the ring, offsets biased to 0/24, the 25x25 grid ring position x child offset; "
                         "GSM-time events: frame-interrupt histories in 12 modes (requests ascending / descending / equal / in-between pending ones, "
                         "pool exhaustion, hyperframe wrap, uint32 edge, direct tdma_schedule calls, resets, skipped executes) + 75 grid cases, "
                         "priorities from {0}, {-1,0,1}, int16 edges or uniform; plus a malformed int stream, the 25x25 grid (ring position x offset, every frame "
                         "executed) and every priority pattern over 3 values for buckets of 1..6 items (thorough: 4 values, 1..8 items). distinct_nontrivial = distinct "
                         "(domain, feature set reached: overflow/full/wrap/ties/reordered/reset/set shapes, start position class) keys")
