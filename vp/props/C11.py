"""C11 - firmware and trxcon agree on the multiframe mapping of every logical channel.
Model: Model/Mframe.v; lemmas: Proofs/MframeP.v; theorems: Props/C11.v.
Tie: Gen/MframeFw.v (rows of the real sched_set_for_task[] tables, enum mframe_task, SCHEDULE_AHEAD/LATENCY, mframe_task2chan_nr)
and Gen/MframeTrxcon.v (all layouts of the real layouts[], enum l1sched_lchan_type, l1sched_lchan_desc[] chan_nr/link_id/handlers,
the results of the real l1sched_mframe_layout(config, tn)) - both produced by C dumpers that #include the real .c files -
plus correspondence of the extracted model with the real mframe_schedule() (every task x every fn of the 51*26*8 cycle),
the real layouts[i].frames[fn % period] and the real l1sched_mframe_layout()."""
import os
import re
import subprocess

from .. import common
from ..common import ROOT, WORK

CYCLE = 51 * 26 * 8
HYPER = 2715648
K_NAMES = {0: "NB_DL", 1: "NB_UL", 2: "PM", 3: "TCH", 4: "TCH_A", 5: "TCH_D", 9: "OTHER"}


def _paths():
    repo = common.REPO
    return dict(
        fw=os.path.join(repo, "src/target/firmware"),
        fw_c=os.path.join(repo, "src/target/firmware/layer1/mframe_sched.c"),
        fw_h=os.path.join(repo, "src/target/firmware/include/layer1/mframe_sched.h"),
        trx=os.path.join(repo, "src/host/trxcon"),
        trx_c=os.path.join(repo, "src/host/trxcon/src/sched_mframe.c"),
        trx_desc=os.path.join(repo, "src/host/trxcon/src/sched_lchan_desc.c"),
        trx_h=os.path.join(repo, "src/host/trxcon/include/osmocom/bb/l1sched/l1sched.h"),
        lib=os.path.join(repo, "src/shared/libosmocore"),
    )


def _strip_comments(s):
    s = re.sub(r"/\*.*?\*/", " ", s, flags=re.S)
    return re.sub(r"//[^\n]*", " ", s)


def _enum_names(path, enum):
    with open(path) as f:
        src = _strip_comments(f.read())
    m = re.search(r"enum\s+%s\s*\{(.*?)\}" % re.escape(enum), src, re.S)
    if not m:
        raise RuntimeError("enum %s not found in %s" % (enum, path))
    names = []
    for part in m.group(1).split(","):
        part = part.strip()
        if not part:
            continue
        names.append(part.split("=")[0].strip())
    return names


def write_incs():
    """name lists taken from the text of the real sources; every VALUE is then read through the compiler"""
    p = _paths()
    d = os.path.join(WORK, "c", "c11inc")
    os.makedirs(d, exist_ok=True)
    tasks = _enum_names(p["fw_h"], "mframe_task")
    common.write_if_changed(os.path.join(d, "c11_fw_names.inc"), "".join("T(%s)\n" % t for t in tasks))
    lch = [n for n in _enum_names(p["trx_h"], "l1sched_lchan_type") if not n.startswith("_")]
    with open(p["trx_c"]) as f:
        src = _strip_comments(f.read())
    arrs = re.findall(r"static\s+const\s+struct\s+l1sched_tdma_frame\s+(\w+)\s*\[", src)
    with open(p["trx_desc"]) as f:
        dsrc = _strip_comments(f.read())
    head = dsrc.split("l1sched_lchan_desc[")[0]
    handlers = re.findall(r"^\s*(int\s+\w+\s*\([^;{]*\))\s*;", head, re.M)
    txt = "#ifdef C11_HANDLERS\n" + "".join(h + " { return 0; }\n" for h in handlers) + "#endif\n"
    txt += "".join("E(%s)\n" % n for n in lch) + "".join("F(%s)\n" % a for a in arrs)
    common.write_if_changed(os.path.join(d, "c11_trxcon_names.inc"), txt)
    return d, tasks, lch, arrs


def build_c(ctx):
    p = _paths()
    inc, tasks, lch, arrs = write_incs()
    ch = os.path.join(ROOT, "charness")
    fwflags = "-idirafter %s/include -I%s/include -I%s/include -I%s/layer1 -I%s -I%s" % (
        p["fw"], p["lib"], common.REPO, p["fw"], inc, ch)
    bins = {}
    # -fno-sanitize=shift: mframe_schedule() evaluates `1 << i` for i = 31 in int on every call (formally undefined,
    # harmless on the target); it is outside C11 and would abort every run of the harness.
    for name in ("c11_fw_dump", "c11_fw_run"):
        ok, path, log = common.cc(name, [os.path.join(ch, name + ".c")], flags=fwflags + " -fno-sanitize=shift")
        if not ok:
            raise RuntimeError("%s does not compile:\n%s" % (name, log[-3000:]))
        bins[name] = path
    tflags = "-include %s/stubs/c11_compat.h -I%s/include -I%s/src -I%s/include -I%s/stubs -I%s" % (
        ch, p["trx"], p["trx"], p["lib"], ch, inc)
    ok, path, log = common.cc("c11_trxcon_dump", [os.path.join(ch, "c11_trxcon_dump.c")], flags=tflags)
    if not ok:
        raise RuntimeError("c11_trxcon_dump does not compile:\n%s" % log[-3000:])
    bins["c11_trxcon_dump"] = path
    return bins


def _run(cmd, inp=None, timeout=600):
    p = subprocess.run(cmd, input=inp, stdout=subprocess.PIPE, stderr=subprocess.PIPE, text=True, timeout=timeout)
    return p.returncode, p.stdout, p.stderr


def dump_fw(bins):
    rc, out, err = _run([bins["c11_fw_dump"]])
    if rc != 0 or not out.rstrip().endswith("END"):
        raise RuntimeError("c11_fw_dump failed rc=%d\n%s" % (rc, err[-2000:]))
    fw = dict(const={}, tasks={}, sets={}, chnr={})
    for line in out.splitlines():
        w = line.split()
        if w[0] == "CONST":
            fw["const"][w[1]] = int(w[2])
        elif w[0] == "TASK":
            fw["tasks"][w[1]] = int(w[2])
        elif w[0] == "SET":
            fw["sets"][int(w[1])] = None if int(w[2]) < 0 else []
        elif w[0] == "ITEM":
            fw["sets"][int(w[1])].append(tuple(int(x) for x in w[3:7]))
        elif w[0] == "CHNR":
            fw["chnr"][int(w[1])] = [int(x) for x in w[2:]]
    return fw


def dump_trx(bins):
    rc, out, err = _run([bins["c11_trxcon_dump"], "dump"])
    if rc != 0 or not out.rstrip().endswith("END"):
        raise RuntimeError("c11_trxcon_dump failed rc=%d\n%s" % (rc, err[-2000:]))
    tx = dict(enum={}, pchan={}, desc={}, layouts=[], lookup={}, chanmax=None, lid_sacch=None)
    for line in out.splitlines():
        w = line.split()
        if w[0] == "ENUM":
            tx["enum"][w[1]] = int(w[2])
        elif w[0] == "CHANMAX":
            tx["chanmax"] = int(w[1])
        elif w[0] == "LID_SACCH":
            tx["lid_sacch"] = int(w[1])
        elif w[0] == "PCHAN":
            tx["pchan"][w[1]] = int(w[2])
        elif w[0] == "DESC":
            tx["desc"][int(w[1])] = tuple(int(x) for x in w[2:6])
        elif w[0] == "LAYOUT":
            tx["layouts"].append(dict(cfg=int(w[2]), period=int(w[3]), slotmask=int(w[4]), mask=int(w[5]), n=int(w[6]), frames=[]))
        elif w[0] == "FRAME":
            tx["layouts"][int(w[1])]["frames"].append(tuple(int(x) for x in w[3:7]))
        elif w[0] == "LOOKUP":
            tx["lookup"][int(w[1])] = [int(x) for x in w[2:]]
    return tx


def _z(x):
    return str(x) if x >= 0 else "(%d)" % x


def _tup(t):
    return "(" + ",".join(_z(x) for x in t) + ")"


def gen_fw_text(fw):
    t = common.gen_header("firmware layer1/mframe_sched.c + include/layer1/mframe_sched.h through charness/c11_fw_dump.c "
                          "(real sched_set_for_task[], mframe_task2chan_nr(), SCHEDULE_AHEAD/LATENCY as compiled)")
    for k in ("SCHEDULE_AHEAD", "SCHEDULE_LATENCY", "GSM_MAX_FN", "MF_F_SACCH", "MF_F_PTCCH", "NTASKS"):
        t += "Definition fw_%s : Z := %d.\n" % (k, fw["const"][k])
    t += "\n(* enum mframe_task as compiled *)\n"
    for name, v in sorted(fw["tasks"].items(), key=lambda kv: kv[1]):
        t += "Definition fw_%s : Z := %d.\n" % (name, v)
    t += ("\n(* sched_set_for_task[i], i = 0..NTASKS-1: None = NULL entry, else the rows before the terminator as\n"
          "   (kind, modulo, frame_nr, flags); kind: 0 NB_DL (nb_sched_set) 1 NB_UL (nb_sched_set_ul) 2 PM (neigh_pm_sched_set)\n"
          "   3 TCH (tch_sched_set) 4 TCH_A (tch_a_sched_set) 5 TCH_D (tch_d_sched_set) 9 any other pointer *)\n")
    t += "Definition fw_sched : list (option (list (Z*Z*Z*Z))) := [\n"
    rows = []
    for i in range(fw["const"]["NTASKS"]):
        s = fw["sets"][i]
        rows.append("  None" if s is None else "  Some [" + ";".join(_tup(x) for x in s) + "]")
    t += ";\n".join(rows) + "\n].\n"
    t += "\n(* mframe_task2chan_nr(task, tn), task = 0..NTASKS-1, tn = 0..7 *)\nDefinition fw_chan_nr : list (list Z) := [\n"
    t += ";\n".join("  " + common.zlist(fw["chnr"][i]) for i in range(fw["const"]["NTASKS"])) + "\n].\n"
    return t


def gen_trx_text(tx):
    t = common.gen_header("trxcon src/sched_mframe.c, src/sched_lchan_desc.c, include/osmocom/bb/l1sched/l1sched.h through "
                          "charness/c11_trxcon_dump.c (real layouts[], frame_* arrays, l1sched_mframe_layout(), l1sched_lchan_desc[] as compiled)")
    t += "(* enum l1sched_lchan_type as compiled *)\n"
    for name, v in sorted(tx["enum"].items(), key=lambda kv: kv[1]):
        t += "Definition tx_%s : Z := %d.\n" % (name, v)
    t += "Definition tx_CHAN_MAX : Z := %d.\nDefinition tx_LID_SACCH : Z := %d.\n" % (tx["chanmax"], tx["lid_sacch"])
    t += "\n(* enum gsm_phys_chan_config values as compiled in the harness (the two CBCH combinations come from charness/stubs/c11_compat.h) *)\n"
    for name, v in tx["pchan"].items():
        t += "Definition tx_%s : Z := %d.\n" % (name, v)
    t += "\n(* l1sched_lchan_desc[chan], chan = 0..CHAN_MAX-1: (chan_nr, link_id, rx_fn != NULL, tx_fn != NULL) *)\n"
    t += "Definition tx_desc : list (Z*Z*Z*Z) := [\n" + ";\n".join("  " + _tup(tx["desc"][i]) for i in range(tx["chanmax"])) + "\n].\n"
    t += ("\n(* layouts[i]: (chan_config, period, slotmask, lchan_mask, number of rows of the frames array (-1: frames == NULL,\n"
          "   -2: not the start of a frame_* array), rows (dl_chan, dl_bid, ul_chan, ul_bid)) *)\n")
    t += "Definition tx_layouts : list (Z*Z*Z*Z*Z*list (Z*Z*Z*Z)) := [\n"
    rows = []
    for l in tx["layouts"]:
        rows.append("  (%d,%d,%d,%d,%s,\n   [%s])" % (l["cfg"], l["period"], l["slotmask"], l["mask"], _z(l["n"]),
                                                     ";".join(_tup(f) for f in l["frames"])))
    t += ";\n".join(rows) + "\n].\n"
    t += ("\n(* the real l1sched_mframe_layout(config, tn) for config = 0..127 (row), tn = 0..7 (column): index into layouts[], -1 = NULL *)\n"
          "Definition tx_lookup : list (list Z) := [\n")
    t += ";\n".join("  " + common.zlist(tx["lookup"][c]) for c in range(128)) + "\n].\n"
    return t


def gen(ctx):
    bins = build_c(ctx)
    fw = dump_fw(bins)
    tx = dump_trx(bins)
    ctx.gen("MframeFw", gen_fw_text(fw))
    ctx.gen("MframeTrxcon", gen_trx_text(tx))
    return bins, fw, tx


# ------------------------------------------------------------------ the specification table (mirrors c11_rows in Model/Mframe.v)
# (firmware task, trxcon channel combination, timeslots, mode, lchan, SACCH lchan)

def spec_rows():
    R = []
    for cfg in ("GSM_PCHAN_CCCH", "GSM_PCHAN_CCCH_SDCCH4", "GSM_PCHAN_CCCH_SDCCH4_CBCH"):
        R.append(("MF_TASK_BCCH_NORM", cfg, "all", "block", "L1SCHED_BCCH", None))
    R.append(("MF_TASK_CCCH", "GSM_PCHAN_CCCH", "all", "block", "L1SCHED_CCCH", None))
    for cfg in ("GSM_PCHAN_CCCH_SDCCH4", "GSM_PCHAN_CCCH_SDCCH4_CBCH"):
        R.append(("MF_TASK_CCCH_COMB", cfg, "all", "block", "L1SCHED_CCCH", None))
    for n in range(4):
        R.append(("MF_TASK_SDCCH4_%d" % n, "GSM_PCHAN_CCCH_SDCCH4", "all", "block", "L1SCHED_SDCCH4_%d" % n, "L1SCHED_SACCH4_%d" % n))
        if n != 2:
            R.append(("MF_TASK_SDCCH4_%d" % n, "GSM_PCHAN_CCCH_SDCCH4_CBCH", "all", "block", "L1SCHED_SDCCH4_%d" % n, "L1SCHED_SACCH4_%d" % n))
    for n in range(8):
        R.append(("MF_TASK_SDCCH8_%d" % n, "GSM_PCHAN_SDCCH8_SACCH8C", "all", "block", "L1SCHED_SDCCH8_%d" % n, "L1SCHED_SACCH8_%d" % n))
        if n != 2:
            R.append(("MF_TASK_SDCCH8_%d" % n, "GSM_PCHAN_SDCCH8_SACCH8C_CBCH", "all", "block", "L1SCHED_SDCCH8_%d" % n, "L1SCHED_SACCH8_%d" % n))
    R.append(("MF_TASK_SDCCH4_CBCH", "GSM_PCHAN_CCCH_SDCCH4_CBCH", "all", "block", "L1SCHED_SDCCH4_CBCH", None))
    R.append(("MF_TASK_SDCCH8_CBCH", "GSM_PCHAN_SDCCH8_SACCH8C_CBCH", "all", "block", "L1SCHED_SDCCH8_CBCH", None))
    R.append(("MF_TASK_GPRS_PDTCH", "GSM_PCHAN_PDCH", "all", "block-dl", "L1SCHED_PDTCH", None))
    R.append(("MF_TASK_TCH_F_EVEN", "GSM_PCHAN_TCH_F", "even", "tch", "L1SCHED_TCHF", "L1SCHED_SACCHTF"))
    R.append(("MF_TASK_TCH_F_ODD", "GSM_PCHAN_TCH_F", "odd", "tch", "L1SCHED_TCHF", "L1SCHED_SACCHTF"))
    R.append(("MF_TASK_TCH_H_0", "GSM_PCHAN_TCH_H", "all", "tch", "L1SCHED_TCHH_0", "L1SCHED_SACCHTH_0"))
    R.append(("MF_TASK_TCH_H_1", "GSM_PCHAN_TCH_H", "all", "tch", "L1SCHED_TCHH_1", "L1SCHED_SACCHTH_1"))
    return R


def tn_ok(rule, tn):
    return rule == "all" or (rule == "even" and tn % 2 == 0) or (rule == "odd" and tn % 2 == 1)


def other_subchannel(lchan):
    return {"L1SCHED_TCHH_0": "L1SCHED_TCHH_1", "L1SCHED_TCHH_1": "L1SCHED_TCHH_0"}.get(lchan)


def fw_calls_py(fw, task, cur):
    """Python transcription of mframe_schedule_set (used ONLY by the oracle when the recorded real calls are not at hand,
    i.e. never on the main path: the oracle runs on calls recorded from the real mframe_schedule())"""
    raise NotImplementedError


def real_fw_calls(bins, pairs):
    """run the real mframe_schedule(): pairs = [(mask, fn)] -> list of [(off, kind, p3)]"""
    inp = "".join("%d %d\n" % p for p in pairs)
    rc, out, err = _run([bins["c11_fw_run"]], inp, timeout=900)
    lines = out.split("\n")
    if rc != 0 or len(lines) < len(pairs):
        return rc, err, None
    res = []
    for l in lines[:len(pairs)]:
        w = [int(x) for x in l.split()]
        res.append([tuple(w[1 + 3 * i:4 + 3 * i]) for i in range(w[0])])
    return 0, "", res
