"""C11 - firmware and trxcon agree on the multiframe mapping of every logical channel.
Model: Model/Mframe.v; lemmas: Proofs/MframeP.v; theorems: Props/C11.v.
Tie: Gen/MframeFw.v (rows of the real sched_set_for_task[] tables, enum mframe_task, SCHEDULE_AHEAD/LATENCY, mframe_task2chan_nr)
and Gen/MframeTrxcon.v (all layouts of the real layouts[], enum l1sched_lchan_type, l1sched_lchan_desc[] chan_nr/link_id/handlers,
the results of the real l1sched_mframe_layout(config, tn)) - both produced by C dumpers that #include the real .c files -
plus correspondence of the extracted model with the real mframe_schedule() (every task x every fn of the 51*26*8 cycle),
the real layouts[i].frames[fn % period] and the real l1sched_mframe_layout()."""
import os
import re
import subprocess

from .. import common
from ..common import ROOT, WORK

CYCLE = 51 * 26 * 8
HYPER = 2715648
K_NAMES = {0: "NB_DL", 1: "NB_UL", 2: "PM", 3: "TCH", 4: "TCH_A", 5: "TCH_D", 9: "OTHER"}


def _paths():
    repo = common.REPO
    return dict(
        fw=os.path.join(repo, "src/target/firmware"),
        fw_c=os.path.join(repo, "src/target/firmware/layer1/mframe_sched.c"),
        fw_h=os.path.join(repo, "src/target/firmware/include/layer1/mframe_sched.h"),
        trx=os.path.join(repo, "src/host/trxcon"),
        trx_c=os.path.join(repo, "src/host/trxcon/src/sched_mframe.c"),
        trx_desc=os.path.join(repo, "src/host/trxcon/src/sched_lchan_desc.c"),
        trx_h=os.path.join(repo, "src/host/trxcon/include/osmocom/bb/l1sched/l1sched.h"),
        lib=os.path.join(repo, "src/shared/libosmocore"),
    )


def _strip_comments(s):
    s = re.sub(r"/\*.*?\*/", " ", s, flags=re.S)
    return re.sub(r"//[^\n]*", " ", s)


def _enum_names(path, enum):
    with open(path) as f:
        src = _strip_comments(f.read())
    m = re.search(r"enum\s+%s\s*\{(.*?)\}" % re.escape(enum), src, re.S)
    if not m:
        raise RuntimeError("enum %s not found in %s" % (enum, path))
    names = []
    for part in m.group(1).split(","):
        part = part.strip()
        if not part:
            continue
        names.append(part.split("=")[0].strip())
    return names


def write_incs():
    """name lists taken from the text of the real sources; every VALUE is then read through the compiler"""
    p = _paths()
    d = os.path.join(WORK, "c", "c11inc")
    os.makedirs(d, exist_ok=True)
    tasks = _enum_names(p["fw_h"], "mframe_task")
    common.write_if_changed(os.path.join(d, "c11_fw_names.inc"), "".join("T(%s)\n" % t for t in tasks))
    lch = [n for n in _enum_names(p["trx_h"], "l1sched_lchan_type") if not n.startswith("_")]
    with open(p["trx_c"]) as f:
        src = _strip_comments(f.read())
    arrs = re.findall(r"static\s+const\s+struct\s+l1sched_tdma_frame\s+(\w+)\s*\[", src)
    with open(p["trx_desc"]) as f:
        dsrc = _strip_comments(f.read())
    head = dsrc.split("l1sched_lchan_desc[")[0]
    handlers = re.findall(r"^\s*(int\s+\w+\s*\([^;{]*\))\s*;", head, re.M)
    txt = "#ifdef C11_HANDLERS\n" + "".join(h + " { return 0; }\n" for h in handlers) + "#endif\n"
    txt += "".join("E(%s)\n" % n for n in lch) + "".join("F(%s)\n" % a for a in arrs)
    common.write_if_changed(os.path.join(d, "c11_trxcon_names.inc"), txt)
    return d, tasks, lch, arrs


def build_c(ctx):
    p = _paths()
    inc, tasks, lch, arrs = write_incs()
    ch = os.path.join(ROOT, "charness")
    fwflags = "-idirafter %s/include -I%s/include -I%s/include -I%s/layer1 -I%s -I%s" % (
        p["fw"], p["lib"], common.REPO, p["fw"], inc, ch)
    bins = {}
    # -fno-sanitize=shift: mframe_schedule() evaluates `1 << i` for i = 31 in int on every call (formally undefined,
    # harmless on the target); it is outside C11 and would abort every run of the harness.
    for name in ("c11_fw_dump", "c11_fw_run"):
        ok, path, log = common.cc(name, [os.path.join(ch, name + ".c")], flags=fwflags + " -fno-sanitize=shift")
        if not ok:
            raise RuntimeError("%s does not compile:\n%s" % (name, log[-3000:]))
        bins[name] = path
    tflags = "-include %s/stubs/c11_compat.h -I%s/include -I%s/src -I%s/include -I%s/stubs -I%s" % (
        ch, p["trx"], p["trx"], p["lib"], ch, inc)
    ok, path, log = common.cc("c11_trxcon_dump", [os.path.join(ch, "c11_trxcon_dump.c")], flags=tflags)
    if not ok:
        raise RuntimeError("c11_trxcon_dump does not compile:\n%s" % log[-3000:])
    bins["c11_trxcon_dump"] = path
    # the real l1sched_configure_ts() (sched_trx.c) with the real tables; talloc from the vendored libosmocore
    ok, path, log = common.cc("c11_trxcon_cfg", [os.path.join(ch, "c11_trxcon_cfg.c"), os.path.join(p["lib"], "src/talloc.c")],
                              flags=tflags.replace("c11_compat.h", "c11_trx_compat.h") + " -I%s/stubs/a/b -I%s/stubs/c11" % (ch, ch))
    if not ok:
        raise RuntimeError("c11_trxcon_cfg does not compile:\n%s" % log[-3000:])
    bins["c11_trxcon_cfg"] = path
    return bins


def _run(cmd, inp=None, timeout=600):
    p = subprocess.run(cmd, input=inp, stdout=subprocess.PIPE, stderr=subprocess.PIPE, text=True, timeout=timeout)
    return p.returncode, p.stdout, p.stderr


def dump_fw(bins):
    rc, out, err = _run([bins["c11_fw_dump"]])
    if rc != 0 or not out.rstrip().endswith("END"):
        raise RuntimeError("c11_fw_dump failed rc=%d\n%s" % (rc, err[-2000:]))
    fw = dict(const={}, tasks={}, sets={}, chnr={})
    for line in out.splitlines():
        w = line.split()
        if w[0] == "CONST":
            fw["const"][w[1]] = int(w[2])
        elif w[0] == "TASK":
            fw["tasks"][w[1]] = int(w[2])
        elif w[0] == "SET":
            fw["sets"][int(w[1])] = None if int(w[2]) < 0 else []
        elif w[0] == "ITEM":
            fw["sets"][int(w[1])].append(tuple(int(x) for x in w[3:7]))
        elif w[0] == "CHNR":
            fw["chnr"][int(w[1])] = [int(x) for x in w[2:]]
    return fw


def dump_trx(bins):
    rc, out, err = _run([bins["c11_trxcon_dump"], "dump"])
    if rc != 0 or not out.rstrip().endswith("END"):
        raise RuntimeError("c11_trxcon_dump failed rc=%d\n%s" % (rc, err[-2000:]))
    tx = dict(enum={}, pchan={}, desc={}, layouts=[], lookup={}, chanmax=None, lid_sacch=None)
    for line in out.splitlines():
        w = line.split()
        if w[0] == "ENUM":
            tx["enum"][w[1]] = int(w[2])
        elif w[0] == "CHANMAX":
            tx["chanmax"] = int(w[1])
        elif w[0] == "LID_SACCH":
            tx["lid_sacch"] = int(w[1])
        elif w[0] == "PCHAN":
            tx["pchan"][w[1]] = int(w[2])
        elif w[0] == "DESC":
            tx["desc"][int(w[1])] = tuple(int(x) for x in w[2:6])
        elif w[0] == "LAYOUT":
            tx["layouts"].append(dict(cfg=int(w[2]), period=int(w[3]), slotmask=int(w[4]), mask=int(w[5]), n=int(w[6]), frames=[]))
        elif w[0] == "FRAME":
            tx["layouts"][int(w[1])]["frames"].append(tuple(int(x) for x in w[3:7]))
        elif w[0] == "LOOKUP":
            tx["lookup"][int(w[1])] = [int(x) for x in w[2:]]
    return tx


def _z(x):
    return str(x) if x >= 0 else "(%d)" % x


def _tup(t):
    return "(" + ",".join(_z(x) for x in t) + ")"


def gen_fw_text(fw):
    t = common.gen_header("firmware layer1/mframe_sched.c + include/layer1/mframe_sched.h through charness/c11_fw_dump.c "
                          "(real sched_set_for_task[], mframe_task2chan_nr(), SCHEDULE_AHEAD/LATENCY as compiled)")
    for k in ("SCHEDULE_AHEAD", "SCHEDULE_LATENCY", "GSM_MAX_FN", "MF_F_SACCH", "MF_F_PTCCH", "NTASKS"):
        t += "Definition fw_%s : Z := %d.\n" % (k, fw["const"][k])
    t += "\n(* enum mframe_task as compiled *)\n"
    for name, v in sorted(fw["tasks"].items(), key=lambda kv: kv[1]):
        t += "Definition fw_%s : Z := %d.\n" % (name, v)
    t += ("\n(* sched_set_for_task[i], i = 0..NTASKS-1: None = NULL entry, else the rows before the terminator as\n"
          "   (kind, modulo, frame_nr, flags); kind: 0 NB_DL (nb_sched_set) 1 NB_UL (nb_sched_set_ul) 2 PM (neigh_pm_sched_set)\n"
          "   3 TCH (tch_sched_set) 4 TCH_A (tch_a_sched_set) 5 TCH_D (tch_d_sched_set) 9 any other pointer *)\n")
    t += "Definition fw_sched : list (option (list (Z*Z*Z*Z))) := [\n"
    rows = []
    for i in range(fw["const"]["NTASKS"]):
        s = fw["sets"][i]
        rows.append("  None" if s is None else "  Some [" + ";".join(_tup(x) for x in s) + "]")
    t += ";\n".join(rows) + "\n].\n"
    t += "\n(* mframe_task2chan_nr(task, tn), task = 0..NTASKS-1, tn = 0..7 *)\nDefinition fw_chan_nr : list (list Z) := [\n"
    t += ";\n".join("  " + common.zlist(fw["chnr"][i]) for i in range(fw["const"]["NTASKS"])) + "\n].\n"
    return t


def gen_trx_text(tx):
    t = common.gen_header("trxcon src/sched_mframe.c, src/sched_lchan_desc.c, include/osmocom/bb/l1sched/l1sched.h through "
                          "charness/c11_trxcon_dump.c (real layouts[], frame_* arrays, l1sched_mframe_layout(), l1sched_lchan_desc[] as compiled)")
    t += "(* enum l1sched_lchan_type as compiled *)\n"
    for name, v in sorted(tx["enum"].items(), key=lambda kv: kv[1]):
        t += "Definition tx_%s : Z := %d.\n" % (name, v)
    t += "Definition tx_CHAN_MAX : Z := %d.\nDefinition tx_LID_SACCH : Z := %d.\n" % (tx["chanmax"], tx["lid_sacch"])
    t += "\n(* enum gsm_phys_chan_config values as compiled in the harness (the two CBCH combinations come from charness/stubs/c11_compat.h) *)\n"
    for name, v in tx["pchan"].items():
        t += "Definition tx_%s : Z := %d.\n" % (name, v)
    t += "\n(* l1sched_lchan_desc[chan], chan = 0..CHAN_MAX-1: (chan_nr, link_id, rx_fn != NULL, tx_fn != NULL) *)\n"
    t += "Definition tx_desc : list (Z*Z*Z*Z) := [\n" + ";\n".join("  " + _tup(tx["desc"][i]) for i in range(tx["chanmax"])) + "\n].\n"
    t += ("\n(* layouts[i]: (chan_config, period, slotmask, lchan_mask, number of rows of the frames array (-1: frames == NULL,\n"
          "   -2: not the start of a frame_* array), rows (dl_chan, dl_bid, ul_chan, ul_bid)) *)\n")
    t += "Definition tx_layouts : list (Z*Z*Z*Z*Z*list (Z*Z*Z*Z)) := [\n"
    rows = []
    for l in tx["layouts"]:
        rows.append("  (%d,%d,%d,%d,%s,\n   [%s])" % (l["cfg"], l["period"], l["slotmask"], l["mask"], _z(l["n"]),
                                                     ";".join(_tup(f) for f in l["frames"])))
    t += ";\n".join(rows) + "\n].\n"
    t += ("\n(* the real l1sched_mframe_layout(config, tn) for config = 0..127 (row), tn = 0..7 (column): index into layouts[], -1 = NULL *)\n"
          "Definition tx_lookup : list (list Z) := [\n")
    t += ";\n".join("  " + common.zlist(tx["lookup"][c]) for c in range(128)) + "\n].\n"
    return t


def gen(ctx):
    bins = build_c(ctx)
    fw = dump_fw(bins)
    tx = dump_trx(bins)
    ctx.gen("MframeFw", gen_fw_text(fw))
    ctx.gen("MframeTrxcon", gen_trx_text(tx))
    return bins, fw, tx


# ------------------------------------------------------------------ the specification table (mirrors c11_rows in Model/Mframe.v)
# (firmware task, trxcon channel combination, timeslots, mode, lchan, SACCH lchan)

def spec_rows():
    """same rows, same order as c11_rows in Model/Mframe.v (run() compares the two through w_c11_row)"""
    R = []
    for cfg in ("GSM_PCHAN_CCCH", "GSM_PCHAN_CCCH_SDCCH4", "GSM_PCHAN_CCCH_SDCCH4_CBCH"):
        R.append(("MF_TASK_BCCH_NORM", cfg, "all", "block", "L1SCHED_BCCH", None))
    R.append(("MF_TASK_CCCH", "GSM_PCHAN_CCCH", "all", "block", "L1SCHED_CCCH", None))
    for cfg in ("GSM_PCHAN_CCCH_SDCCH4", "GSM_PCHAN_CCCH_SDCCH4_CBCH"):
        R.append(("MF_TASK_CCCH_COMB", cfg, "all", "block", "L1SCHED_CCCH", None))
    for cfg, skip in (("GSM_PCHAN_CCCH_SDCCH4", ()), ("GSM_PCHAN_CCCH_SDCCH4_CBCH", (2,))):
        for n in range(4):
            if n not in skip:
                R.append(("MF_TASK_SDCCH4_%d" % n, cfg, "all", "block", "L1SCHED_SDCCH4_%d" % n, "L1SCHED_SACCH4_%d" % n))
    for cfg, skip in (("GSM_PCHAN_SDCCH8_SACCH8C", ()), ("GSM_PCHAN_SDCCH8_SACCH8C_CBCH", (2,))):
        for n in range(8):
            if n not in skip:
                R.append(("MF_TASK_SDCCH8_%d" % n, cfg, "all", "block", "L1SCHED_SDCCH8_%d" % n, "L1SCHED_SACCH8_%d" % n))
    R.append(("MF_TASK_SDCCH4_CBCH", "GSM_PCHAN_CCCH_SDCCH4_CBCH", "all", "block", "L1SCHED_SDCCH4_CBCH", None))
    R.append(("MF_TASK_SDCCH8_CBCH", "GSM_PCHAN_SDCCH8_SACCH8C_CBCH", "all", "block", "L1SCHED_SDCCH8_CBCH", None))
    R.append(("MF_TASK_GPRS_PDTCH", "GSM_PCHAN_PDCH", "all", "block-dl", "L1SCHED_PDTCH", None))
    R.append(("MF_TASK_TCH_F_EVEN", "GSM_PCHAN_TCH_F", "even", "tch", "L1SCHED_TCHF", "L1SCHED_SACCHTF"))
    R.append(("MF_TASK_TCH_F_ODD", "GSM_PCHAN_TCH_F", "odd", "tch", "L1SCHED_TCHF", "L1SCHED_SACCHTF"))
    R.append(("MF_TASK_TCH_H_0", "GSM_PCHAN_TCH_H", "all", "tch", "L1SCHED_TCHH_0", "L1SCHED_SACCHTH_0"))
    R.append(("MF_TASK_TCH_H_1", "GSM_PCHAN_TCH_H", "all", "tch", "L1SCHED_TCHH_1", "L1SCHED_SACCHTH_1"))
    return R


def tn_ok(rule, tn):
    return rule == "all" or (rule == "even" and tn % 2 == 0) or (rule == "odd" and tn % 2 == 1)


def other_subchannel(lchan):
    return {"L1SCHED_TCHH_0": "L1SCHED_TCHH_1", "L1SCHED_TCHH_1": "L1SCHED_TCHH_0"}.get(lchan)


def real_fw_calls(bins, pairs):
    """run the real mframe_schedule(): pairs = [(mask, fn)] -> list of [(off, kind, p3)]"""
    inp = "".join("%d %d\n" % p for p in pairs)
    rc, out, err = _run([bins["c11_fw_run"]], inp, timeout=900)
    lines = out.split("\n")
    if rc != 0 or len(lines) < len(pairs):
        return rc, err, None
    res = []
    for l in lines[:len(pairs)]:
        w = [int(x) for x in l.split()]
        res.append([tuple(w[1 + 3 * i:4 + 3 * i]) for i in range(w[0])])
    return 0, "", res


def real_trx(bins, mode, pairs):
    inp = "".join("%d %d\n" % p for p in pairs)
    rc, out, err = _run([bins["c11_trxcon_dump"], mode], inp, timeout=900)
    lines = out.split("\n")
    if rc != 0 or len(lines) < len(pairs):
        return rc, err, None
    return 0, "", [[int(x) for x in l.split()] for l in lines[:len(pairs)]]


# ------------------------------------------------------------------ implementation-level oracle (on the dumped real tables / recorded real calls)

def nbursts(E, c):
    if c in (E["L1SCHED_FCCH"], E["L1SCHED_SCH"], E["L1SCHED_RACH"]):
        return 1
    if c in (E["L1SCHED_TCHH_0"], E["L1SCHED_TCHH_1"]):
        return 2
    return 4


def real_lookup(tx, cfg, tn):
    return tx["lookup"][cfg][tn] if 0 <= cfg < 128 and 0 <= tn < 8 else -1


def oracle_tables(ctx, fw, tx):
    """bids cyclic, lookup inside the table, mask covers, (config, tn) validity - directly on the dumped real tables"""
    E = tx["enum"]
    inv = {v: k for k, v in E.items()}
    IDLE = E["L1SCHED_IDLE"]
    NONE = tx["pchan"]["GSM_PCHAN_NONE"]
    n = 0
    for li, L in enumerate(tx["layouts"]):
        if L["cfg"] == NONE:
            continue
        per, fr = L["period"], L["frames"]
        if not (0 < per <= L["n"] and per < 256 and len(fr) == L["n"]):
            ctx.oracle_fail("trxcon layout: fn %% period can leave the frames array (period %d, rows %d)" % (per, L["n"]),
                            dict(layout=li, config=L["cfg"], period=per, rows=L["n"], fn=(L["n"] if per > L["n"] >= 0 else 0)),
                            key="c11-lookup-leaves-table:layout%d" % li)
            continue
        for d, (ci, bi) in (("DL", (0, 1)), ("UL", (2, 3))):
            for i in range(per):
                c, b = fr[i][ci], fr[i][bi]
                n += 1
                if c != IDLE and not (0 <= c < tx["chanmax"] and c < 64 and (L["mask"] >> c) & 1):
                    ctx.oracle_fail("trxcon layout: channel %s used by a frame is not in the layout's lchan mask" % inv.get(c, c),
                                    dict(layout=li, config=L["cfg"], frame=i, dir=d, chan=inv.get(c, c), mask=hex(L["mask"])),
                                    key="c11-mask:layout%d:%s" % (li, inv.get(c, c)))
                if c == IDLE:
                    continue
                nb = nbursts(E, c)
                k = next(k for k in range(1, per + 1) if fr[(i + k) % per][ci] == c)
                b2 = fr[(i + k) % per][bi]
                if not (0 <= b < nb and b2 == (b + 1) % nb):
                    ctx.oracle_fail("trxcon layout: burst ids of %s not cyclic 0..%d" % (inv.get(c, c), nb - 1),
                                    dict(layout=li, config=L["cfg"], dir=d, chan=inv.get(c, c), frame=i, bid=b, next_frame=(i + k) % per, next_bid=b2),
                                    key="c11-bids:layout%d:%s:%s:frame%d" % (li, d, inv.get(c, c), i))
        for fr_row in fr[per:]:
            for c in (fr_row[0], fr_row[2]):
                if c != IDLE and not (0 <= c < 64 and (L["mask"] >> c) & 1):
                    ctx.oracle_fail("trxcon layout: channel in a row beyond the period not in mask", dict(layout=li, chan=c), key="c11-mask:layout%d:%s" % (li, inv.get(c, c)))
    known = set(tx["pchan"].values())
    for cfg in range(128):
        for tn in range(8):
            li = tx["lookup"][cfg][tn]
            n += 1
            if cfg in known:
                ok = 0 <= li < len(tx["layouts"]) and tx["layouts"][li]["cfg"] == cfg and (tx["layouts"][li]["slotmask"] >> tn) & 1
            else:
                ok = li == -1
            if not ok:
                ctx.oracle_fail("l1sched_mframe_layout(config=%d, tn=%d) returns %s" % (cfg, tn, "NULL" if li == -1 else "layout %d" % li),
                                dict(config=cfg, tn=tn, returned=li), key="c11-layout-for-tn:config%d:tn%d" % (cfg, tn))
    return n


def oracle_rows(ctx, fw, tx, fired, curs):
    """the property stated directly on the implementation's observations: frames in which the real mframe_schedule() called
    tdma_schedule_set() (fired[(task, kind, sacch)] = set of current frames) against the rows of the real layouts[]"""
    E, T, P = tx["enum"], fw["tasks"], tx["pchan"]
    SACCH = fw["const"]["MF_F_SACCH"]
    ahead = 2
    n = 0
    seen = {}
    for ri, (task, cfg, tnrule, mode, lchan, sacch) in enumerate(spec_rows()):
        t = T[task]
        for tn in range(8):
            if not tn_ok(tnrule, tn):
                continue
            li = real_lookup(tx, P[cfg], tn)
            if li < 0:
                ctx.oracle_fail("l1sched_mframe_layout(%s, %d) returns NULL for a mapped row" % (cfg, tn), dict(row=ri, task=task, config=cfg, tn=tn),
                                key="c11-row-no-layout:%s:%s:tn%d" % (task, cfg, tn))
                continue
            if (ri, li) in seen:
                continue
            seen[(ri, li)] = tn
            L = tx["layouts"][li]
            per, fr = L["period"], L["frames"]
            if per <= 0 or per > len(fr):
                continue  # reported by oracle_tables

            def first(col, c, bid0):
                if c is None:
                    return frozenset()
                return frozenset(i for i in range(per) if fr[i][col] == E[c] and (not bid0 or fr[i][col + 1] == 0))
            if mode == "tch":
                oth = other_subchannel(lchan)
                comps = [("TCH", 3, False, "DL", first(0, lchan, False)), ("TCH", 3, False, "UL", first(2, lchan, False)),
                         ("TCH_A", 4, True, "DL", first(0, sacch, False)), ("TCH_A", 4, True, "UL", first(2, sacch, False)),
                         ("TCH_D", 5, False, "DL", first(0, oth, False)), ("TCH_D", 5, False, "UL", first(2, oth, False))]
            else:
                comps = [("NB_DL", 0, False, "DL", first(0, lchan, True)), ("NB_DL+SACCH", 0, True, "DL", first(0, sacch, True))]
                if mode == "block":
                    comps += [("NB_UL", 1, False, "UL", first(2, lchan, True)), ("NB_UL+SACCH", 1, True, "UL", first(2, sacch, True))]
                else:
                    comps += [("NB_UL", 1, False, "UL", frozenset()), ("NB_UL+SACCH", 1, True, "UL", frozenset())]
            for what, kind, sc, d, res in comps:
                f = fired.get((t, kind, sc), frozenset())
                bad = None
                for cur in curs:
                    if (cur in f) != ((((cur + ahead) % HYPER) % per) in res):
                        bad = cur
                        break
                n += len(curs)
                if bad is not None:
                    fn = (bad + ahead) % HYPER
                    row = fr[fn % per]
                    ctx.oracle_fail(
                        "firmware %s %s at current frame %d (on air in frame %d) but trxcon layout %d (%s, tn %d) frame %d is %s"
                        % (task, "starts " + what if bad in f else "does not start " + what, bad, fn, li, cfg, tn, fn % per, list(row)),
                        dict(row=ri, task=task, config=cfg, tn=tn, cur=bad, fn=fn, layout=li, frame=fn % per, dir=d, item=what,
                             lchan=lchan, sacch=sacch, firmware_fires=bad in f, trxcon_row=list(row)),
                        key="c11-%s:%s:%s:%s:%s" % ("tch-frame" if mode == "tch" else "block-start", task, cfg, d, what))
        # every row of the task's table is accounted for
        allowed = {"block": {(0, 0), (1, 0), (0, SACCH), (1, SACCH)}, "block-dl": {(0, 0)}, "tch": {(3, 0), (4, SACCH), (5, 0)}}[mode]
        for k, it in enumerate(fw["sets"][t] or []):
            if (it[0], it[3]) not in allowed:
                ctx.oracle_fail("firmware %s row %d has kind %s flags %d, not covered by the comparison" % (task, k, K_NAMES.get(it[0], it[0]), it[3]),
                                dict(task=task, row=k, item=list(it)), key="c11-row-kind:%s:%d" % (task, k))
        # both stacks report the same channel number
        desc = tx["desc"]
        for tn in range(8):
            exp = desc[E[lchan]][0] | tn
            if fw["chnr"][t][tn] != exp or desc[E[lchan]][1] != 0 or (sacch and (desc[E[sacch]][0] != desc[E[lchan]][0] or desc[E[sacch]][1] != tx["lid_sacch"])):
                ctx.oracle_fail("channel numbers of %s and %s differ" % (task, lchan), dict(task=task, lchan=lchan, tn=tn, fw=fw["chnr"][t][tn], trxcon=exp),
                                key="c11-chan-nr:%s:%s" % (task, lchan))
                break
    return n


# ------------------------------------------------------------------ run

def fn_points(rng, n):
    pts = set()
    for base in (0, 13, 26, 51, 102, 104, 1326, CYCLE, HYPER, 1 << 32):
        for k in range(-4, 5):
            for mult in (1, 2, 3, 255, 256):
                v = base * mult + k
                if 0 <= v < (1 << 32):
                    pts.add(v)
    out = sorted(pts)
    for _ in range(n):
        out.append(rng.below(HYPER) if rng.chance(3, 4) else rng.below(1 << 32))
    return out


def run(ctx):
    bins, fw, tx = gen(ctx)
    proved = ctx.prove()
    if ctx.tier == "thorough":
        ctx.coqchk()
    rng = ctx.rng
    thorough = ctx.tier == "thorough"
    E = tx["enum"]
    tasks = [t for t in range(fw["const"]["NTASKS"]) if fw["sets"][t] is not None]
    tname = {v: k for k, v in fw["tasks"].items()}

    # ---- (1) firmware: the real mframe_schedule() for every task x every current frame of the 51*26*8 cycle (+ boundaries, task sets)
    curs = list(range(CYCLE))
    if thorough:  # also the last cycle of the hyperframe, i.e. the wrap 2715647 -> 0 on the implementation
        curs += list(range(HYPER - CYCLE, HYPER))
    pairs = [(1 << t, cur) for t in tasks for cur in curs]
    nfull = len(pairs)
    extra = fn_points(rng, 300 if not thorough else 5000)
    for cur in extra:
        pairs.append((1 << rng.choice(tasks), cur))
    valid_mask = sum(1 << t for t in tasks)
    for _ in range(2000 if not thorough else 60000):
        if rng.chance(1, 2):
            m = rng.u64() & valid_mask
        else:
            m = 0
            for _ in range(rng.range(0, 4)):
                m |= 1 << rng.choice(tasks)
        pairs.append((m, rng.choice(extra) if rng.chance(1, 3) else rng.below(HYPER)))
    pairs.append((0, 0))
    pairs.append((valid_mask, 2715646))
    rc, err, calls = real_fw_calls(bins, pairs)
    if calls is None:
        ctx.oracle_fail("c11_fw_run crashed (sanitizer?) rc=%s" % rc, err[-2000:], key="c11-fw-harness-crash")
    else:
        idx = list(range(len(pairs)))
        ctx.correspond("mframe_schedule", "Mframe", idx, lambda k: "w_c11_fw_sched %d %d" % pairs[k],
                       lambda k: [len(calls[k])] + [x for c in calls[k] for x in c], show=lambda k: dict(tasks_mask=pairs[k][0], fn=pairs[k][1]))
        fired = {}
        for k in range(nfull):
            m, cur = pairs[k]
            t = m.bit_length() - 1
            for (off, kind, p3) in calls[k]:
                key = (t, kind, bool((p3 >> 8) & fw["const"]["MF_F_SACCH"]))
                fired.setdefault(key, set()).add(cur)
                if (off != 1 or (p3 & 0xff) != t) and ("args", t) not in fired:
                    fired[("args", t)] = True
                    ctx.oracle_fail("tdma_schedule_set called with frame_offset %d, p3 %d for task %d" % (off, p3, t), dict(task=t, cur=cur, call=[off, kind, p3]), key="c11-call-args:task%d" % t)
            ctx.nontrivial(("fw", t, tuple((c[1], c[2] >> 8) for c in calls[k])))
        for k in range(nfull, len(pairs)):
            ctx.nontrivial(("fwset", bin(pairs[k][0]).count("1") > 1, min(len(calls[k]), 3), pairs[k][1] >= HYPER - 2, pairs[k][1] >= (1 << 32) - 2))
        for k in (0, nfull // 3, nfull - 1, nfull + 5, len(pairs) - 1):
            ctx.sample(dict(op="mframe_schedule", tasks_mask=pairs[k][0], fn=pairs[k][1], calls=calls[k][:6]))
        # ---- (4) the property on the implementation's observations
        n = oracle_rows(ctx, fw, tx, fired, curs)
        ctx.evaluations += n
        ctx.count("oracle:row-frame comparisons", n)
        ctx.exhaustive = True
    n = oracle_tables(ctx, fw, tx)
    ctx.evaluations += n
    ctx.count("oracle:table entries", n)

    # ---- (2) trxcon frame lookup: layouts[i].frames[fn % period]
    nl = len(tx["layouts"])
    fp = []
    for li in range(nl):
        per = max(tx["layouts"][li]["period"], 1)
        for fn in range(0, 2 * per + 3):
            fp.append((li, fn))
        for fn in extra[:: (1 if thorough else 4)]:
            fp.append((li, fn))
    for li in (nl, nl + 1, 255):
        fp.append((li, rng.below(HYPER)))
    rc, err, fres = real_trx(bins, "frames", fp)
    if fres is None:
        ctx.oracle_fail("c11_trxcon_dump frames crashed (sanitizer?) rc=%s" % rc, err[-2000:], key="c11-trxcon-harness-crash")
    else:
        idx = list(range(len(fp)))
        ctx.correspond("frame-lookup", "Mframe", idx, lambda k: "w_c11_trx_frame %d %d" % fp[k], lambda k: fres[k],
                       show=lambda k: dict(layout=fp[k][0], fn=fp[k][1]))
        for k in idx:
            li, fn = fp[k]
            r = fres[k]
            ctx.nontrivial(("frame", li, tuple(r)))
            if li < nl and tx["layouts"][li]["cfg"] != tx["pchan"]["GSM_PCHAN_NONE"]:
                L = tx["layouts"][li]
                if len(r) != 4 or (L["period"] > 0 and L["period"] <= len(L["frames"]) and tuple(r) != L["frames"][fn % L["period"]]):
                    ctx.oracle_fail("frames[fn % period] differs from the dumped row", dict(layout=li, fn=fn, got=r), key="c11-frame-lookup:layout%d" % li)
        ctx.sample(dict(op="frames[fn % period]", layout=fp[7][0], fn=fp[7][1], row=fres[7]))

    # ---- (3) l1sched_mframe_layout(config, tn)
    lp = [(c, tn) for c in range(128) for tn in range(8)]
    lp += [(c, tn) for c in (128, 200, 255, 1000) for tn in range(8)] + [(c, tn) for c in tx["pchan"].values() for tn in range(8, 16)]
    rc, err, lres = real_trx(bins, "lookup", lp)
    if lres is None:
        ctx.oracle_fail("c11_trxcon_dump lookup crashed rc=%s" % rc, err[-2000:], key="c11-trxcon-harness-crash")
    else:
        idx = list(range(len(lp)))
        ctx.correspond("layout-lookup", "Mframe", idx, lambda k: "w_c11_trx_layout %d %d" % lp[k], lambda k: lres[k],
                       show=lambda k: dict(config=lp[k][0], tn=lp[k][1]))
        for k in idx:
            ctx.nontrivial(("lookup", lres[k][0], lp[k][1] >= 8))
        ctx.sample(dict(op="l1sched_mframe_layout", config=lp[3 * 8 + 5][0], tn=lp[3 * 8 + 5][1], layout=lres[3 * 8 + 5]))

    # ---- (4) l1sched_configure_ts(): which channels get a channel state (the real sched_trx.c on the real tables)
    cp = [(c, tn) for c in range(128) for tn in range(8)]
    # (the same timeslot is re-configured with one combination after the other: reconfiguration resets the old states)
    inp = "".join("%d %d\n" % q for q in cp)
    env = dict(os.environ, ASAN_OPTIONS="detect_leaks=0")
    pr = subprocess.run([bins["c11_trxcon_cfg"]], input=inp, stdout=subprocess.PIPE, stderr=subprocess.PIPE, text=True, timeout=900, env=env)
    clines = pr.stdout.split("\n")
    if pr.returncode != 0 or len(clines) < len(cp):
        ctx.oracle_fail("l1sched_configure_ts harness stopped (sanitizer report?) rc=%s" % pr.returncode, dict(stderr=pr.stderr[-2000:], answered=len(clines) - 1),
                        key="c11-configure-ts-crash")
    else:
        cres = [[int(x) for x in l.split()] for l in clines[:len(cp)]]
        idx = list(range(len(cp)))
        ctx.correspond("configure-ts", "Mframe", idx, lambda k: "w_c11_cfg_ts %d %d" % cp[k], lambda k: cres[k], show=lambda k: dict(config=cp[k][0], tn=cp[k][1]))
        for k, (cfg, tn) in enumerate(cp):
            li = real_lookup(tx, cfg, tn)
            r = cres[k]
            ctx.nontrivial(("configure", r[0], len(r) - 1))
            if li < 0 or not (0 <= li < len(tx["layouts"])) or tx["layouts"][li]["cfg"] != cfg:
                if r[0] == 0:
                    ctx.oracle_fail("l1sched_configure_ts accepts a combination without a layout of its own", dict(config=cfg, tn=tn), key="c11-configure-ts-accepts")
                continue
            L = tx["layouts"][li]
            if r[0] != 0:
                ctx.oracle_fail("l1sched_configure_ts refuses a combination that has a layout (rc=%d)" % r[0], dict(config=cfg, tn=tn, layout=li), key="c11-configure-ts-refuses")
                continue
            have = set(r[1:])
            used = set()
            for fr in L["frames"][:max(L["period"], 0)]:
                used.update(c for c in (fr[0], fr[2]) if c != E["L1SCHED_IDLE"])
            missing = sorted(used - have)
            if missing:
                names = {v: n for n, v in E.items()}
                ctx.oracle_fail("frames of the layout use channels that get no channel state when the timeslot is configured: " + ", ".join(names.get(c, str(c)) for c in missing),
                                dict(config=cfg, tn=tn, layout=li, name=L.get("name")), key="c11-no-channel-state:layout%d" % li, expected=sorted(used), observed=sorted(have))

    # ---- the oracle's copy of the specification table is the model's table
    rows = spec_rows()
    try:
        mrows = ctx.model("Mframe", ["w_c11_row %d" % i for i in range(len(rows) + 1)])
        exp = [[fw["tasks"][r[0]], tx["pchan"][r[1]], {"all": 0, "even": 1, "odd": 2}[r[2]], {"block": 0, "block-dl": 1, "tch": 2}[r[3]],
                E[r[4]], E[r[5]] if r[5] else -1] for r in rows] + [[]]
        if mrows != exp:
            k = next(i for i in range(len(exp)) if mrows[i] != exp[i])
            ctx.corr_failures.append(dict(name="spec-table", case=dict(row=k), model=mrows[k], impl=exp[k]))
        ctx.count("corr:spec-table rows", len(rows))
    except common.ModelUnavailable:
        pass

    # ---- model-side failing-input search when an obligation no longer checks
    if not proved:
        try:
            r = ctx.model("Mframe", ["w_c11_find_bad 0"])[0]
            if r:
                rows = spec_rows()
                ctx.note("model-side search: first (row, tn, cur) breaking the agreement: row %d %s, tn %d, cur %d" % (
                    r[0], rows[r[0]][:2] if r[0] < len(rows) else "?", r[1], r[2]))
                ctx.extra["model_find_bad"] = r
            else:
                ctx.note("model-side search: block-start / frame-by-frame agreement holds on the regenerated tables (another obligation broke)")
        except Exception as e:  # noqa
            ctx.note("model-side search unavailable: %r" % (e,))
    ctx.extra["tables"] = dict(fw_rows=sum(len(s) for s in fw["sets"].values() if s), fw_tasks=len(tasks), trxcon_layouts=nl,
                               trxcon_frame_rows=sum(len(l["frames"]) for l in tx["layouts"]), spec_rows=len(spec_rows()))
    ctx.extra["rule"] = ("exhaustive: real mframe_schedule() for each of the %d non-NULL tasks x every current frame 0..10607, compared with the extracted model and "
                         "(oracle) with the real layouts[] rows; plus frame numbers +-4 around multiples of 13/26/51/102/104/1326/10608, the hyperframe end and 2^32, "
                         "random task sets; frames[fn %% period] for every layout over two periods + boundaries; l1sched_mframe_layout for all 128x8 pairs + out-of-range. "
                         "distinct_nontrivial = distinct (task, set of kinds/flags fired), (layout, frame row), (lookup result) classes" % len(tasks))
