"""C11 - firmware and trxcon agree on the multiframe mapping of every logical channel.
Model: Model/Mframe.v; lemmas: Proofs/MframeP.v; theorems: Props/C11.v.
Tie: Gen/MframeFw.v (rows of the real sched_set_for_task[] tables, enum mframe_task, SCHEDULE_AHEAD/LATENCY, mframe_task2chan_nr)
and Gen/MframeTrxcon.v (all layouts of the real layouts[], enum l1sched_lchan_type, l1sched_lchan_desc[] chan_nr/link_id/handlers,
the results of the real l1sched_mframe_layout(config, tn)) - both produced by C dumpers that #include the real .c files -
plus correspondence of the extracted model with the real mframe_schedule() (every task x every fn of the 51*26*8 cycle; histories of
mframe_enable/disable/set/reset requests interleaved with ticks, observing tasks, tasks_tgt, safe_fn and the tdma_schedule_set calls),
the real layouts[i].frames[fn % period], the real l1sched_mframe_layout(), the real l1sched_configure_ts(), and - the four places
where sched_trx.c performs the frame lookup - the real l1sched_handle_rx_burst() incl. subst_frame_loss(), l1sched_pull_burst() and
l1sched_handle_rx_probe() driven through charness/c11_trxcon_cfg.c with recording handler stubs (burst sequences with losses,
out-of-order bursts, period-boundary and hyperframe-wrap crossings; every frame of the 51*26*8 cycle for pull_burst / probe)."""
import math
import os
import re
import subprocess

from .. import common
from ..common import ROOT, WORK

CYCLE = 51 * 26 * 8
HYPER = 2715648
K_NAMES = {0: "NB_DL", 1: "NB_UL", 2: "PM", 3: "TCH", 4: "TCH_A", 5: "TCH_D", 9: "OTHER"}


def _paths():
    repo = common.REPO
    return dict(
        fw=os.path.join(repo, "src/target/firmware"),
        fw_c=os.path.join(repo, "src/target/firmware/layer1/mframe_sched.c"),
        fw_h=os.path.join(repo, "src/target/firmware/include/layer1/mframe_sched.h"),
        trx=os.path.join(repo, "src/host/trxcon"),
        trx_c=os.path.join(repo, "src/host/trxcon/src/sched_mframe.c"),
        trx_desc=os.path.join(repo, "src/host/trxcon/src/sched_lchan_desc.c"),
        trx_h=os.path.join(repo, "src/host/trxcon/include/osmocom/bb/l1sched/l1sched.h"),
        lib=os.path.join(repo, "src/shared/libosmocore"),
    )


def _strip_comments(s):
    s = re.sub(r"/\*.*?\*/", " ", s, flags=re.S)
    return re.sub(r"//[^\n]*", " ", s)


def _enum_names(path, enum):
    with open(path) as f:
        src = _strip_comments(f.read())
    m = re.search(r"enum\s+%s\s*\{(.*?)\}" % re.escape(enum), src, re.S)
    if not m:
        raise RuntimeError("enum %s not found in %s" % (enum, path))
    names = []
    for part in m.group(1).split(","):
        part = part.strip()
        if not part:
            continue
        names.append(part.split("=")[0].strip())
    return names


FW_SETS = ("nb_sched_set", "nb_sched_set_ul", "neigh_pm_sched_set", "tch_sched_set", "tch_a_sched_set", "tch_d_sched_set")


def fw_sets_text(p):
    """the six TDMA sched sets mframe_sched.c refers to, from the TEXT of their definitions in layer1/prim_*.c: the same sequence of
    items / SCHED_END_FRAME() / SCHED_END_SET() with every callback replaced by c11_nop (fails closed on anything else)"""
    d = os.path.join(p["fw"], "layer1")
    src = {}
    for f in sorted(os.listdir(d)):
        if f.startswith("prim_") and f.endswith(".c"):
            with open(os.path.join(d, f)) as fh:
                src[f] = _strip_comments(fh.read())
    out = []
    for name in FW_SETS:
        hits = [(f, m) for f, t in src.items()
                for m in re.finditer(r"^\s*(?:static\s+)?const\s+struct\s+tdma_sched_item\s+%s\s*\[\s*\]\s*=\s*\{(.*?)\}\s*;" % re.escape(name), t, re.S | re.M)]
        if len(hits) != 1:
            raise RuntimeError("TDMA sched set %s: %d definitions found in layer1/prim_*.c" % (name, len(hits)))
        body = hits[0][1].group(1)
        toks = re.findall(r"(SCHED_[A-Z_]+)\s*\(([^()]*)\)", body)
        rest = re.sub(r"SCHED_[A-Z_]+\s*\([^()]*\)", "", body)
        if rest.replace(",", "").strip() or not toks or toks[-1][0] != "SCHED_END_SET":
            raise RuntimeError("TDMA sched set %s in %s has an unexpected shape" % (name, hits[0][0]))
        items = []
        for k, (mac, args) in enumerate(toks):
            if mac in ("SCHED_ITEM", "SCHED_ITEM_DT") and k < len(toks) - 1:
                items.append("SCHED_ITEM(c11_nop, 0, 0, 0)")
            elif mac == "SCHED_END_FRAME" and k < len(toks) - 1:
                items.append("SCHED_END_FRAME()")
            elif mac == "SCHED_END_SET" and k == len(toks) - 1:
                items.append("SCHED_END_SET()")
            else:
                raise RuntimeError("TDMA sched set %s: unexpected %s at position %d" % (name, mac, k))
        out.append("const struct tdma_sched_item %s[] = { %s };\n" % (name, ", ".join(items)))
    return "".join(out)


def write_incs():
    """name lists taken from the text of the real sources; every VALUE is then read through the compiler"""
    p = _paths()
    d = os.path.join(WORK, "c", "c11inc")
    os.makedirs(d, exist_ok=True)
    tasks = _enum_names(p["fw_h"], "mframe_task")
    common.write_if_changed(os.path.join(d, "c11_fw_names.inc"), "".join("T(%s)\n" % t for t in tasks))
    common.write_if_changed(os.path.join(d, "c11_fw_sets.inc"), fw_sets_text(p))
    lch = [n for n in _enum_names(p["trx_h"], "l1sched_lchan_type") if not n.startswith("_")]
    with open(p["trx_c"]) as f:
        src = _strip_comments(f.read())
    arrs = re.findall(r"static\s+const\s+struct\s+l1sched_tdma_frame\s+(\w+)\s*\[", src)
    with open(p["trx_desc"]) as f:
        dsrc = _strip_comments(f.read())
    head = dsrc.split("l1sched_lchan_desc[")[0]
    handlers = re.findall(r"^\s*(int\s+\w+\s*\([^;{]*\))\s*;", head, re.M)
    txt = "#ifdef C11_HANDLERS\n" + "".join(h + " { return 0; }\n" for h in handlers) + "#endif\n"
    # recording bodies (c11_trxcon_cfg.c): the parameter names come from the declaration text; any other shape of a
    # handler declaration stops the check (fail closed - a handler that does not record would hide its calls)
    rec = []
    shape = re.compile(r"int\s+(\w+)\s*\(\s*struct\s+l1sched_lchan_state\s*\*\s*(\w+)\s*,\s*"
                       r"(const\s+struct\s+l1sched_burst_ind|struct\s+l1sched_burst_req)\s*\*\s*(\w+)\s*\)$")
    for h in handlers:
        m = shape.match(" ".join(h.split()))
        if not m:
            raise RuntimeError("handler declaration in sched_lchan_desc.c has an unexpected shape: %r" % h)
        name, a1, kind, a2 = m.groups()
        rx = kind.startswith("const")
        if rx != name.startswith("rx_") or (not rx and not name.startswith("tx_")):
            raise RuntimeError("handler %s: direction of the name and of the burst argument differ" % name)
        rec.append("%s { return %s(%s, %s, %s); }\n" % (h, "c11_rec_rx" if rx else "c11_rec_tx", a1, a2, name))
    if not rec or len(re.findall(r"\b[rt]x_\w+_fn\b\s*\(", head)) != len(rec):
        raise RuntimeError("sched_lchan_desc.c: not every rx_/tx_ handler declaration was recognised")
    txt += "#ifdef C11_HANDLERS_REC\n" + "".join(rec) + "#endif\n"
    txt += "".join("E(%s)\n" % n for n in lch) + "".join("F(%s)\n" % a for a in arrs)
    common.write_if_changed(os.path.join(d, "c11_trxcon_names.inc"), txt)
    return d, tasks, lch, arrs


def build_c(ctx):
    p = _paths()
    inc, tasks, lch, arrs = write_incs()
    ch = os.path.join(ROOT, "charness")
    fwflags = "-idirafter %s/include -I%s/include -I%s/include -I%s/layer1 -I%s -I%s" % (
        p["fw"], p["lib"], common.REPO, p["fw"], inc, ch)
    bins = {}
    # -fno-sanitize=shift: mframe_schedule() evaluates `1 << i` for i = 31 in int on every call (formally undefined,
    # harmless on the target); it is outside C11 and would abort every run of the harness.
    for name in ("c11_fw_dump", "c11_fw_run"):
        ok, path, log = common.cc(name, [os.path.join(ch, name + ".c")], flags=fwflags + " -fno-sanitize=shift")
        if not ok:
            raise RuntimeError("%s does not compile:\n%s" % (name, log[-3000:]))
        bins[name] = path
    tflags = "-include %s/stubs/c11_compat.h -I%s/include -I%s/src -I%s/include -I%s/stubs -I%s" % (
        ch, p["trx"], p["trx"], p["lib"], ch, inc)
    ok, path, log = common.cc("c11_trxcon_dump", [os.path.join(ch, "c11_trxcon_dump.c")], flags=tflags)
    if not ok:
        raise RuntimeError("c11_trxcon_dump does not compile:\n%s" % log[-3000:])
    bins["c11_trxcon_dump"] = path
    # the real l1sched_configure_ts() (sched_trx.c) with the real tables; talloc from the vendored libosmocore
    ok, path, log = common.cc("c11_trxcon_cfg", [os.path.join(ch, "c11_trxcon_cfg.c"), os.path.join(p["lib"], "src/talloc.c")],
                              flags=tflags.replace("c11_compat.h", "c11_trx_compat.h") + " -I%s/stubs/a/b -I%s/stubs/c11" % (ch, ch))
    if not ok:
        raise RuntimeError("c11_trxcon_cfg does not compile:\n%s" % log[-3000:])
    bins["c11_trxcon_cfg"] = path
    # twin without sanitizers: only used to look at what a case that the sanitizers stopped goes on to do (which handler calls follow)
    ok, path, log = common.cc("c11_trxcon_cfg_nosan", [os.path.join(ch, "c11_trxcon_cfg.c"), os.path.join(p["lib"], "src/talloc.c")],
                              flags=tflags.replace("c11_compat.h", "c11_trx_compat.h") + " -I%s/stubs/a/b -I%s/stubs/c11" % (ch, ch), sanitize=False)
    bins["c11_trxcon_cfg_nosan"] = path if ok else None
    return bins


def _run(cmd, inp=None, timeout=600):
    p = subprocess.run(cmd, input=inp, stdout=subprocess.PIPE, stderr=subprocess.PIPE, text=True, timeout=timeout)
    return p.returncode, p.stdout, p.stderr


def dump_fw(bins):
    rc, out, err = _run([bins["c11_fw_dump"]])
    if rc != 0 or not out.rstrip().endswith("END"):
        raise RuntimeError("c11_fw_dump failed rc=%d\n%s" % (rc, err[-2000:]))
    fw = dict(const={}, tasks={}, sets={}, chnr={}, frames={})
    for line in out.splitlines():
        w = line.split()
        if w[0] == "CONST":
            fw["const"][w[1]] = int(w[2])
        elif w[0] == "TASK":
            fw["tasks"][w[1]] = int(w[2])
        elif w[0] == "SET":
            fw["sets"][int(w[1])] = None if int(w[2]) < 0 else []
        elif w[0] == "ITEM":
            fw["sets"][int(w[1])].append(tuple(int(x) for x in w[3:7]))
        elif w[0] == "CHNR":
            fw["chnr"][int(w[1])] = [int(x) for x in w[2:]]
        elif w[0] == "SETFRAMES":
            fw["frames"][int(w[1])] = int(w[2])
    if sorted(fw["frames"]) != list(range(6)):
        raise RuntimeError("c11_fw_dump: SETFRAMES lines missing")
    return fw


def dump_trx(bins):
    rc, out, err = _run([bins["c11_trxcon_dump"], "dump"])
    if rc != 0 or not out.rstrip().endswith("END"):
        raise RuntimeError("c11_trxcon_dump failed rc=%d\n%s" % (rc, err[-2000:]))
    tx = dict(enum={}, pchan={}, desc={}, auto={}, layouts=[], lookup={}, chanmax=None, lid_sacch=None)
    for line in out.splitlines():
        w = line.split()
        if w[0] == "ENUM":
            tx["enum"][w[1]] = int(w[2])
        elif w[0] == "CHANMAX":
            tx["chanmax"] = int(w[1])
        elif w[0] == "LID_SACCH":
            tx["lid_sacch"] = int(w[1])
        elif w[0] == "PCHAN":
            tx["pchan"][w[1]] = int(w[2])
        elif w[0] == "DESC":
            tx["desc"][int(w[1])] = tuple(int(x) for x in w[2:6])
        elif w[0] == "DAUTO":
            tx["auto"][int(w[1])] = int(w[2])
        elif w[0] == "LAYOUT":
            tx["layouts"].append(dict(cfg=int(w[2]), period=int(w[3]), slotmask=int(w[4]), mask=int(w[5]), n=int(w[6]), frames=[]))
        elif w[0] == "FRAME":
            tx["layouts"][int(w[1])]["frames"].append(tuple(int(x) for x in w[3:7]))
        elif w[0] == "LOOKUP":
            tx["lookup"][int(w[1])] = [int(x) for x in w[2:]]
    return tx


def _z(x):
    return str(x) if x >= 0 else "(%d)" % x


def _tup(t):
    return "(" + ",".join(_z(x) for x in t) + ")"


def gen_fw_text(fw):
    t = common.gen_header("firmware layer1/mframe_sched.c + include/layer1/mframe_sched.h through charness/c11_fw_dump.c "
                          "(real sched_set_for_task[], mframe_task2chan_nr(), SCHEDULE_AHEAD/LATENCY as compiled)")
    for k in ("SCHEDULE_AHEAD", "SCHEDULE_LATENCY", "GSM_MAX_FN", "MF_F_SACCH", "MF_F_PTCCH", "NTASKS"):
        t += "Definition fw_%s : Z := %d.\n" % (k, fw["const"][k])
    t += ("\n(* what tdma_schedule_set() returns for the sched set of kind 0..5 (NB_DL, NB_UL, PM, TCH, TCH_A, TCH_D) when no bucket overflows:\n"
          "   the number of SCHED_END_FRAME() entries of the definition in layer1/prim_*.c, counted as tdma_sched.c counts them *)\n")
    t += "Definition fw_set_frames : list Z := " + common.zlist([fw["frames"][k] for k in range(6)]) + ".\n"
    t += "\n(* enum mframe_task as compiled *)\n"
    for name, v in sorted(fw["tasks"].items(), key=lambda kv: kv[1]):
        t += "Definition fw_%s : Z := %d.\n" % (name, v)
    t += ("\n(* sched_set_for_task[i], i = 0..NTASKS-1: None = NULL entry, else the rows before the terminator as\n"
          "   (kind, modulo, frame_nr, flags); kind: 0 NB_DL (nb_sched_set) 1 NB_UL (nb_sched_set_ul) 2 PM (neigh_pm_sched_set)\n"
          "   3 TCH (tch_sched_set) 4 TCH_A (tch_a_sched_set) 5 TCH_D (tch_d_sched_set) 9 any other pointer *)\n")
    t += "Definition fw_sched : list (option (list (Z*Z*Z*Z))) := [\n"
    rows = []
    for i in range(fw["const"]["NTASKS"]):
        s = fw["sets"][i]
        rows.append("  None" if s is None else "  Some [" + ";".join(_tup(x) for x in s) + "]")
    t += ";\n".join(rows) + "\n].\n"
    t += "\n(* mframe_task2chan_nr(task, tn), task = 0..NTASKS-1, tn = 0..7 *)\nDefinition fw_chan_nr : list (list Z) := [\n"
    t += ";\n".join("  " + common.zlist(fw["chnr"][i]) for i in range(fw["const"]["NTASKS"])) + "\n].\n"
    return t


def gen_trx_text(tx):
    t = common.gen_header("trxcon src/sched_mframe.c, src/sched_lchan_desc.c, include/osmocom/bb/l1sched/l1sched.h through "
                          "charness/c11_trxcon_dump.c (real layouts[], frame_* arrays, l1sched_mframe_layout(), l1sched_lchan_desc[] as compiled)")
    t += "(* enum l1sched_lchan_type as compiled *)\n"
    for name, v in sorted(tx["enum"].items(), key=lambda kv: kv[1]):
        t += "Definition tx_%s : Z := %d.\n" % (name, v)
    t += "Definition tx_CHAN_MAX : Z := %d.\nDefinition tx_LID_SACCH : Z := %d.\n" % (tx["chanmax"], tx["lid_sacch"])
    t += "\n(* enum gsm_phys_chan_config values as compiled in the harness (the two CBCH combinations come from charness/stubs/c11_compat.h) *)\n"
    for name, v in tx["pchan"].items():
        t += "Definition tx_%s : Z := %d.\n" % (name, v)
    t += "\n(* l1sched_lchan_desc[chan], chan = 0..CHAN_MAX-1: (chan_nr, link_id, rx_fn != NULL, tx_fn != NULL) *)\n"
    t += "Definition tx_desc : list (Z*Z*Z*Z) := [\n" + ";\n".join("  " + _tup(tx["desc"][i]) for i in range(tx["chanmax"])) + "\n].\n"
    t += "\n(* l1sched_lchan_desc[chan].flags & L1SCHED_CH_FLAG_AUTO (activated by l1sched_configure_ts() itself) *)\n"
    t += "Definition tx_desc_auto : list Z := " + common.zlist([tx["auto"][i] for i in range(tx["chanmax"])]) + ".\n"
    t += ("\n(* layouts[i]: (chan_config, period, slotmask, lchan_mask, number of rows of the frames array (-1: frames == NULL,\n"
          "   -2: not the start of a frame_* array), rows (dl_chan, dl_bid, ul_chan, ul_bid)) *)\n")
    t += "Definition tx_layouts : list (Z*Z*Z*Z*Z*list (Z*Z*Z*Z)) := [\n"
    rows = []
    for l in tx["layouts"]:
        rows.append("  (%d,%d,%d,%d,%s,\n   [%s])" % (l["cfg"], l["period"], l["slotmask"], l["mask"], _z(l["n"]),
                                                     ";".join(_tup(f) for f in l["frames"])))
    t += ";\n".join(rows) + "\n].\n"
    t += ("\n(* the real l1sched_chan_nr2pchan_config(chan_nr) of sched_trx.c for chan_nr = 0..255 (through charness/c11_trxcon_cfg.c resolve) *)\n"
          "Definition tx_resolve : list Z := " + common.zlist(tx["resolve"]) + ".\n")
    t += ("\n(* the real l1sched_mframe_layout(config, tn) for config = 0..127 (row), tn = 0..7 (column): index into layouts[], -1 = NULL *)\n"
          "Definition tx_lookup : list (list Z) := [\n")
    t += ";\n".join("  " + common.zlist(tx["lookup"][c]) for c in range(128)) + "\n].\n"
    return t


def dump_resolver(bins):
    """the real l1sched_chan_nr2pchan_config() (sched_trx.c) for all 256 channel numbers"""
    pr = subprocess.run([bins["c11_trxcon_cfg"], "resolve"], stdout=subprocess.PIPE, stderr=subprocess.PIPE, text=True, timeout=120,
                        env=dict(os.environ, ASAN_OPTIONS="detect_leaks=0"))
    rc, out, err = pr.returncode, pr.stdout, pr.stderr
    rows = [l.split() for l in out.splitlines()]
    if rc != 0 or len(rows) != 256 or any(len(r) != 2 or int(r[0]) != i for i, r in enumerate(rows)):
        raise RuntimeError("c11_trxcon_cfg resolve failed rc=%d\n%s" % (rc, err[-2000:]))
    return [int(r[1]) for r in rows]


def gen(ctx):
    bins = build_c(ctx)
    fw = dump_fw(bins)
    tx = dump_trx(bins)
    tx["resolve"] = dump_resolver(bins)
    ctx.gen("MframeFw", gen_fw_text(fw))
    ctx.gen("MframeTrxcon", gen_trx_text(tx))
    return bins, fw, tx


# ------------------------------------------------------------------ the specification table (mirrors c11_rows in Model/Mframe.v)
# (firmware task, trxcon channel combination, timeslots, mode, lchan, SACCH lchan)

def spec_rows():
    """same rows, same order as c11_rows in Model/Mframe.v (run() compares the two through w_c11_row)"""
    R = []
    for cfg in ("GSM_PCHAN_CCCH", "GSM_PCHAN_CCCH_SDCCH4", "GSM_PCHAN_CCCH_SDCCH4_CBCH"):
        R.append(("MF_TASK_BCCH_NORM", cfg, "all", "block", "L1SCHED_BCCH", None))
    R.append(("MF_TASK_CCCH", "GSM_PCHAN_CCCH", "all", "block", "L1SCHED_CCCH", None))
    for cfg in ("GSM_PCHAN_CCCH_SDCCH4", "GSM_PCHAN_CCCH_SDCCH4_CBCH"):
        R.append(("MF_TASK_CCCH_COMB", cfg, "all", "block", "L1SCHED_CCCH", None))
    for cfg, skip in (("GSM_PCHAN_CCCH_SDCCH4", ()), ("GSM_PCHAN_CCCH_SDCCH4_CBCH", (2,))):
        for n in range(4):
            if n not in skip:
                R.append(("MF_TASK_SDCCH4_%d" % n, cfg, "all", "block", "L1SCHED_SDCCH4_%d" % n, "L1SCHED_SACCH4_%d" % n))
    for cfg, skip in (("GSM_PCHAN_SDCCH8_SACCH8C", ()), ("GSM_PCHAN_SDCCH8_SACCH8C_CBCH", (2,))):
        for n in range(8):
            if n not in skip:
                R.append(("MF_TASK_SDCCH8_%d" % n, cfg, "all", "block", "L1SCHED_SDCCH8_%d" % n, "L1SCHED_SACCH8_%d" % n))
    R.append(("MF_TASK_SDCCH4_CBCH", "GSM_PCHAN_CCCH_SDCCH4_CBCH", "all", "block", "L1SCHED_SDCCH4_CBCH", None))
    R.append(("MF_TASK_SDCCH8_CBCH", "GSM_PCHAN_SDCCH8_SACCH8C_CBCH", "all", "block", "L1SCHED_SDCCH8_CBCH", None))
    R.append(("MF_TASK_GPRS_PDTCH", "GSM_PCHAN_PDCH", "all", "block-dl", "L1SCHED_PDTCH", None))
    R.append(("MF_TASK_TCH_F_EVEN", "GSM_PCHAN_TCH_F", "even", "tch", "L1SCHED_TCHF", "L1SCHED_SACCHTF"))
    R.append(("MF_TASK_TCH_F_ODD", "GSM_PCHAN_TCH_F", "odd", "tch", "L1SCHED_TCHF", "L1SCHED_SACCHTF"))
    R.append(("MF_TASK_TCH_H_0", "GSM_PCHAN_TCH_H", "all", "tch", "L1SCHED_TCHH_0", "L1SCHED_SACCHTH_0"))
    R.append(("MF_TASK_TCH_H_1", "GSM_PCHAN_TCH_H", "all", "tch", "L1SCHED_TCHH_1", "L1SCHED_SACCHTH_1"))
    return R


def tn_ok(rule, tn):
    return rule == "all" or (rule == "even" and tn % 2 == 0) or (rule == "odd" and tn % 2 == 1)


def other_subchannel(lchan):
    return {"L1SCHED_TCHH_0": "L1SCHED_TCHH_1", "L1SCHED_TCHH_1": "L1SCHED_TCHH_0"}.get(lchan)


def real_fw_calls(bins, pairs):
    """run the real mframe_schedule(): pairs = [(mask, fn)] -> list of [(off, kind, p3)]"""
    inp = "".join("%d %d\n" % p for p in pairs)
    rc, out, err = _run([bins["c11_fw_run"]], inp, timeout=900)
    lines = out.split("\n")
    if rc != 0 or len(lines) < len(pairs):
        return rc, err, None
    res = []
    for l in lines[:len(pairs)]:
        w = [int(x) for x in l.split()]
        res.append([tuple(w[1 + 3 * i:4 + 3 * i]) for i in range(w[0])])
    return 0, "", res


def real_trx(bins, mode, pairs):
    inp = "".join("%d %d\n" % p for p in pairs)
    rc, out, err = _run([bins["c11_trxcon_dump"], mode], inp, timeout=900)
    lines = out.split("\n")
    if rc != 0 or len(lines) < len(pairs):
        return rc, err, None
    return 0, "", [[int(x) for x in l.split()] for l in lines[:len(pairs)]]


# ------------------------------------------------------------------ implementation-level oracle (on the dumped real tables / recorded real calls)

def nbursts(E, c):
    if c in (E["L1SCHED_FCCH"], E["L1SCHED_SCH"], E["L1SCHED_RACH"]):
        return 1
    if c in (E["L1SCHED_TCHH_0"], E["L1SCHED_TCHH_1"]):
        return 2
    return 4


def real_lookup(tx, cfg, tn):
    return tx["lookup"][cfg][tn] if 0 <= cfg < 128 and 0 <= tn < 8 else -1


def oracle_tables(ctx, fw, tx):
    """bids cyclic, lookup inside the table, mask covers, (config, tn) validity - directly on the dumped real tables"""
    E = tx["enum"]
    inv = {v: k for k, v in E.items()}
    IDLE = E["L1SCHED_IDLE"]
    NONE = tx["pchan"]["GSM_PCHAN_NONE"]
    n = 0
    for li, L in enumerate(tx["layouts"]):
        if L["cfg"] == NONE:
            continue
        per, fr = L["period"], L["frames"]
        if not (0 < per <= L["n"] and per < 256 and len(fr) == L["n"]):
            ctx.oracle_fail("trxcon layout: fn %% period can leave the frames array (period %d, rows %d)" % (per, L["n"]),
                            dict(layout=li, config=L["cfg"], period=per, rows=L["n"], fn=(L["n"] if per > L["n"] >= 0 else 0)),
                            key="c11-lookup-leaves-table:layout%d" % li)
            continue
        for d, (ci, bi) in (("DL", (0, 1)), ("UL", (2, 3))):
            for i in range(per):
                c, b = fr[i][ci], fr[i][bi]
                n += 1
                if c != IDLE and not (0 <= c < tx["chanmax"] and c < 64 and (L["mask"] >> c) & 1):
                    ctx.oracle_fail("trxcon layout: channel %s used by a frame is not in the layout's lchan mask" % inv.get(c, c),
                                    dict(layout=li, config=L["cfg"], frame=i, dir=d, chan=inv.get(c, c), mask=hex(L["mask"])),
                                    key="c11-mask:layout%d:%s" % (li, inv.get(c, c)))
                if c == IDLE:
                    continue
                nb = nbursts(E, c)
                k = next(k for k in range(1, per + 1) if fr[(i + k) % per][ci] == c)
                b2 = fr[(i + k) % per][bi]
                if not (0 <= b < nb and b2 == (b + 1) % nb):
                    ctx.oracle_fail("trxcon layout: burst ids of %s not cyclic 0..%d" % (inv.get(c, c), nb - 1),
                                    dict(layout=li, config=L["cfg"], dir=d, chan=inv.get(c, c), frame=i, bid=b, next_frame=(i + k) % per, next_bid=b2),
                                    key="c11-bids:layout%d:%s:%s:frame%d" % (li, d, inv.get(c, c), i))
        for fr_row in fr[per:]:
            for c in (fr_row[0], fr_row[2]):
                if c != IDLE and not (0 <= c < 64 and (L["mask"] >> c) & 1):
                    ctx.oracle_fail("trxcon layout: channel in a row beyond the period not in mask", dict(layout=li, chan=c), key="c11-mask:layout%d:%s" % (li, inv.get(c, c)))
    known = set(tx["pchan"].values())
    for cfg in range(128):
        for tn in range(8):
            li = tx["lookup"][cfg][tn]
            n += 1
            if cfg in known:
                ok = 0 <= li < len(tx["layouts"]) and tx["layouts"][li]["cfg"] == cfg and (tx["layouts"][li]["slotmask"] >> tn) & 1
            else:
                ok = li == -1
            if not ok:
                ctx.oracle_fail("l1sched_mframe_layout(config=%d, tn=%d) returns %s" % (cfg, tn, "NULL" if li == -1 else "layout %d" % li),
                                dict(config=cfg, tn=tn, returned=li), key="c11-layout-for-tn:config%d:tn%d" % (cfg, tn))
    return n


def oracle_rows(ctx, fw, tx, fired, curs):
    """the property stated directly on the implementation's observations: frames in which the real mframe_schedule() called
    tdma_schedule_set() (fired[(task, kind, sacch)] = set of current frames) against the rows of the real layouts[]"""
    E, T, P = tx["enum"], fw["tasks"], tx["pchan"]
    SACCH = fw["const"]["MF_F_SACCH"]
    ahead = 2
    n = 0
    seen = {}
    for ri, (task, cfg, tnrule, mode, lchan, sacch) in enumerate(spec_rows()):
        t = T[task]
        for tn in range(8):
            if not tn_ok(tnrule, tn):
                continue
            li = real_lookup(tx, P[cfg], tn)
            if li < 0:
                ctx.oracle_fail("l1sched_mframe_layout(%s, %d) returns NULL for a mapped row" % (cfg, tn), dict(row=ri, task=task, config=cfg, tn=tn),
                                key="c11-row-no-layout:%s:%s:tn%d" % (task, cfg, tn))
                continue
            if (ri, li) in seen:
                continue
            seen[(ri, li)] = tn
            L = tx["layouts"][li]
            per, fr = L["period"], L["frames"]
            if per <= 0 or per > len(fr):
                continue  # reported by oracle_tables

            def first(col, c, bid0):
                if c is None:
                    return frozenset()
                return frozenset(i for i in range(per) if fr[i][col] == E[c] and (not bid0 or fr[i][col + 1] == 0))
            if mode == "tch":
                oth = other_subchannel(lchan)
                comps = [("TCH", 3, False, "DL", first(0, lchan, False)), ("TCH", 3, False, "UL", first(2, lchan, False)),
                         ("TCH_A", 4, True, "DL", first(0, sacch, False)), ("TCH_A", 4, True, "UL", first(2, sacch, False)),
                         ("TCH_D", 5, False, "DL", first(0, oth, False)), ("TCH_D", 5, False, "UL", first(2, oth, False))]
            else:
                comps = [("NB_DL", 0, False, "DL", first(0, lchan, True)), ("NB_DL+SACCH", 0, True, "DL", first(0, sacch, True))]
                if mode == "block":
                    comps += [("NB_UL", 1, False, "UL", first(2, lchan, True)), ("NB_UL+SACCH", 1, True, "UL", first(2, sacch, True))]
                else:
                    comps += [("NB_UL", 1, False, "UL", frozenset()), ("NB_UL+SACCH", 1, True, "UL", frozenset())]
            for what, kind, sc, d, res in comps:
                f = fired.get((t, kind, sc), frozenset())
                bad = None
                for cur in curs:
                    if (cur in f) != ((((cur + ahead) % HYPER) % per) in res):
                        bad = cur
                        break
                n += len(curs)
                if bad is not None:
                    fn = (bad + ahead) % HYPER
                    row = fr[fn % per]
                    ctx.oracle_fail(
                        "firmware %s %s at current frame %d (on air in frame %d) but trxcon layout %d (%s, tn %d) frame %d is %s"
                        % (task, "starts " + what if bad in f else "does not start " + what, bad, fn, li, cfg, tn, fn % per, list(row)),
                        dict(row=ri, task=task, config=cfg, tn=tn, cur=bad, fn=fn, layout=li, frame=fn % per, dir=d, item=what,
                             lchan=lchan, sacch=sacch, firmware_fires=bad in f, trxcon_row=list(row)),
                        key="c11-%s:%s:%s:%s:%s" % ("tch-frame" if mode == "tch" else "block-start", task, cfg, d, what))
        # every row of the task's table is accounted for
        allowed = {"block": {(0, 0), (1, 0), (0, SACCH), (1, SACCH)}, "block-dl": {(0, 0)}, "tch": {(3, 0), (4, SACCH), (5, 0)}}[mode]
        for k, it in enumerate(fw["sets"][t] or []):
            if (it[0], it[3]) not in allowed:
                ctx.oracle_fail("firmware %s row %d has kind %s flags %d, not covered by the comparison" % (task, k, K_NAMES.get(it[0], it[0]), it[3]),
                                dict(task=task, row=k, item=list(it)), key="c11-row-kind:%s:%d" % (task, k))
        # both stacks report the same channel number
        desc = tx["desc"]
        for tn in range(8):
            exp = desc[E[lchan]][0] | tn
            if fw["chnr"][t][tn] != exp or desc[E[lchan]][1] != 0 or (sacch and (desc[E[sacch]][0] != desc[E[lchan]][0] or desc[E[sacch]][1] != tx["lid_sacch"])):
                ctx.oracle_fail("channel numbers of %s and %s differ" % (task, lchan), dict(task=task, lchan=lchan, tn=tn, fw=fw["chnr"][t][tn], trxcon=exp),
                                key="c11-chan-nr:%s:%s" % (task, lchan))
                break
    return n


# ------------------------------------------------------------------ the consumers of the lookup: l1sched_handle_rx_burst / pull_burst / rx_probe

ALLMASK = (1 << 40) - 1
U32 = 1 << 32
U64 = 1 << 64
MAX_STOPS = 3     # sanitizer stops (each reported with its minimised input) after which the rest of a batch runs on the twin without sanitizers


def case_line(c):
    if "raw" in c:
        return c["raw"]
    v = [c["cfg"], c["tn"], c["act"], len(c["pokes"])]
    for pk in c["pokes"]:
        v += list(pk)
    v += [len(c["fns"])] + list(c["fns"])
    return " ".join(str(x) for x in v)


def show_case(c):
    if "raw" in c:
        return dict(kind=c["kind"], line=c["raw"])
    return dict(kind=c["kind"], config=c["cfg"], tn=c["tn"], activate_mask=hex(c["act"]),
                poke=[dict(lchan=pk[0], num_proc=pk[1] * U32 + pk[2], num_lost=pk[3], last_proc=pk[4]) for pk in c["pokes"]],
                fns=list(c["fns"]), line=case_line(c))


def real_seq(binp, mode, lines):
    """run case lines through the harness; a line on which the process stops (sanitizer report, signal) gets None and the
    run continues behind it.  Returns (results, [(line index, rc, stderr tail)])"""
    env = dict(os.environ, ASAN_OPTIONS="detect_leaks=0")
    res = [None] * len(lines)
    stops = []
    start = 0
    while start < len(lines):
        pr = subprocess.run([binp, mode], input="\n".join(lines[start:]) + "\n", stdout=subprocess.PIPE, stderr=subprocess.PIPE,
                            text=True, timeout=1500, env=env)
        done = pr.stdout.split("\n")[:-1]          # only lines that were terminated
        done = done[:len(lines) - start]
        for i, l in enumerate(done):
            try:
                res[start + i] = [int(x) for x in l.split()]
            except ValueError:
                res[start + i] = None
        if len(done) == len(lines) - start:
            break
        k = start + len(done)
        stops.append((k, pr.returncode, pr.stderr[:3000]))
        start = k + 1
        if len(stops) >= MAX_STOPS:
            break
    return res, stops


def minimise_stop(binp, mode, tx, c):
    """a shorter case that still stops the harness: the shortest stopping prefix, then (rx) just the last earlier burst of the same
    channel + the stopping burst"""
    if "raw" in c or len(c["fns"]) <= 2:
        return c

    def stops(fns):
        r, st = real_seq(binp, mode, [case_line(dict(c, fns=fns))])
        return bool(st)
    lo, hi = 1, len(c["fns"])          # invariant: prefix of length hi stops
    while lo < hi:
        mid = (lo + hi) // 2
        if stops(c["fns"][:mid]):
            hi = mid
        else:
            lo = mid + 1
    fns = c["fns"][:hi]
    li, L = case_layout(tx, c)
    if mode == "rx" and L is not None and 0 < L["period"] <= len(L["frames"]):
        own = lambda f: L["frames"][f % L["period"]][0]
        for j in range(len(fns) - 2, -1, -1):
            if own(fns[j]) == own(fns[-1]):
                if stops([fns[j], fns[-1]]):
                    fns = [fns[j], fns[-1]]
                break
    elif len(fns) > 1 and stops(fns[-1:]):
        fns = fns[-1:]
    return dict(c, fns=fns, kind=c["kind"] + " (minimised)")


def parse_obs(mode, r, nf):
    """flat ints of one answered line -> dict(cfg_rc, special, frames=[...], states={type: (active, num_proc, num_lost, last_proc)}) or None"""
    if not r:
        return None
    if len(r) == 1:
        return dict(cfg_rc=r[0], special=r[0], frames=[], states={}) if r[0] in (-999, -998) else None
    if len(r) == 2 and r[1] in (-2, -3):
        return dict(cfg_rc=r[0], special=r[1], frames=[], states={})
    o = dict(cfg_rc=r[0], special=None, frames=[], states={})
    i = 1
    try:
        for _ in range(nf):
            if mode == "rx":
                rc, bid, n = r[i:i + 3]
                i += 3
                calls = [tuple(r[i + 5 * k:i + 5 * k + 5]) for k in range(n)]
                i += 5 * n
                o["frames"].append((rc, bid, calls))
            elif mode == "tx":
                bid, n = r[i:i + 2]
                i += 2
                calls = [tuple(r[i + 4 * k:i + 4 * k + 4]) for k in range(n)]
                i += 4 * n
                o["frames"].append((bid, calls))
            else:
                o["frames"].append((r[i], r[i + 1]))
                i += 2
        n = r[i]
        i += 1
        for _ in range(n):
            t, a, hi, lo, nl, la = r[i:i + 6]
            i += 6
            o["states"][t] = (a, hi * U32 + lo, nl, la)
        if i != len(r):
            return None
    except (ValueError, IndexError):
        return None
    return o


def prop_states(tx, L, c):
    """the channel states a configured timeslot has by the property (mask bits; active: AUTO or asked for), pokes applied"""
    st = {}
    for t in range(tx["chanmax"]):
        if t < 64 and (L["mask"] >> t) & 1:
            st[t] = dict(active=bool(tx["auto"].get(t, 0)) or (t < 62 and bool((c["act"] >> t) & 1)), np=0, last=0, exact=True)
    for (t, hi, lo, nl, la) in c["pokes"]:
        if t in st:
            st[t]["np"] = hi * U32 + lo
            st[t]["last"] = la
            st[t]["exact"] = hi * U32 + lo < U64 - 100000   # beyond: the unsigned long wrap is the correspondence's business
    return st


def case_layout(tx, c):
    li = real_lookup(tx, c["cfg"], c["tn"])
    if li < 0 or li >= len(tx["layouts"]) or tx["layouts"][li]["cfg"] != c["cfg"]:
        return li, None
    return li, tx["layouts"][li]


def oracle_rx(ctx, tx, c, o, names):
    """the property on the recorded real handler calls of one burst sequence, with the dumped tables. Returns the number of bursts judged."""
    li, L = case_layout(tx, c)
    cs = show_case(c)

    def fail(what, key, **kw):
        seen = ctx.__dict__.setdefault("_c11_keys", {})
        seen[key] = seen.get(key, 0) + 1
        if seen[key] <= 3:
            ctx.oracle_fail(what, dict(cs, layout=li, **kw), key=key)
        else:
            ctx.count("oracle_fail:" + key)
    if L is None:
        if o["cfg_rc"] == 0 or any(f[0] != -22 or f[2] for f in o["frames"]):
            fail("a timeslot without a layout of its own accepts bursts", "c11-rx-unconfigured")
        return 0
    per, fr = L["period"], L["frames"]
    if per == 0:
        return 0
    if per > len(fr):
        return 0    # reported by oracle_tables
    st = prop_states(tx, L, c)
    n = 0
    for i, (fn, (rc, bid, calls)) in enumerate(zip(c["fns"], o["frames"])):
        n += 1
        row = fr[fn % per]
        ch = row[0]
        at = dict(burst_index=i, fn=fn, row=fn % per, layout_row=list(row), rc=rc, bid=bid, calls=[list(x) for x in calls])
        for (t, f, b, sub, hok) in calls:
            r = fr[f % per]
            if r[0] != t or r[1] != b:
                fail("l1sched_handle_rx_burst: %s handler call for %s, fn %d (row %d), burst id %d, but the layout gives row %d to %s with burst id %d"
                     % ("substituted" if sub else "direct", names.get(t, t), f, f % per, b, f % per, names.get(r[0], r[0]), r[1]),
                     "c11-rx-call-not-a-layout-frame", **at)
                return n
            if not hok:
                fail("l1sched_handle_rx_burst: the handler called for %s is not l1sched_lchan_desc[].rx_fn of that channel" % names.get(t, t),
                     "c11-rx-wrong-handler", **at)
                return n
        if bid != row[1]:
            fail("l1sched_handle_rx_burst: bi->bid %d, the layout row %d has dl_bid %d" % (bid, fn % per, row[1]), "c11-rx-bid", **at)
            return n
        direct = (ch, fn, row[1], 0, 1)
        s = st.get(ch)
        exp, exp_rc = None, None
        if not (0 <= ch < tx["chanmax"]) or not tx["desc"][ch][2] or s is None:
            exp, exp_rc = [], (-19,)
        elif not s["active"]:
            exp, exp_rc = [], (0,)
        elif not s["exact"]:
            pass
        elif s["np"] == 0:
            exp, exp_rc = [direct], (0,)
        elif fn < HYPER and s["last"] < HYPER:
            d = (fn - s["last"]) % HYPER
            if d >= HYPER // 2:
                exp, exp_rc = [], (-114,)
            elif d == 0 or d > per:
                exp, exp_rc = [direct], (0,)
            else:
                between = [(s["last"] + k) % HYPER for k in range(1, d)]
                exp = [(ch, f, fr[f % per][1], 1, 1) for f in between if fr[f % per][0] == ch] + [direct]
                exp_rc = (0,)
                ctx.nontrivial(("rx-subst", li, ch, min(len(exp) - 1, 3), (s["last"] % per) + d > per, s["last"] + d >= HYPER))
        if exp is not None:
            if list(calls) != exp:
                k = next((j for j in range(min(len(calls), len(exp))) if calls[j] != exp[j]), min(len(calls), len(exp)))
                fail("l1sched_handle_rx_burst: the handler calls for %s (last processed fn %d, burst in fn %d) are not exactly the frames the layout "
                     "gives to the channel in between + the burst itself: call #%d is %s, expected %s"
                     % (names.get(ch, ch), s["last"] if s else -1, fn, k, list(calls[k][:3]) if k < len(calls) else "missing",
                        list(exp[k][:3]) if k < len(exp) else "none"),
                     "c11-rx-substituted-frames", expected_calls=[list(x) for x in exp], last_proc=s["last"] if s else None, **at)
                return n
            if rc not in exp_rc:
                fail("l1sched_handle_rx_burst returns %d, expected %s" % (rc, "/".join(str(x) for x in exp_rc)), "c11-rx-rc", **at)
                return n
            ctx.nontrivial(("rx", li, ch, rc, len(calls) > 1, len(calls) > 0))
        else:
            ctx.nontrivial(("rx-raw", li, rc, min(len(calls), 3), fn >= HYPER))
        for (t, f, b, sub, hok) in calls:
            if t in st:
                st[t]["np"] = (st[t]["np"] + 1) % U64 or 1
                st[t]["last"] = f
    return n


def _capped_fail(ctx, what, case, key):
    seen = ctx.__dict__.setdefault("_c11_keys", {})
    seen[key] = seen.get(key, 0) + 1
    if seen[key] <= 3:
        ctx.oracle_fail(what, case, key=key)
    else:
        ctx.count("oracle_fail:" + key)


def oracle_tx_probe(ctx, tx, c, o, mode, names):
    li, L = case_layout(tx, c)
    cs = show_case(c)
    if L is None:
        bad = o["cfg_rc"] == 0 or any((f != (255, [])) if mode == "tx" else (f != (-22, 0)) for f in o["frames"])
        if bad:
            ctx.oracle_fail("a timeslot without a layout of its own is used by %s" % mode, dict(cs, layout=li), key="c11-%s-unconfigured" % mode)
        return 0
    per, fr = L["period"], L["frames"]
    if per == 0 or per > len(fr):
        return 0
    st = prop_states(tx, L, c)
    n = 0
    for fn, f in zip(c["fns"], o["frames"]):
        n += 1
        row = fr[fn % per]
        if mode == "tx":
            bid, calls = f
            ch = row[2]
            ok = 0 <= ch < tx["chanmax"] and tx["desc"][ch][3] and ch in st and st[ch]["active"]
            exp = [(ch, fn, row[3], 1)] if ok else []
            if bid != row[3] or list(calls) != exp:
                _capped_fail(ctx, "l1sched_pull_burst(fn %d): br->bid %d, tx handler calls %s; the layout row %d has ul_chan %s, ul_bid %d"
                                % (fn, bid, [list(x) for x in calls], fn % per, names.get(ch, ch), row[3]),
                                dict(cs, layout=li, fn=fn, row=fn % per, layout_row=list(row), expected_calls=[list(x) for x in exp]),
                              "c11-pull-burst-row")
                return n
            ctx.nontrivial(("tx", li, fn % per, bool(calls)))
        else:
            rc, fl = f
            ch = row[0]
            if 0 <= ch < tx["chanmax"] and tx["desc"][ch][2] and ch in st:
                exp = (0, 1 if st[ch]["active"] else 0)
            else:
                exp = (-19, 0)
            if (rc, fl) != exp:
                _capped_fail(ctx, "l1sched_handle_rx_probe(fn %d) = %d, flags %d; the layout row %d has dl_chan %s: expected %d, flags %d"
                                % (fn, rc, fl, fn % per, names.get(ch, ch), exp[0], exp[1]),
                                dict(cs, layout=li, fn=fn, row=fn % per, layout_row=list(row)), "c11-rx-probe-row")
                return n
            ctx.nontrivial(("probe", li, fn % per, rc, fl))
    return n


def rx_cases(tx, rng, thorough):
    """burst sequences for every combination x timeslot"""
    cases = []
    known = sorted(set(tx["pchan"].values()))
    full_done = set()

    def add(kind, cfg, tn, fns, act=ALLMASK, pokes=()):
        cases.append(dict(kind=kind, cfg=cfg, tn=tn, act=act, pokes=list(pokes), fns=[f % U32 for f in fns]))
    for cfg in known:
        for tn in range(8):
            li = real_lookup(tx, cfg, tn)
            if li < 0:
                add("no-layout", cfg, tn, [0, 1, 2])
                continue
            L = tx["layouts"][li]
            per, fr = L["period"], L["frames"]
            if per <= 0 or per > len(fr):
                add("period-0", cfg, tn, [0, 1])
                continue
            first = cfg not in full_done
            full = thorough or first
            full_done.add(cfg)
            bases = [7 * per, HYPER - 2 * per]
            # every frame, in order, over two periods and a bit (all channels interleaved; each channel sees the others' frames as gaps)
            for b in [0] + bases:
                add("contiguous", cfg, tn, [(b + k) % HYPER for k in range(2 * per + 5)])
            add("contiguous-auto-only", cfg, tn, [(bases[0] + k) % HYPER for k in range(per + 3)], act=0)
            add("contiguous-some-active", cfg, tn, [(bases[1] + k) % HYPER for k in range(2 * per + 3)], act=rng.u64() & ALLMASK)
            # random losses over three periods
            for _ in range(6 if full else 2):
                b = rng.choice(bases)
                den = rng.choice([2, 3, 5, 10])
                add("random-loss", cfg, tn, [(b + k) % HYPER for k in range(3 * per) if not rng.chance(1, den)])
            # per channel: every k-th own frame (k - 1 own frames lost each time), through the period boundary / the hyperframe wrap
            chans = sorted(set(r[0] for r in fr[:per]))
            for ch in chans:
                if not (0 <= ch < tx["chanmax"]) or not tx["desc"][ch][2]:
                    continue
                O = [i for i in range(per) if fr[i][0] == ch]
                n = len(O)
                ks = list(range(1, n + 2))
                if not full:
                    ks = sorted(set(k for k in (1, 2, 3, n - 1, n, n + 1) if k >= 1))
                elif n > 40 and not (thorough and first):
                    ks = sorted(set(list(range(1, 7)) + [n - 2, n - 1, n, n + 1] + [rng.range(7, n - 3) for _ in range(6)]))
                for k in ks:
                    g = math.gcd(k, n)
                    for start in range(g if full else 1):
                        for b in (bases if thorough else [bases[(k + start) % 2]]):
                            fns = []
                            j = start
                            for _ in range(n // g + 1):
                                fns.append((b + O[j % n] + per * (j // n)) % HYPER)
                                j += k
                            add("every-%d-of-%d" % (k, n), cfg, tn, fns)
            # pairs at the edges of the loss window, per row with a handler
            rows = [a for a in range(per) if 0 <= fr[a][0] < tx["chanmax"] and tx["desc"][fr[a][0]][2]]
            if not full:
                rows = rows[:4] + rows[-4:]
            for a in rows:
                b = bases[a % 2]
                add("gap-period", cfg, tn, [b + a, (b + a + per) % HYPER])
                add("same-frame", cfg, tn, [b + a, b + a])
                add("gap-2-periods", cfg, tn, [b + a, (b + a + 2 * per) % HYPER])
                add("half-hyperframe", cfg, tn, [b + a, (b + a + HYPER // 2) % HYPER, (b + a + 1) % HYPER])
                add("half-hyperframe-1p", cfg, tn, [b + a, (b + a + HYPER // 2 - per) % HYPER])
                if fr[(a + 1) % per][0] == fr[a][0]:
                    add("gap-period+1", cfg, tn, [b + a, (b + a + per + 1) % HYPER])
                    add("out-of-order", cfg, tn, [b + a, (b + a + 1) % HYPER, b + a, (b + a + 2) % HYPER])
                add("back-a-period", cfg, tn, [(b + a + per) % HYPER, b + a, (b + a + per + 1) % HYPER])
            # C integers: poked statistics (num_proc about to wrap, last_proc outside the hyperframe), frame numbers up to 2^32 - 1
            for _ in range(24 if full else 6):
                ch = rng.choice(rows and [fr[a][0] for a in rows] or [0])
                last = rng.choice([rng.below(HYPER), HYPER - 1, HYPER, HYPER + rng.below(300), U32 - 1 - rng.below(3), rng.below(U32)])
                np = rng.choice([0, 1, 2, U64 - 1, U64 - 2, U64 - 1 - rng.below(200), rng.below(U64)])
                fns = []
                f = last
                for _ in range(rng.range(1, 6)):
                    f = rng.choice([f + rng.range(0, per + 2), f - rng.range(1, per), rng.below(U32), f + HYPER // 2 - rng.range(0, 2), (f + rng.range(1, per)) % HYPER]) % U32
                    fns.append(f)
                add("poked", cfg, tn, fns, act=ALLMASK if rng.chance(3, 4) else rng.u64() & ALLMASK,
                    pokes=[(ch, np >> 32, np & (U32 - 1), rng.below(1000), last)])
    for cfg in (7, 50, 127, 99999):
        add("no-layout", cfg, rng.below(8), [0, 1, HYPER - 1])
    add("no-burst", known[1], 0, [])
    add("poked", known[1], 0, [7], pokes=[(5, 0, 1, 0, 3)])
    add("poked", known[1], 0, [7], pokes=[(39, 0, 1, 0, 3), (5, 0, 0, 0, 3)])
    for raw in ("", "1", "1 0 0", "1 8 0 0 1 5", "1 -1 0 0 1 5", "1 0 0 0 2 5", "1 0 0 0 1 5 6", "1 0 0 1 5 0 1 0 3 1", "1 0 0 1 40 0 1 0 3 1 7",
                "1 0 0 0 1 4294967296", "1 0 0 0 1 -1", "1 0 -1 0 1 1", "100001 0 0 0 1 1", "1 0 0 65 0", "1 0 0 1 5 4294967296 0 0 0 1 1", "1 0 0 0"):
        cases.append(dict(kind="malformed", raw=raw))
    return [c for c in cases if "raw" not in c or c["raw"].strip()]


def txp_cases(tx, rng, thorough):
    cases = []
    known = sorted(set(tx["pchan"].values()))
    cyc_done = set()
    edge = [HYPER - 1, HYPER, U32 - 1, U32 - 2, CYCLE - 1, CYCLE]
    for cfg in known:
        for tn in range(8):
            li = real_lookup(tx, cfg, tn)
            per = tx["layouts"][li]["period"] if li >= 0 else 0
            if per <= 0:
                cases.append(dict(kind="no-frames", cfg=cfg, tn=tn, act=ALLMASK, pokes=[], fns=[0, 1]))
                continue
            for act, kind in ((ALLMASK, "period-all-active"), (0, "period-auto-only"), (rng.u64() & ALLMASK, "period-some-active")):
                cases.append(dict(kind=kind, cfg=cfg, tn=tn, act=act, pokes=[], fns=list(range(2 * per + 2)) + edge + [rng.below(U32) for _ in range(8)]))
            if cfg not in cyc_done or thorough:       # every frame of the 51 x 26 x 8 cycle (and of the last one of the hyperframe)
                cyc_done.add(cfg)
                for b in (0, HYPER - CYCLE):
                    for k in range(0, CYCLE, 1326):
                        cases.append(dict(kind="full-cycle", cfg=cfg, tn=tn, act=ALLMASK, pokes=[], fns=list(range(b + k, b + k + 1326))))
    for cfg in (7, 127):
        cases.append(dict(kind="no-layout", cfg=cfg, tn=rng.below(8), act=ALLMASK, pokes=[], fns=[0, 50, HYPER]))
    cases.append(dict(kind="malformed", raw="1 0 0 0 3 1 2"))
    cases.append(dict(kind="malformed", raw="1 9 0 0 1 1"))
    return cases


def run_consumers(ctx, bins, tx, thorough):
    rng = ctx.rng.fork("consumers")
    names = {v: k for k, v in tx["enum"].items()}
    sets = [("rx", rx_cases(tx, rng, thorough))] + [(m, txp_cases(tx, rng.fork(m), thorough)) for m in ("tx", "probe")]
    for mode, cases in sets:
        what = {"rx": "l1sched_handle_rx_burst", "tx": "l1sched_pull_burst", "probe": "l1sched_handle_rx_probe"}[mode]
        lines = [case_line(c) for c in cases]
        res, stops = real_seq(bins["c11_trxcon_cfg"], mode, lines)
        for (k, rc, err) in stops:
            c = minimise_stop(bins["c11_trxcon_cfg"], mode, tx, cases[k])
            m = re.search(r"ERROR: AddressSanitizer: ([\w-]+)[^\n]*", err) or re.search(r"runtime error: [^\n]*", err)
            where = re.findall(r"#\d+ 0x[0-9a-f]+ in (\w+) [^\n]*?([\w.]+\.c:\d+)", err)
            loc = next(("%s (%s)" % w for w in where if "sched_" in w[1]), where[0][0] if where else "?")
            oob = bool(m) and "overflow" in m.group(0)
            info = dict(show_case(c), harness_rc=rc, report=(m.group(0) if m else err[-400:]), where=loc)
            # what the code goes on to do behind the stop: the same case on the twin built without sanitizers
            if bins.get("c11_trxcon_cfg_nosan") and "raw" not in c:
                r2, s2 = real_seq(bins["c11_trxcon_cfg_nosan"], mode, [case_line(c)])
                o2 = parse_obs(mode, r2[0], len(c["fns"])) if r2[0] else None
                if o2 is not None and o2["special"] is None:
                    info["continues_with"] = [list(f[:2]) + [[list(x) for x in f[2]]] if mode == "rx" else list(f) for f in o2["frames"]][:8]
                    nf = len(ctx.oracle_failures)
                    (oracle_rx(ctx, tx, c, o2, names) if mode == "rx" else oracle_tx_probe(ctx, tx, c, o2, mode, names))
                    for f in ctx.oracle_failures[nf:]:
                        f["case"]["note"] = "observed on the harness built without sanitizers; with them the same input stops earlier at " + loc
            ctx.oracle_fail("%s: %s in %s - a frame lookup reads outside the table" % (what, m.group(1) if (m and oob) else "the harness stops", loc)
                            if oob else "%s: the harness stops (%s)" % (what, m.group(0)[:120] if m else "rc %s" % rc),
                            info, key="c11-%s-lookup-leaves-table" % mode if oob else "c11-%s-harness-stop" % mode)
        if len(stops) >= MAX_STOPS:
            rest = list(range(stops[-1][0] + 1, len(lines)))
            if bins.get("c11_trxcon_cfg_nosan") and rest:
                r2, s2 = real_seq(bins["c11_trxcon_cfg_nosan"], mode, [lines[k] for k in rest])
                for k, r in zip(rest, r2):
                    res[k] = r
                ctx.note("%s: %d sanitizer stops; the remaining %d cases were run on the harness built without sanitizers" % (what, len(stops), len(rest)))
            else:
                ctx.note("%s: %d sanitizer stops, the rest of the batch was not run" % (what, len(stops)))
        idx = [k for k in range(len(cases)) if res[k] is not None]
        ctx.correspond(what, "Mframe", idx, lambda k: "w_c11_%s %s" % (mode, lines[k]), lambda k: res[k], show=lambda k: show_case(cases[k]))
        nj = 0
        for k in idx:
            c = cases[k]
            if "raw" in c:
                if res[k] != [-999]:
                    ctx.oracle_fail("harness accepts a malformed case line", show_case(c), key="c11-harness-malformed")
                ctx.nontrivial((mode, "malformed"))
                continue
            o = parse_obs(mode, res[k], len(c["fns"]))
            if o is None or o["special"] in (-999, -998, -3):
                ctx.oracle_fail("%s harness output not understood" % what, dict(show_case(c), output=res[k][:40]), key="c11-%s-harness-output" % mode)
                continue
            if o["special"] == -2:
                ctx.nontrivial((mode, "period-0"))
                continue
            nj += oracle_rx(ctx, tx, c, o, names) if mode == "rx" else oracle_tx_probe(ctx, tx, c, o, mode, names)
            ctx.nontrivial((mode, "kind", "every-k" if c["kind"].startswith("every-") else c["kind"]))
        ctx.evaluations += nj
        ctx.count("oracle:%s frames judged" % what, nj)
        ctx.count("cases:%s frames fed" % what, sum(len(c.get("fns", ())) for c in cases))
        for k in idx[:1] + idx[len(idx) // 2:len(idx) // 2 + 1]:
            if "raw" not in cases[k]:
                ctx.sample(dict(op=what, case=dict(show_case(cases[k]), fns=cases[k]["fns"][:6]), observed=res[k][:24]), limit=10)


# ------------------------------------------------------------------ firmware scheduler state: histories of requests and ticks

OP_EN, OP_DIS, OP_SET, OP_RESET, OP_TICK, OP_SILENT, OP_POKE_T, OP_POKE_S = 1, 2, 3, 4, 5, 6, 7, 8
OP_NAMES = {1: "mframe_enable", 2: "mframe_disable", 3: "mframe_set", 4: "mframe_reset", 5: "tick", 6: "silent-ticks", 7: "poke-tasks-tgt", 8: "poke-safe_fn"}


def hist_line(c):
    if "raw" in c:
        return c["raw"]
    return " ".join(str(x) for x in [len(c["ops"])] + [v for o in c["ops"] for v in o])


def show_hist(c, upto=None):
    if "raw" in c:
        return dict(kind=c["kind"], line=c["raw"])
    ops = c["ops"] if upto is None else c["ops"][:upto + 1]
    txt = []
    for (k, a, b) in ops[-40:]:
        txt.append("%s(%s)" % (OP_NAMES[k], a if k not in (OP_SILENT, OP_POKE_T) else "%d,%d" % (a, b)) if k != OP_RESET else "mframe_reset()")
    return dict(kind=c["kind"], n_ops=len(ops), last_ops=txt, line=hist_line(dict(ops=ops)))


def parse_hist(c, r):
    """observations aligned with the ops: tick -> (tasks, tgt, safe, calls), silent -> (tasks, tgt, safe, total), else None"""
    out = []
    i = 0
    try:
        for (k, a, b) in c["ops"]:
            if k == OP_TICK:
                t, g, s, n = r[i:i + 4]
                i += 4
                calls = [tuple(r[i + 3 * j:i + 3 * j + 3]) for j in range(n)]
                if len(calls) != n or (calls and len(calls[-1]) != 3):
                    return None
                i += 3 * n
                out.append((t, g, s, calls))
            elif k == OP_SILENT:
                t, g, s, n = r[i:i + 4]
                i += 4
                out.append((t, g, s, n))
            else:
                out.append(None)
    except ValueError:
        return None
    return out if i == len(r) else None


class FwSpec:
    """what the property expects of a task at a current frame, from the trxcon layouts (as oracle_rows does) - not from the firmware tables"""

    def __init__(self, fw, tx):
        self.by_task = {}
        E, T, P = tx["enum"], fw["tasks"], tx["pchan"]
        for (task, cfg, tnrule, mode, lchan, sacch) in spec_rows():
            t = T[task]
            if t in self.by_task:
                continue
            tn = next(x for x in range(8) if tn_ok(tnrule, x))
            li = real_lookup(tx, P[cfg], tn)
            if li < 0:
                continue
            L = tx["layouts"][li]
            if not (0 < L["period"] <= len(L["frames"])):
                continue
            oth = other_subchannel(lchan)
            self.by_task[t] = (mode, L["period"], L["frames"], E[lchan], E[sacch] if sacch else None, E[oth] if oth else None, task)
        self.cache = {}

    def expected(self, t, cur):
        key = (t, cur % CYCLE)
        if key in self.cache:
            return self.cache[key]
        mode, per, fr, lch, sac, oth, _ = self.by_task[t]
        row = fr[((cur + 2) % HYPER) % per]
        exp = set()
        if mode == "tch":
            if row[0] == lch:
                exp.add((3, False))
            if sac is not None and row[0] == sac:
                exp.add((4, True))
            if oth is not None and row[0] == oth:
                exp.add((5, False))
        else:
            if row[0] == lch and row[1] == 0:
                exp.add((0, False))
            if sac is not None and row[0] == sac and row[1] == 0:
                exp.add((0, True))
            if mode == "block":
                if row[2] == lch and row[3] == 0:
                    exp.add((1, False))
                if sac is not None and row[2] == sac and row[3] == 0:
                    exp.add((1, True))
        self.cache[key] = exp
        return exp


def oracle_hist(ctx, fw, spec, c, obs, tname):
    """the property on one history of the real scheduler: requests are only changed by requests, a disabled task starts nothing from the
    next tick on, a requested task is active at the latest at the 4th tick after the last started set (at once after a reset) and stays
    active, and an active task starts its blocks exactly in the frames the trxcon layout gives its channel. Returns ticks judged."""
    SACCH = fw["const"]["MF_F_SACCH"]
    quiet_need = max(fw["frames"].values()) - 2 - 1      # quiet ticks after a start before the next one must be safe (6 - 2 - 1 = 3)
    E = 0                # requested tasks by the property's own bookkeeping
    prev_tasks = 0
    last = None          # frame of the previous tick
    since = None         # consecutive quiet ticks since the last tick that started a set; None = nothing started since the reset
    known = True         # False behind a state poke: only the correspondence speaks
    live = True          # False behind a jump of the frame number: no liveness promise until the next reset
    n = 0

    def fail(what, key, i, **kw):
        _capped_fail(ctx, what, dict(show_hist(c, i), **kw), key)
    for i, ((k, a, b), o) in enumerate(zip(c["ops"], obs)):
        if k == OP_EN:
            E |= 1 << a
        elif k == OP_DIS:
            E &= ~(1 << a)
        elif k == OP_SET:
            E = a
        elif k == OP_RESET:
            E, prev_tasks, last, since, known, live = 0, 0, None, None, True, True
        elif k in (OP_POKE_T, OP_POKE_S):
            known = False
        elif k == OP_SILENT:
            tasks, tgt, safe, total = o
            if known and tgt != E:
                fail("tasks_tgt is %#x after %d ticks, the requests made are %#x: mframe_schedule() changed the target bitmap" % (tgt, b, E),
                     "c11-fw-target-changed-by-tick", i, tasks=tasks, tasks_tgt=tgt, safe_fn=safe, requested=E)
                return n
            prev_tasks = tasks
            if b > 0:
                if last is not None and a != (last + 1) % HYPER:
                    live = False
                last = (a + b - 1) % HYPER
            since = 0 if (total > 0 or since is not None) else None
        elif k == OP_TICK:
            tasks, tgt, safe, calls = o
            cur = a
            n += 1
            if not known:
                continue
            at = dict(tick_fn=cur, tasks=tasks, tasks_tgt=tgt, safe_fn=safe, requested=E, calls=[list(x) for x in calls])
            if tgt != E:
                lost = E & ~tgt
                fail("tasks_tgt is %#x after the tick of frame %d, the requests made are %#x%s: mframe_schedule() changed the target bitmap"
                     % (tgt, cur, E, " (request for %s erased)" % ", ".join(tname.get(t, str(t)) for t in range(32) if (lost >> t) & 1) if lost else ""),
                     "c11-fw-target-changed-by-tick", i, **at)
                return n
            if last is not None and not (cur == (last + 1) % HYPER and cur < HYPER):
                live = False     # a jump of the frame number without mframe_reset(): no promise until the next reset (the firmware resets on resync)
            started = {}
            for (off, kind, p3) in calls:
                t = p3 & 0xff
                started.setdefault(t, set()).add((kind, bool((p3 >> 8) & SACCH)))
                if off != 1:
                    fail("tdma_schedule_set called with frame_offset %d" % off, "c11-call-args:task%d" % t, i, **at)
                    return n
            for t in started:
                if not (E >> t) & 1:
                    fail("%s is not requested (disabled) but the tick of frame %d starts a set for it" % (tname.get(t, t), cur),
                         "c11-fw-disabled-task-started", i, task=tname.get(t, t), **at)
                    return n
            if tasks & ~E:
                fail("tasks %#x contains tasks that are not requested (%#x)" % (tasks, E), "c11-fw-disabled-task-started", i, **at)
                return n
            dropped = prev_tasks & E & ~tasks
            if dropped:
                fail("an active and still requested task is dropped at the tick of frame %d" % cur, "c11-fw-active-task-dropped", i, **at)
                return n
            must = live and (since is None or since >= quiet_need)
            if must and (E & ~tasks):
                t = next(x for x in range(32) if ((E & ~tasks) >> x) & 1)
                key = {"wrap-witness": "c11-fw-enable-deferred-after-hyperframe-wrap",
                       "idle-witness": "c11-fw-enable-deferred-after-long-idle"}.get(c["kind"], "c11-fw-enable-deferred")
                fail("%s is requested and %s, but it is still not active at the tick of frame %d (safe_fn %d): it starts no block although the "
                     "layout gives its channel frames" % (tname.get(t, t), "nothing was started since the reset" if since is None else
                                                          "no set was started in the last %d frames" % since, cur, safe), key, i, task=tname.get(t, t), **at)
                return n
            for t in range(32):
                if (tasks >> t) & 1 and t in spec.by_task:
                    exp = spec.expected(t, cur)
                    got = started.get(t, set())
                    if exp != got:
                        fail("%s is active; at the tick of frame %d (on air in frame %d) it starts %s, the trxcon layout says %s"
                             % (tname.get(t, t), cur, (cur + 2) % HYPER, sorted((K_NAMES.get(x[0], x[0]), x[1]) for x in got) or "nothing",
                                sorted((K_NAMES.get(x[0], x[0]), x[1]) for x in exp) or "nothing"),
                             "c11-fw-sched-block-start:%s" % tname.get(t, t), i, task=tname.get(t, t), **at)
                        return n
            ctx.nontrivial(("hist", tasks != tgt, bool(calls), since is None, min(since or 0, 4), bool(prev_tasks ^ tasks)))
            since = 0 if calls else (since + 1 if since is not None else None)
            prev_tasks = tasks
            last = cur
    return n


def hist_cases(fw, rng, thorough):
    T = fw["tasks"]
    valid = [t for t in range(31) if fw["sets"].get(t) is not None]
    vmask = sum(1 << t for t in valid)
    cases = []

    def ticks(start, n):
        return [(OP_TICK, (start + k) % HYPER, 0) for k in range(n)]
    bases = [0, 51 * 26 * 40, HYPER - 51]
    BCCH, CCCH = T["MF_TASK_BCCH_NORM"], T["MF_TASK_CCCH"]
    # a request arriving at every phase of the 51-multiframe while another task is running (and so lands on safe and on unsafe ticks)
    for B in valid:
        A = CCCH if B == BCCH else BCCH
        for p in range(51):
            base = bases[(B + p) % 3]
            ops = [(OP_EN, A, 0)] + ticks(base, p) + [(OP_EN, B, 0)] + ticks(base + p, 115)
            cases.append(dict(kind="enable-at-phase", ops=ops))
        for p in range(0, 51, 3 if not thorough else 1):
            base = bases[(B + p + 1) % 3]
            ops = [(OP_EN, A, 0), (OP_EN, B, 0)] + ticks(base, 10 + p) + [(OP_DIS, B, 0)] + ticks(base + 10 + p, 60) + [(OP_EN, B, 0)] + ticks(base + 70 + p, 20)
            cases.append(dict(kind="disable-at-phase", ops=ops))
    # several tasks of one combination switched on together / one after the other, mframe_set replacing the set
    groups = [[n for n in T if n.startswith(pfx)] for pfx in ("MF_TASK_SDCCH4", "MF_TASK_SDCCH8", "MF_TASK_TCH_H", "MF_TASK_NEIGH")]
    for g in groups:
        ids = [T[n] for n in g if T[n] in valid]
        for base in bases:
            ops = [(OP_SET, sum(1 << t for t in ids) & vmask, 0)] + ticks(base, 120)
            for t in ids:
                ops += [(OP_DIS, t, 0)] + ticks(base + 120 + 7 * len(ops), 9)
            cases.append(dict(kind="group", ops=ops[:900]))
    # random histories (consecutive frames, occasional jumps, resets)
    for _ in range(250 if not thorough else 2500):
        cur = rng.choice([rng.below(HYPER), HYPER - rng.range(1, 120), rng.range(0, 200)])
        ops = []
        for _ in range(rng.range(40, 220)):
            x = rng.below(100)
            if x < 72:
                ops.append((OP_TICK, cur, 0))
                cur = (cur + 1) % HYPER
            elif x < 84:
                ops.append((OP_EN, rng.choice(valid), 0))
            elif x < 92:
                ops.append((OP_DIS, rng.choice(valid) if rng.chance(3, 4) else rng.below(31), 0))
            elif x < 95:
                m = 0
                for _ in range(rng.range(0, 3)):
                    m |= 1 << rng.choice(valid)
                ops.append((OP_SET, m, 0))
            elif x < 97:
                ops.append((OP_RESET, 0, 0))
            elif x < 99:
                cur = rng.below(HYPER)
            else:
                ops.append((OP_SILENT, cur, rng.range(0, 400)))
                cur = (cur + ops[-1][2]) % HYPER
        cases.append(dict(kind="random", ops=ops))
    # C integers: arbitrary states and frame numbers (safe_fn around the current frame, at the sentinel, beyond the hyperframe)
    for _ in range(300 if not thorough else 3000):
        cur = rng.choice([rng.below(HYPER), HYPER - 1, 0, HYPER, U32 - 1, rng.below(U32), HYPER // 2 + rng.range(-3, 3)])
        safe = rng.choice([(cur + rng.range(-6, 6)) % U32, (cur + HYPER // 2 + rng.range(-2, 2)) % U32, HYPER - 1, HYPER, U32 - 1, rng.below(U32), rng.below(HYPER)])
        ops = [(OP_POKE_T, rng.u64() & vmask & (rng.u64() | rng.u64()), rng.u64() & vmask & (rng.u64() | rng.u64())), (OP_POKE_S, safe, 0)]
        for k in range(rng.range(1, 4)):
            ops.append((OP_TICK, (cur + k) % U32, 0))
        cases.append(dict(kind="poked", ops=ops))
    # regression witnesses of the two repaired stale-safe_fn defects (pinned d574cef / ec960db)
    cases.append(dict(kind="wrap-witness", long=True,
                      ops=[(OP_EN, BCCH, 0), (OP_SILENT, HYPER - 60, 60 + HYPER // 2 + 100), (OP_EN, CCCH, 0)] + ticks((HYPER // 2 + 100) % HYPER, 130)))
    cases.append(dict(kind="idle-witness", long=True,
                      ops=[(OP_EN, BCCH, 0), (OP_TICK, HYPER // 2 + 1020, 0), (OP_DIS, BCCH, 0), (OP_SILENT, HYPER // 2 + 1021, HYPER // 2 + 1000),
                           (OP_EN, CCCH, 0)] + ticks((HYPER // 2 + 1021 + HYPER // 2 + 1000) % HYPER, 130)))
    for raw in ("1 1 0", "1 1 31 0", "1 1 1 1", "1 9 0 0", "2 5 0 0", "1 3 %d 0" % (1 << 31), "1 6 %d 5" % HYPER, "1 5 4294967296 0", "-1", "1 2 31 0"):
        cases.append(dict(kind="malformed", raw=raw))
    return cases


def run_histories(ctx, bins, fw, tx, thorough):
    rng = ctx.rng.fork("histories")
    tname = {v: k for k, v in fw["tasks"].items()}
    spec = FwSpec(fw, tx)
    cases = hist_cases(fw, rng, thorough)
    lines = [hist_line(c) for c in cases]
    res, stops = real_seq(bins["c11_fw_run"], "hist", lines)
    for (k, rc, err) in stops:
        ctx.oracle_fail("mframe scheduler harness stops (rc %s)" % rc, dict(show_hist(cases[k]), stderr=err[-600:]), key="c11-fw-harness-stop")
    # the two 1.36-million-tick witnesses go through the extracted model in the thorough tier only (the oracle judges them always)
    idx = [k for k in range(len(cases)) if res[k] is not None and (thorough or not cases[k].get("long"))]
    ctx.correspond("mframe_schedule histories", "Mframe", idx, lambda k: "w_c11_fw_hist " + lines[k], lambda k: res[k], show=lambda k: show_hist(cases[k]))
    nj = 0
    for k, c in enumerate(cases):
        if res[k] is None:
            continue
        if "raw" in c:
            if res[k] != [-999]:
                ctx.oracle_fail("scheduler harness accepts a malformed history", show_hist(c), key="c11-harness-malformed")
            continue
        obs = parse_hist(c, res[k])
        if obs is None:
            ctx.oracle_fail("scheduler harness output not understood", dict(show_hist(c), output=res[k][:30]), key="c11-fw-harness-output")
            continue
        nj += oracle_hist(ctx, fw, spec, c, obs, tname)
        ctx.nontrivial(("hist-kind", c["kind"]))
    ctx.evaluations += nj
    ctx.count("oracle:scheduler ticks judged", nj)
    ctx.count("cases:scheduler ops", sum(len(c.get("ops", ())) for c in cases))
    k = next(i for i, c in enumerate(cases) if c["kind"] == "enable-at-phase" and len(c["ops"]) > 120)
    ctx.sample(dict(op="mframe scheduler history", case=show_hist(cases[k], 8), observed=res[k][:28] if res[k] else None), limit=12)


# ------------------------------------------------------------------ run

def fn_points(rng, n):
    pts = set()
    for base in (0, 13, 26, 51, 102, 104, 1326, CYCLE, HYPER, 1 << 32):
        for k in range(-4, 5):
            for mult in (1, 2, 3, 255, 256):
                v = base * mult + k
                if 0 <= v < (1 << 32):
                    pts.add(v)
    out = sorted(pts)
    for _ in range(n):
        out.append(rng.below(HYPER) if rng.chance(3, 4) else rng.below(1 << 32))
    return out


def run(ctx):
    bins, fw, tx = gen(ctx)
    proved = ctx.prove()
    if ctx.tier == "thorough":
        ctx.coqchk()
    rng = ctx.rng
    thorough = ctx.tier == "thorough"
    E = tx["enum"]
    tasks = [t for t in range(fw["const"]["NTASKS"]) if fw["sets"][t] is not None]
    tname = {v: k for k, v in fw["tasks"].items()}

    # ---- (1) firmware: the real mframe_schedule() for every task x every current frame of the 51*26*8 cycle (+ boundaries, task sets)
    curs = list(range(CYCLE))
    if thorough:  # also the last cycle of the hyperframe, i.e. the wrap 2715647 -> 0 on the implementation
        curs += list(range(HYPER - CYCLE, HYPER))
    pairs = [(1 << t, cur) for t in tasks for cur in curs]
    nfull = len(pairs)
    extra = fn_points(rng, 300 if not thorough else 5000)
    for cur in extra:
        pairs.append((1 << rng.choice(tasks), cur))
    valid_mask = sum(1 << t for t in tasks)
    for _ in range(2000 if not thorough else 60000):
        if rng.chance(1, 2):
            m = rng.u64() & valid_mask
        else:
            m = 0
            for _ in range(rng.range(0, 4)):
                m |= 1 << rng.choice(tasks)
        pairs.append((m, rng.choice(extra) if rng.chance(1, 3) else rng.below(HYPER)))
    pairs.append((0, 0))
    pairs.append((valid_mask, 2715646))
    rc, err, calls = real_fw_calls(bins, pairs)
    if calls is None:
        ctx.oracle_fail("c11_fw_run crashed (sanitizer?) rc=%s" % rc, err[-2000:], key="c11-fw-harness-crash")
    else:
        idx = list(range(len(pairs)))
        ctx.correspond("mframe_schedule", "Mframe", idx, lambda k: "w_c11_fw_sched %d %d" % pairs[k],
                       lambda k: [len(calls[k])] + [x for c in calls[k] for x in c], show=lambda k: dict(tasks_mask=pairs[k][0], fn=pairs[k][1]))
        fired = {}
        for k in range(nfull):
            m, cur = pairs[k]
            t = m.bit_length() - 1
            for (off, kind, p3) in calls[k]:
                key = (t, kind, bool((p3 >> 8) & fw["const"]["MF_F_SACCH"]))
                fired.setdefault(key, set()).add(cur)
                if (off != 1 or (p3 & 0xff) != t) and ("args", t) not in fired:
                    fired[("args", t)] = True
                    ctx.oracle_fail("tdma_schedule_set called with frame_offset %d, p3 %d for task %d" % (off, p3, t), dict(task=t, cur=cur, call=[off, kind, p3]), key="c11-call-args:task%d" % t)
            ctx.nontrivial(("fw", t, tuple((c[1], c[2] >> 8) for c in calls[k])))
        for k in range(nfull, len(pairs)):
            ctx.nontrivial(("fwset", bin(pairs[k][0]).count("1") > 1, min(len(calls[k]), 3), pairs[k][1] >= HYPER - 2, pairs[k][1] >= (1 << 32) - 2))
        for k in (0, nfull // 3, nfull - 1, nfull + 5, len(pairs) - 1):
            ctx.sample(dict(op="mframe_schedule", tasks_mask=pairs[k][0], fn=pairs[k][1], calls=calls[k][:6]))
        # ---- (4) the property on the implementation's observations
        n = oracle_rows(ctx, fw, tx, fired, curs)
        ctx.evaluations += n
        ctx.count("oracle:row-frame comparisons", n)
        ctx.exhaustive = True
    n = oracle_tables(ctx, fw, tx)
    ctx.evaluations += n
    ctx.count("oracle:table entries", n)

    # ---- (2) trxcon frame lookup: layouts[i].frames[fn % period]
    nl = len(tx["layouts"])
    fp = []
    for li in range(nl):
        per = max(tx["layouts"][li]["period"], 1)
        for fn in range(0, 2 * per + 3):
            fp.append((li, fn))
        for fn in extra[:: (1 if thorough else 4)]:
            fp.append((li, fn))
    for li in (nl, nl + 1, 255):
        fp.append((li, rng.below(HYPER)))
    rc, err, fres = real_trx(bins, "frames", fp)
    if fres is None:
        ctx.oracle_fail("c11_trxcon_dump frames crashed (sanitizer?) rc=%s" % rc, err[-2000:], key="c11-trxcon-harness-crash")
    else:
        idx = list(range(len(fp)))
        ctx.correspond("frame-lookup", "Mframe", idx, lambda k: "w_c11_trx_frame %d %d" % fp[k], lambda k: fres[k],
                       show=lambda k: dict(layout=fp[k][0], fn=fp[k][1]))
        for k in idx:
            li, fn = fp[k]
            r = fres[k]
            ctx.nontrivial(("frame", li, tuple(r)))
            if li < nl and tx["layouts"][li]["cfg"] != tx["pchan"]["GSM_PCHAN_NONE"]:
                L = tx["layouts"][li]
                if len(r) != 4 or (L["period"] > 0 and L["period"] <= len(L["frames"]) and tuple(r) != L["frames"][fn % L["period"]]):
                    ctx.oracle_fail("frames[fn % period] differs from the dumped row", dict(layout=li, fn=fn, got=r), key="c11-frame-lookup:layout%d" % li)
        ctx.sample(dict(op="frames[fn % period]", layout=fp[7][0], fn=fp[7][1], row=fres[7]))

    # ---- (3) l1sched_mframe_layout(config, tn)
    lp = [(c, tn) for c in range(128) for tn in range(8)]
    lp += [(c, tn) for c in (128, 200, 255, 1000) for tn in range(8)] + [(c, tn) for c in tx["pchan"].values() for tn in range(8, 16)]
    rc, err, lres = real_trx(bins, "lookup", lp)
    if lres is None:
        ctx.oracle_fail("c11_trxcon_dump lookup crashed rc=%s" % rc, err[-2000:], key="c11-trxcon-harness-crash")
    else:
        idx = list(range(len(lp)))
        ctx.correspond("layout-lookup", "Mframe", idx, lambda k: "w_c11_trx_layout %d %d" % lp[k], lambda k: lres[k],
                       show=lambda k: dict(config=lp[k][0], tn=lp[k][1]))
        for k in idx:
            ctx.nontrivial(("lookup", lres[k][0], lp[k][1] >= 8))
        ctx.sample(dict(op="l1sched_mframe_layout", config=lp[3 * 8 + 5][0], tn=lp[3 * 8 + 5][1], layout=lres[3 * 8 + 5]))

    # ---- (4) l1sched_configure_ts(): which channels get a channel state (the real sched_trx.c on the real tables)
    cp = [(c, tn) for c in range(128) for tn in range(8)]
    # (the same timeslot is re-configured with one combination after the other: reconfiguration resets the old states)
    inp = "".join("%d %d\n" % q for q in cp)
    env = dict(os.environ, ASAN_OPTIONS="detect_leaks=0")
    pr = subprocess.run([bins["c11_trxcon_cfg"]], input=inp, stdout=subprocess.PIPE, stderr=subprocess.PIPE, text=True, timeout=900, env=env)
    clines = pr.stdout.split("\n")
    if pr.returncode != 0 or len(clines) < len(cp):
        ctx.oracle_fail("l1sched_configure_ts harness stopped (sanitizer report?) rc=%s" % pr.returncode, dict(stderr=pr.stderr[-2000:], answered=len(clines) - 1),
                        key="c11-configure-ts-crash")
    else:
        cres = [[int(x) for x in l.split()] for l in clines[:len(cp)]]
        idx = list(range(len(cp)))
        ctx.correspond("configure-ts", "Mframe", idx, lambda k: "w_c11_cfg_ts %d %d" % cp[k], lambda k: cres[k], show=lambda k: dict(config=cp[k][0], tn=cp[k][1]))
        for k, (cfg, tn) in enumerate(cp):
            li = real_lookup(tx, cfg, tn)
            r = cres[k]
            ctx.nontrivial(("configure", r[0], len(r) - 1))
            if li < 0 or not (0 <= li < len(tx["layouts"])) or tx["layouts"][li]["cfg"] != cfg:
                if r[0] == 0:
                    ctx.oracle_fail("l1sched_configure_ts accepts a combination without a layout of its own", dict(config=cfg, tn=tn), key="c11-configure-ts-accepts")
                continue
            L = tx["layouts"][li]
            if r[0] != 0:
                ctx.oracle_fail("l1sched_configure_ts refuses a combination that has a layout (rc=%d)" % r[0], dict(config=cfg, tn=tn, layout=li), key="c11-configure-ts-refuses")
                continue
            have = set(r[1:])
            used = set()
            for fr in L["frames"][:max(L["period"], 0)]:
                used.update(c for c in (fr[0], fr[2]) if c != E["L1SCHED_IDLE"])
            missing = sorted(used - have)
            if missing:
                names = {v: n for n, v in E.items()}
                ctx.oracle_fail("frames of the layout use channels that get no channel state when the timeslot is configured: " + ", ".join(names.get(c, str(c)) for c in missing),
                                dict(config=cfg, tn=tn, layout=li, name=L.get("name")), key="c11-no-channel-state:layout%d" % li, expected=sorted(used), observed=sorted(have))

    # ---- (7) l1sched_chan_nr2pchan_config(): the real resolver against the model (all 256 channel numbers) and, per table row and timeslot,
    #          on the channel number the real mframe_task2chan_nr() reports for the row's task
    rs = tx["resolve"]
    ctx.correspond("chan_nr2pchan_config", "Mframe", list(range(256)) + [256, -1], lambda c: "w_c11_resolve %d" % c,
                   lambda c: [rs[c]] if 0 <= c < 256 else [-999], show=lambda c: dict(chan_nr=c))
    pname = {v: k for k, v in tx["pchan"].items()}
    rows_all = spec_rows()
    for ri, (task, cfg, tnrule, mode, lchan, sacch) in enumerate(rows_all):
        combos = sorted(set(r[1] for r in rows_all if (r[0], r[2], r[3], r[4], r[5]) == (task, tnrule, mode, lchan, sacch)))
        dedicated = lchan not in ("L1SCHED_BCCH", "L1SCHED_CCCH")
        for tn in range(8):
            cn = fw["chnr"][fw["tasks"][task]][tn]
            got = rs[cn & 0xff]
            ctx.evaluations += 1
            ctx.nontrivial(("resolve", task, pname.get(got, got)))
            ok = (pname.get(got) in combos) if dedicated else (got == tx["pchan"]["GSM_PCHAN_NONE"])
            if not ok:
                _capped_fail(ctx, "l1sched_chan_nr2pchan_config(0x%02x) = %s, but 0x%02x is the channel number of %s on timeslot %d, which the table has under %s: "
                             "trxcon configures a layout that does not give this channel its frames"
                             % (cn, pname.get(got, got), cn, task, tn, " / ".join(combos) if dedicated else "no combination (common channel)"),
                             dict(chan_nr=cn, task=task, tn=tn, resolved=pname.get(got, got), row=ri, lchan=lchan, expected=combos if dedicated else ["GSM_PCHAN_NONE"]),
                             "c11-chan-nr-resolves-%s" % task.replace("MF_TASK_", "").lower())
    ctx.count("oracle:chan_nr resolutions", 8 * len(rows_all))

    # ---- (6) the firmware scheduler state: histories of enable / disable / set / reset requests interleaved with ticks
    run_histories(ctx, bins, fw, tx, thorough)

    # ---- (5) the consumers of the lookup in sched_trx.c: handle_rx_burst + subst_frame_loss, pull_burst, rx_probe on recorded handler calls
    run_consumers(ctx, bins, tx, thorough)

    # ---- the oracle's copy of the specification table is the model's table
    rows = spec_rows()
    try:
        mrows = ctx.model("Mframe", ["w_c11_row %d" % i for i in range(len(rows) + 1)])
        exp = [[fw["tasks"][r[0]], tx["pchan"][r[1]], {"all": 0, "even": 1, "odd": 2}[r[2]], {"block": 0, "block-dl": 1, "tch": 2}[r[3]],
                E[r[4]], E[r[5]] if r[5] else -1] for r in rows] + [[]]
        if mrows != exp:
            k = next(i for i in range(len(exp)) if mrows[i] != exp[i])
            ctx.corr_failures.append(dict(name="spec-table", case=dict(row=k), model=mrows[k], impl=exp[k]))
        ctx.count("corr:spec-table rows", len(rows))
    except common.ModelUnavailable:
        pass

    # ---- model-side failing-input search when an obligation no longer checks
    if not proved:
        try:
            r = ctx.model("Mframe", ["w_c11_find_bad 0"])[0]
            if r:
                rows = spec_rows()
                ctx.note("model-side search: first (row, tn, cur) breaking the agreement: row %d %s, tn %d, cur %d" % (
                    r[0], rows[r[0]][:2] if r[0] < len(rows) else "?", r[1], r[2]))
                ctx.extra["model_find_bad"] = r
            else:
                ctx.note("model-side search: block-start / frame-by-frame agreement holds on the regenerated tables (another obligation broke)")
        except Exception as e:  # noqa
            ctx.note("model-side search unavailable: %r" % (e,))
    ctx.extra["tables"] = dict(fw_rows=sum(len(s) for s in fw["sets"].values() if s), fw_tasks=len(tasks), trxcon_layouts=nl,
                               trxcon_frame_rows=sum(len(l["frames"]) for l in tx["layouts"]), spec_rows=len(spec_rows()))
    ctx.extra["rule"] = ("exhaustive: real mframe_schedule() for each of the %d non-NULL tasks x every current frame 0..10607, compared with the extracted model and "
                         "(oracle) with the real layouts[] rows; plus frame numbers +-4 around multiples of 13/26/51/102/104/1326/10608, the hyperframe end and 2^32, "
                         "random task sets; frames[fn %% period] for every layout over two periods + boundaries; l1sched_mframe_layout for all 128x8 pairs + out-of-range. "
                         "the real l1sched_handle_rx_burst()/subst_frame_loss(), l1sched_pull_burst(), l1sched_handle_rx_probe() with recording handlers for every "
                         "combination x timeslot: all frames in order over 2 periods at fn 0 / mid-hyperframe / across 2715647->0, random losses, per channel every k-th own "
                         "frame for k = 1..n+1 (k-1 losses; all k on one timeslot per combination, boundary k on the others), gaps of exactly period, period+1, 2 periods, "
                         "0, half a hyperframe, out-of-order and back-a-period bursts, poked statistics (num_proc near 2^64, last_proc and fn up to 2^32-1), inactive channels, "
                         "combinations without layout, malformed lines; pull_burst / probe over 2 periods per timeslot and every frame of the first and last 51x26x8 cycle per combination. "
                         "l1sched_chan_nr2pchan_config for all 256 channel numbers and on the firmware's channel number of every table row x timeslot; "
                         "firmware scheduler state: the real mframe_enable/disable/set/reset/schedule in histories - a request at each of the 51 phases while another task runs "
                         "(safe and unsafe ticks, mid-hyperframe and across 2715647->0), a disable at every third phase, task groups switched on by mframe_set and off one by one, "
                         "random histories (consecutive frames, jumps, resets, silent runs), poked states (safe_fn around fn, at the sentinel, beyond the hyperframe; fn up to 2^32-1), "
                         "two 1.36-million-tick regression witnesses (stale safe_fn after the wrap / after a long idle); oracle on every tick: tasks_tgt only changed by requests, "
                         "disabled => nothing started, requested => active at the 4th quiet tick at the latest and kept, active => starts exactly the layout's frames. "
                         "distinct_nontrivial = distinct (task, set of kinds/flags fired), (layout, frame row), (lookup result), (layout, channel, rc, substituted?, "
                         "crosses period / hyperframe), (layout, row, handler called / probe result) classes" % len(tasks))
