"""C12 - power state, child transceivers, clock distribution, port plan. Model: Model/Trx.v (power_event, parse_cmd); theorems: Props/C12.v.
Tie: Gen + sessions on the real Application (real constructor wiring from --trx definitions) vs the extracted model
+ independent reference of the documented power semantics and port plan."""
from .. import common, session_check as SC, session_wire as W
from ..session import Session


def gen(ctx):
    SC.gen_all(ctx)


def make_script(rng):
    defs = W.rand_trx_defs(rng)
    n = 2 + len(defs)
    ops = []
    for _ in range(rng.range(10, 80)):
        i = rng.below(n)
        c = rng.below(9)
        if c < 3:
            ops.append(("ctrl", i, W.cmd("CMD POWERON")))
        elif c < 5:
            ops.append(("ctrl", i, W.cmd("CMD POWEROFF")))
        elif c == 5:
            ops.append(("ctrl", i, W.cmd("CMD RXTUNE %d" % W.rand_int_arg(rng, "RXTUNE"))))
        elif c == 6:
            ops.append(("ctrl", i, W.cmd("CMD TXTUNE %d" % W.rand_int_arg(rng, "TXTUNE"))))
        elif c == 7:
            ops.append(("ctrl", i, W.cmd("CMD SETFH %d 0 %d %d" % (rng.choice([0, 5]), rng.choice(W.FREQS), rng.choice(W.FREQS)))))
        else:
            ops.append(("data", i, W.tx_datagram(0, rng.below(100), 0, 0, [0] * 148)))
        if rng.chance(1, 8):
            ops.append(("ctrl", rng.below(n), W.rejected_cmd(rng)))      # must leave power, hopping, queue and links alone
        if rng.chance(1, 3):
            ops.append(("state",))
    ops.append(("state",))
    return defs, ops


def expected_config(defs, bts=5700, bb=6700):
    """the wiring fake_trx.Application documents: BTS manages its children, the MS does not, additional parents do (default);
    a transceiver owns a clock link iff it is a parent; children hang under the parent with the same base port"""
    base = [bts, bb] + [p for (_, p, _) in defs]
    idxs = [0, 0] + [i for (_, _, i) in defs]
    out = []
    for k in range(len(base)):
        kids = [j for j in range(len(base)) if idxs[k] == 0 and idxs[j] > 0 and base[j] == base[k]]
        out.append(dict(idx=idxs[k], mgt=(k != 1), clock=(idxs[k] == 0), children=kids))
    return out


def oracle(ctx, script, real):
    defs, ops = script
    cfg, obs, events = real
    want_cfg = expected_config(defs)
    got_cfg = [dict(idx=c["idx"], mgt=bool(c["mgt"]), clock=bool(c["clock"]), children=sorted(c["children"])) for c in cfg]
    for k, (g, w) in enumerate(zip(got_cfg, want_cfg)):
        if g["idx"] == 0 and g != w or g["idx"] != w["idx"] or g["clock"] != w["clock"]:
            ctx.oracle_fail("the application wires a transceiver differently from the documented plan (who manages children, who owns a clock link, who is whose child)",
                            dict(trx=k, trx_defs=defs), key="c12-wiring:" + ",".join(f for f in w if g[f] != w[f]), expected=w, observed=g)
            break
    if len(got_cfg) != len(want_cfg):
        ctx.oracle_fail("number of transceivers differs from the --trx definitions", dict(trx_defs=defs), key="c12-wiring:count", expected=len(want_cfg), observed=len(got_cfg))
    n = len(cfg)
    ref = [dict(run=False, rx=False, tx=False, fh=False, q=0) for _ in range(n)]
    links, gen_running = [], False
    for e in events:
        op = e["op"]
        if op[0] == "ctrl":
            i = op[1]
            toks = bytes(op[2]).decode().strip("\0").split(" ")[1:]
            rsp = bytes(e["obs"][3:]).decode().strip("\0").split(" ") if e["obs"][1] == 1 else None
            status = int(rsp[2]) if rsp else None
            verb = toks[0]
            aff = [i] + (cfg[i]["children"] if cfg[i]["mgt"] and cfg[i]["idx"] == 0 else [])
            if verb == "POWERON":
                okp = (not ref[i]["run"]) and ((ref[i]["rx"] and ref[i]["tx"]) or ref[i]["fh"])
                if (status == 0) != okp:
                    ctx.oracle_fail("POWERON answered %s although the transceiver was %s" % (status, "startable" if okp else "running or untuned"),
                                    dict(trx_defs=defs, ops=[SC.describe(o) for o in ops]), key="c12-poweron-status")
                if okp:
                    for j in aff:
                        ref[j]["run"] = True
                    if cfg[i]["clock"] and i not in links:
                        links.append(i)
            elif verb == "POWEROFF":
                for j in aff:
                    ref[j].update(run=False, fh=False, q=0)
                if cfg[i]["clock"] and i in links:
                    links.remove(i)
            elif verb == "RXTUNE" and len(toks) == 2 and status == 0:
                ref[i]["rx"] = True
            elif verb == "TXTUNE" and len(toks) == 2 and status == 0:
                ref[i]["tx"] = True
            elif verb == "SETFH" and len(toks) >= 5 and status == 0:
                ref[i]["fh"] = True
            if cfg[i]["clock"] and verb in ("POWERON", "POWEROFF") and (verb == "POWEROFF" or status == 0):
                gen_running = len(links) > 0
            ctx.nontrivial((verb, status, cfg[i]["idx"] > 0, bool(cfg[i]["children"]), cfg[i]["mgt"], ref[i]["run"]))
        elif op[0] == "data":
            if e["obs"] == [2, 1]:
                ref[op[1]]["q"] += 1
        elif "state" in e:
            st, l, g = e["state"]
            got = [(t["run"], t["fh"] is not None, len(t["q"])) for t in st]
            want = [(r["run"], r["fh"], r["q"]) for r in ref]
            if got != want or sorted(l) != sorted(links) or len(set(l)) != len(l) or g != gen_running:
                ctx.oracle_fail("power state / hopping / queue / clock links differ from the documented semantics",
                                dict(trx_defs=defs, ops=[SC.describe(o) for o in ops]), key="c12-power-state",
                                expected=dict(trx=want, links=sorted(links), gen=gen_running), observed=dict(trx=got, links=l, gen=g))


def check_ports(ctx, rng):
    """documented port plan, observed on the sockets the real constructors create"""
    for _ in range(20 if ctx.tier == "quick" else 200):
        defs = W.rand_trx_defs(rng)
        # base ports of either parity and far from the defaults (the documented plan is base +0/+1/+2, +2 per child index, peer at +100)
        bts, bb = rng.choice([5700, 5800, 5701, 5803, 1025, 40001]), rng.choice([6700, 6900, 6701, 6903, 2049, 50000])
        extra = {7700: rng.choice([7700, 7701, 7900]), 8700: rng.choice([8700, 8703, 9001])}
        # the peers live on different hosts in half of the configurations (-R / -r and the address part of --trx): every link of a
        # transceiver talks to ITS peer's address, children to their parent's
        if rng.chance(1, 2):
            addr_of = {5700: rng.choice(["127.0.0.1", "10.0.0.1"]), 6700: rng.choice(["127.0.0.2", "10.0.0.2"]), 7700: "10.1.0.7", 8700: "10.1.0.8"}
        else:
            addr_of = {5700: "127.0.0.1", 6700: "127.0.0.1", 7700: "127.0.0.1", 8700: "127.0.0.1"}
        peer = [addr_of[5700], addr_of[6700]] + [addr_of[p] for a, p, i in defs]
        defs = [(addr_of[p], bts if p == 5700 else (bb if p == 6700 else extra.get(p, p)), i) for a, p, i in defs]
        try:
            # -s <prio>: the clock thread asks for SCHED_RR priority prio + 1 before it ticks (refused by the kernel above 99, or for
            # lack of privileges): whatever the answer, the clock must run
            prio = rng.choice([None, None, 1, 50, 98, 99, 120])
            # -b <addr>: every socket of every transceiver (control, data and the clock link) is bound to the configured local address
            baddr = rng.choice([None, "127.0.0.2", "10.9.8.7", "0.0.0.0"])
            s = Session(defs, bts, bb, bts_addr=addr_of[5700], bb_addr=addr_of[6700], sched_rr_prio=prio, privileged=rng.chance(1, 2), bind_addr=baddr)
        except Exception as e:  # noqa
            ctx.oracle_fail("the Application cannot be constructed from valid --trx definitions", dict(trx_defs=defs, exception="%s: %s" % (type(e).__name__, e)),
                            key="c12-constructor-raises:" + type(e).__name__)
            continue
        try:
            for t in s.trxs:
                base, idx = t.base_port, t.child_idx
                plan = dict(ctrl=(base + 2 * idx + 1, base + 2 * idx + 101), data=(base + 2 * idx + 2, base + 2 * idx + 102))
                obs = dict(ctrl=(t.ctrl_if.sock.bound[1], t.ctrl_if.remote_port), data=(t.data_if.sock.bound[1], t.data_if.remote_port))
                if t.clck_gen is not None:
                    plan["clck"] = (base, base + 100)
                    obs["clck"] = (t.clck_if.sock.bound[1], t.clck_if.remote_port)
                if (idx > 0) == (t.clck_gen is not None):
                    ctx.oracle_fail("clock ownership does not follow the child index", dict(trx=str(t)), key="c12-clock-owner")
                if plan != obs:
                    ctx.oracle_fail("sockets do not follow the documented port plan", dict(trx=str(t), trx_defs=defs), key="c12-ports", expected=plan, observed=obs)
                k_ = s.trxs.index(t)
                links = [t.ctrl_if, t.data_if] + ([t.clck_if] if t.clck_gen is not None else [])
                if k_ < len(peer) and any(l.remote_addr != peer[k_] for l in links):
                    ctx.oracle_fail("a link of a transceiver does not talk to its peer's address", dict(trx=str(t), trx_defs=defs, bts_addr=addr_of[5700], bb_addr=addr_of[6700]),
                                    key="c12-peer-address", expected=peer[k_], observed=[l.remote_addr for l in links])
                bound = [l.sock.bound[0] for l in links]
                if any(b != (baddr or "0.0.0.0") for b in bound):
                    ctx.oracle_fail("a socket of a transceiver is not bound to the configured local address (-b): its datagrams (clock indications included) leave from another address",
                                    dict(trx=str(t), trx_defs=defs, bind_addr=baddr), key="c12-bind-address", expected=baddr or "0.0.0.0", observed=bound)
                ctx.evaluations += 1
            ports = [p for t in s.trxs for p in ([t.ctrl_if.sock.bound[1], t.data_if.sock.bound[1]] + ([t.clck_if.sock.bound[1]] if t.clck_gen is not None else []))]
            if len(set(ports)) != len(ports):
                ctx.oracle_fail("two sockets bound to the same port", dict(trx_defs=defs, ports=ports), key="c12-ports-collide")
            # clock indications reach exactly the links of running clock owners
            on = [k for k, t in enumerate(s.trxs) if t.clck_gen is not None and (k == 0 or rng.chance(1, 2))]
            for k in on:
                s.ctrl(k, W.cmd("CMD RXTUNE 1")); s.ctrl(k, W.cmd("CMD TXTUNE 1")); s.ctrl(k, W.cmd("CMD POWERON"))
            th = s.app.clck_gen._thread
            if on and not s.app.clck_gen.running:
                ctx.oracle_fail("a clock owner was powered on (RSP POWERON 0) but the clock generator is not running" + (": its thread died with %s" % th.died if getattr(th, "died", None) else ""),
                                dict(trx_defs=defs, sched_rr_prio=prio, powered_on=on), key="c12-clock-not-running")
            for t in s.trxs:
                if t.clck_gen is not None:
                    t.clck_if.sock.sent.clear()
            s.app.clck_gen.clck_src = 0
            s.app.clck_gen.clck_handler = None
            s.app.clck_gen.send_clck_ind()
            for k, t in enumerate(s.trxs):
                if t.clck_gen is None:
                    continue
                got = [(bytes(d), r) for d, r in t.clck_if.sock.sent]
                base_k = [bts, bb][k] if k < 2 else defs[k - 2][1]
                want = [(b"IND CLOCK 0\0", (peer[k], base_k + 100))] if k in on else []
                if got != want:
                    ctx.oracle_fail("clock indication not sent to exactly the running clock owners", dict(trx=str(t), trx_defs=defs), key="c12-clock-ind", expected=want, observed=got)
        finally:
            s.close()


def run(ctx):
    gen(ctx)
    ctx.prove()
    if ctx.tier == "thorough":
        ctx.coqchk()
    rng = ctx.rng
    n = 150 if ctx.tier == "quick" else 6000
    scripts = [make_script(rng) for _ in range(n)]
    reals = SC.run_scripts(ctx, "session", scripts)
    for s, r in zip(scripts, reals):
        oracle(ctx, s, r)
        W.refused_leaves_no_trace(ctx, s, r, "c12")
    # power state as the rest of the application sees it: a powered-off transceiver gets nothing and hides nobody - every OTHER running
    # transceiver (before or after it in the application's list) keeps getting its bursts (sessions of 2..6 transceivers with power
    # commands; generator and routing oracle shared with C02, fan-out sessions included)
    from . import C02 as _C02
    rs = [_C02.make_script(rng) for _ in range(40 if ctx.tier == "quick" else 1500)] + [_C02.fanout_script(rng) for _ in range(20 if ctx.tier == "quick" else 500)]
    rreals = SC.run_scripts(ctx, "routing-session", rs)
    for s, r in zip(rs, rreals):
        _C02.oracle(ctx, s, r)
    check_ports(ctx, rng)
    # POWEROFF forgets all queued bursts whatever the clock thread is doing at that moment: the power command on the socket thread
    # racing one tick on the clock thread, on two real threads over the real objects under the schedule driver of C03 (vp/sched_driver.py)
    from .. import sched_driver as SD
    nsch = 0
    for hop in (False, True):
        for q in ([(1, 10)], [(1, 9), (2, 10), (3, 10), (4, 11)], [(1, 11), (2, 12)]):
            scheds = [[rng.below(2) for _ in range(14)] for _ in range(12 if ctx.tier == "quick" else 300)] + [[1, 1, 1, 1, 1, 0, 0, 0, 0, 0, 0, 1], [0] * 14, [1] * 14]
            for sched in scheds:
                c = (10, True, hop, ("poweroff",), q, sched)
                ctx.in_flight = c
                o, trace, states = SD.run_one(*c)
                nsch += 1
                ne = o[3]
                nst = o[4 + ne]
                nq = o[5 + ne + nst]
                if o[0] or nq != 0 or states[2]:
                    ctx.oracle_fail("bursts are still queued after POWEROFF (or the clock thread died / touched the queue outside its lock) under one thread schedule",
                                    dict(tick=10, hopping=hop, queue=q, schedule=sched, trace=trace, left_in_queue=o[6 + ne + nst:6 + ne + nst + nq]), key="c12-poweroff-queue-race")
    ctx.count("poweroff_schedules", nsch)
    ctx.sample(dict(trx_defs=scripts[0][0], ops=[SC.describe(o) for o in scripts[0][1][:12]]))
    ctx.count("operations", sum(len(s[1]) for s in scripts))
    ctx.extra["rule"] = ("application configurations from random --trx definitions (children of BTS/MS, extra parents) through the real Application constructor; "
                         "random POWERON/POWEROFF/RXTUNE/TXTUNE/SETFH/data sequences with state dumps; port plan checked on the created sockets; "
                         "distinct_nontrivial = distinct (verb, status, child?, has children?, child management, running) situations")
