"""C01 - TRXD messages survive encode/decode unchanged. Model: Model/Trxd.v; theorems: Props/C01.v.
Tie: Gen/TrxdConst.v by reflection + correspondence of gen_msg/parse_msg with the extracted model."""
from .. import common
from .. import trxd_util as U
from ..gen.trxd import gen_trxd


def gen(ctx):
    gen_trxd(ctx)


def run(ctx):
    gen(ctx)
    ctx.prove()
    if ctx.tier == "thorough":
        ctx.coqchk()
    rng = ctx.rng
    n = 1500 if ctx.tier == "quick" else 60000
    msgs = []
    for k in range(n):
        tx = rng.chance(1, 3)
        if rng.chance(1, 12):
            m = U.rand_tx(rng, valid=False) if tx else U.rand_rx(rng, valid=False)
        else:
            m = U.rand_tx(rng) if tx else U.rand_rx(rng, soft_domain=not rng.chance(1, 20))
        msgs.append((m, rng.chance(1, 2)))
    # the product modulation x TSC set x TSC around their ranges on otherwise valid version-1 messages: what is accepted must
    # survive the round trip (the MTS octet has room for exactly the documented sets of each modulation)
    for mod in range(6):
        for tset in (-1, 0, 1, 2, 3, 4):
            for tsc in (-1, 0, 7, 8):
                m = U.rand_rx(rng)
                while m["ver"] != 1 or m["nope"]:
                    m = U.rand_rx(rng)
                m.update(mod=mod, tset=tset, tsc=tsc, burst=[rng.range(-127, 127) for _ in range(U.MOD_BL[mod])])
                msgs.append((m, rng.chance(1, 2)))
    # encode on the implementation
    gen_obs = [U.do_gen(m, legacy) for m, legacy in msgs]
    U.gen_reuse_check(ctx, msgs, gen_obs, "c01-gen-history")
    idx = list(range(len(msgs)))
    op = lambda m: "w_trxd_tx_gen" if m["kind"] == "tx" else "w_trxd_rx_gen"
    ctx.correspond("gen_msg", "Trxd", idx,
                   lambda k: "%s %d %s" % (op(msgs[k][0]), 1 if msgs[k][1] else 0, " ".join(map(str, U.enc(msgs[k][0])))),
                   lambda k: gen_obs[k], show=lambda k: dict(msg=U.short(msgs[k][0]), legacy=msgs[k][1]))
    # decode what was encoded, plus mutated / truncated datagrams (malformed stream)
    dgrams = []
    for k, o in enumerate(gen_obs):
        if o[0] != 0:
            continue
        kind = msgs[k][0]["kind"]
        dgrams.append((kind, o[1:], k))
        if rng.chance(1, 4):
            d = list(o[1:])
            how = rng.below(5)
            if how == 0:
                d = d[:rng.below(len(d) + 1)]
            elif how == 1:
                d[rng.below(len(d))] ^= 1 << rng.below(8)
            elif how == 2:
                d = d + [rng.below(256) for _ in range(1 + rng.below(4))]
            elif how == 3:
                d[0] = rng.below(256)
            else:
                d = d[:U.toolkit().RxMsg().HDR_LEN + rng.choice([0, 1, 2, 147, 149, 151, 296, 298, 592, 594, 740, 742])] if kind == "rx" else d[:6 + rng.choice([0, 1, 147, 149, 443, 445, 447])]
            dgrams.append((kind, d, None))
    parse_obs = [U.do_parse(kind, d) for kind, d, _ in dgrams]
    U.reuse_check(ctx, dgrams, parse_obs, "c01-parse-history")
    didx = list(range(len(dgrams)))
    ctx.correspond("parse_msg", "Trxd", didx,
                   lambda j: "%s %s" % ("w_trxd_tx_parse" if dgrams[j][0] == "tx" else "w_trxd_rx_parse", " ".join(map(str, dgrams[j][1]))),
                   lambda j: parse_obs[j], show=lambda j: dict(kind=dgrams[j][0], octets=dgrams[j][1][:16], n=len(dgrams[j][1])))
    # implementation-level oracle: the literal round trip on the real classes
    D = U.toolkit()
    for j, (kind, d, k) in enumerate(dgrams):
        if k is None:
            continue
        m, legacy = msgs[k]
        soft_ok = kind == "tx" or m["burst"] is None or all(-127 <= s <= 127 for s in m["burst"])
        if not soft_ok:
            continue
        o = D.TxMsg() if kind == "tx" else D.RxMsg()
        try:
            o.parse_msg(bytearray(d))
            back = U.from_real(o)
        except Exception as e:  # noqa
            ctx.oracle_fail("a message the toolkit encoded does not parse back (%s)" % type(e).__name__, dict(msg=m, legacy=legacy),
                            key="c01-roundtrip-raises")
            continue
        if U.carried(back) != U.carried(m):
            diff = [f for f in m if U.carried(back).get(f) != U.carried(m).get(f)]
            ctx.oracle_fail("decode(encode(m)) differs from m in " + ",".join(diff), dict(msg=m, legacy=legacy),
                            key="c01-roundtrip-differs:" + ",".join(diff), expected=U.short(U.carried(m)), observed=U.short(U.carried(back)))
        bl = 0 if m["burst"] is None else len(m["burst"])
        ctx.nontrivial((kind, m["ver"], m.get("mod") if m["ver"] == 1 else None, m.get("nope"), bl, legacy, m.get("tset") if m["ver"] == 1 else None))
    # spec: every message in the protocol ranges must be encodable
    for k, (m, legacy) in enumerate(msgs):
        ok = gen_obs[k][0] == 0
        if U.spec_valid(m) != ok:
            ctx.oracle_fail("gen_msg %s a message that is %s the protocol ranges" % ("accepts" if ok else "refuses", "outside" if ok else "inside"),
                            dict(msg=m, legacy=legacy), key="c01-encodable-mismatch:" + _which(m))
    for k in range(0, len(msgs), max(1, len(msgs) // 4)):
        ctx.sample(dict(msg=U.short(msgs[k][0]), legacy=msgs[k][1], encoded_head=gen_obs[k][:14]))
    ctx.count("valid_msgs", sum(1 for o in gen_obs if o[0] == 0))
    ctx.count("refused_msgs", sum(1 for o in gen_obs if o[0] != 0))
    ctx.count("parse_ok", sum(1 for o in parse_obs if o[0] == 0))
    ctx.count("parse_valueerror", sum(1 for o in parse_obs if o[0] == 1))
    ctx.count("parse_other_exception", sum(1 for o in parse_obs if o[0] == 2))
    ctx.extra["rule"] = ("messages drawn with boundary-heavy fields (FN on octet carries and the hyperframe end, RSSI/ToA/C-I on range ends), every modulation x TSC set x TSC, NOPE, "
                         "both versions, legacy on/off, 5 burst patterns; 1/12 perturbed to invalid; datagrams re-parsed, 1/4 also mutated (truncate, bit flip, append, first octet, odd lengths); "
                         "distinct_nontrivial = distinct (class, version, modulation, NOPE, burst length, legacy, TSC set) among round-tripped messages")


def _which(m):
    if m["fn"] is not None and m["fn"] == U.H:
        return "fn=hyperframe"
    return "other"
