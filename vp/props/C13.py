"""C13 - validation accepts exactly the protocol value ranges; nothing invalid is sent.
Model: Model/Trxd.v (validate_tx/validate_rx/gen/send); theorems: Props/C13.v.
Tie: Gen/TrxdConst.v + correspondence on the boundary product of all fields, observing validate(), gen_msg() and the
datagrams DATAInterface.send_msg() writes to a fake socket."""
import itertools
import logging

from .. import common, fakesock
from .. import trxd_util as U
from ..gen.trxd import gen_trxd

H = U.H


def gen(ctx):
    gen_trxd(ctx)


def product_tx():
    for ver, fn, tn, pwr, bl in itertools.product([-1, 0, 1, 2, 16], [None, -1, 0, H - 1, H], [None, -1, 0, 7, 8], [None, -1, 0, 255, 256],
                                                  [None, 0, 147, 148, 149, 150, 443, 444, 445, 446]):
        yield dict(kind="tx", ver=ver, fn=fn, tn=tn, pwr=pwr, burst=None if bl is None else [i & 1 for i in range(bl)])


def product_rx():
    base = dict(kind="rx", ver=1, fn=5, tn=3, rssi=-60, toa=0, nope=False, mod=0, tset=0, tsc=0, ci=0, burst=[0] * 148)
    # full cross product of the header fields would be ~10^7; fields are checked independently by the code in a fixed order,
    # so the product taken is: every pair of fields on their boundary grids (pairwise), times version/modulation/NOPE.
    grids = dict(ver=[-1, 0, 1, 2, 16], fn=[None, -1, 0, H - 1, H], tn=[None, -1, 0, 7, 8], rssi=[None, -121, -120, -47, -46],
                 toa=[None, -32769, -32768, 32767, 32768], tset=[None, -1, 0, 1, 2, 3, 4], tsc=[None, -1, 0, 7, 8],
                 ci=[None, -1281, -1280, 1280, 1281], bl=[None, 0, 147, 148, 149, 295, 296, 297, 443, 444, 445, 591, 592, 593, 739, 740, 741])
    names = sorted(grids)
    for ver in (0, 1):
        for mod in (None, 0, 1, 2, 3, 4, 5):
            for nope in (False, True):
                for a, b in itertools.combinations(names, 2):
                    for va in grids[a]:
                        for vb in grids[b]:
                            m = dict(base, ver=ver, mod=mod, nope=nope)
                            m["burst"] = [0] * (U.MOD_BL[mod] if (mod is not None and ver == 1) else 148)
                            if nope and ver == 1:
                                m["burst"] = None
                            for f, v in ((a, va), (b, vb)):
                                if f == "bl":
                                    m["burst"] = None if v is None else [(-127 if i & 1 else 127) for i in range(v)]
                                else:
                                    m[f] = v
                            yield m


def run(ctx):
    gen(ctx)
    ctx.prove()
    if ctx.tier == "thorough":
        ctx.coqchk()
    rng = ctx.rng
    # header-version negotiation first (it shares Msg.KNOWN_VERSIONS with validate()): afterwards every valid message must still
    # validate - any damage also shows in the sweeps below
    U.negotiation_check(ctx, "c13")
    allm = list(product_tx()) + list(product_rx())
    ctx.extra["boundary_product_size"] = len(allm)
    if ctx.tier == "quick":
        rng.shuffle(allm)
        msgs = allm[:6000]
    else:
        msgs = allm
        ctx.exhaustive = True
    msgs += [U.rand_tx(rng, valid=rng.chance(1, 2)) if rng.chance(1, 3) else U.rand_rx(rng, valid=rng.chance(1, 2)) for _ in range(1000)]
    val_obs = [U.do_validate(m) for m in msgs]
    idx = list(range(len(msgs)))
    ctx.correspond("validate", "Trxd", idx,
                   lambda k: "%s %s" % ("w_trxd_tx_validate" if msgs[k]["kind"] == "tx" else "w_trxd_rx_validate", " ".join(map(str, U.enc(msgs[k])))),
                   lambda k: val_obs[k], show=lambda k: U.short(msgs[k]))
    legacy = [rng.chance(1, 2) for _ in msgs]
    gen_obs = [U.do_gen(m, l) for m, l in zip(msgs, legacy)]
    U.gen_reuse_check(ctx, list(zip(msgs, legacy)), gen_obs, "c13-gen-history")
    ctx.correspond("gen_msg", "Trxd", idx,
                   lambda k: "%s %d %s" % ("w_trxd_tx_gen" if msgs[k]["kind"] == "tx" else "w_trxd_rx_gen", 1 if legacy[k] else 0, " ".join(map(str, U.enc(msgs[k])))),
                   lambda k: gen_obs[k], show=lambda k: dict(msg=U.short(msgs[k]), legacy=legacy[k]))
    # sending through the real DATAInterface on a fake socket
    FS = fakesock.install()
    import data_if
    logging.disable(logging.CRITICAL)
    link = data_if.DATAInterface("127.0.0.1", 5702, "0.0.0.0", 5802)
    sock = link.sock
    for k, m in enumerate(msgs):
        ok_spec = U.spec_valid(m)
        ctx.nontrivial((m["kind"], m["ver"] if m["ver"] in (0, 1) else "badver", ok_spec, val_obs[k][0], _first_bad(m)))
        # implementation-level oracle: the statement of C13 directly
        if (val_obs[k] == [0]) != ok_spec:
            ctx.oracle_fail("validate() %s a message whose fields are %s the protocol ranges" % ("accepts" if val_obs[k] == [0] else "rejects", "outside" if not ok_spec else "inside"),
                            dict(msg=m), key="c13-validate-vs-ranges:" + _first_bad(m))
        if val_obs[k] == [2] or gen_obs[k] == [2]:
            ctx.oracle_fail("validate()/gen_msg() raised something other than ValueError", dict(msg=m), key="c13-not-valueerror")
        if (gen_obs[k][0] == 0) != (val_obs[k] == [0]):
            ctx.oracle_fail("gen_msg() and validate() disagree", dict(msg=m), key="c13-gen-vs-validate")
        sock.sent.clear()
        try:
            link.send_msg(U.real(m), legacy[k])
            n = len(sock.sent)
            first = list(sock.sent[0][0]) if sock.sent else None
            dest_ok = all(d[1] == ("127.0.0.1", 5702) for d in sock.sent)
        except Exception as e:  # noqa
            n, first, dest_ok = -1, None, True
            ctx.oracle_fail("send_msg() raised %s" % type(e).__name__, dict(msg=m), key="c13-send-raises")
        want = 1 if ok_spec else 0
        if n != want or (n == 1 and [0] + first != gen_obs[k]) or not dest_ok:
            ctx.oracle_fail("send_msg() emitted %d datagram(s) for a message that %s" % (n, "validates" if ok_spec else "does not validate"),
                            dict(msg=m, legacy=legacy[k]), key="c13-send-count:" + _first_bad(m), expected=want, observed=n)
        ctx.evaluations += 1
    logging.disable(logging.NOTSET)
    for k in range(0, len(msgs), max(1, len(msgs) // 5)):
        ctx.sample(dict(msg=U.short(msgs[k]), validate=val_obs[k], spec=U.spec_valid(msgs[k])))
    ctx.count("validates", sum(1 for o in val_obs if o == [0]))
    ctx.count("valueerror", sum(1 for o in val_obs if o == [1]))
    ctx.extra["rule"] = ("Tx: full product of (ver, fn, tn, pwr, burst length) boundary grids {min-1,min,max,max+1,None}; Rx: every PAIR of fields on their grids x version x "
                         "modulation (incl. None) x NOPE (thorough: complete, quick: 6000 drawn) + 1000 random messages; "
                         "distinct_nontrivial = distinct (class, version, spec-valid, outcome, first out-of-range field)")


def _first_bad(m):
    def r(x, lo, hi):
        return x is not None and lo <= x <= hi
    if m["ver"] not in (0, 1):
        return "ver"
    if not r(m["fn"], 0, H - 1):
        return "fn=%s" % ("None" if m["fn"] is None else ("hyperframe" if m["fn"] == H else "other"))
    if not r(m["tn"], 0, 7):
        return "tn"
    if m["kind"] == "tx":
        if not r(m["pwr"], 0, 255):
            return "pwr"
        return "ok" if U.spec_valid(m) else "burst"
    if not r(m["rssi"], -120, -47):
        return "rssi"
    if not r(m["toa"], -32768, 32767):
        return "toa"
    if m["ver"] == 1 and not m["nope"]:
        if m["mod"] is None:
            return "mod"
        if not r(m["tset"], 0, 3 if m["mod"] == 0 else 1):
            return "tset"
        if not r(m["tsc"], 0, 7):
            return "tsc"
    if m["ver"] == 1 and not r(m["ci"], -1280, 1280):
        return "ci"
    return "ok" if U.spec_valid(m) else "burst"
