"""C06 - sercomm/HDLC serial framing. Model: Model/Sercomm.v + Model/SercommDrv.v (osmocon handle_sercomm_write); theorems: Props/C06.v.
Tie: Gen/SercommConst.v (constants dumped by a C program that #includes the real sercomm.c/.h, HOST_BUILD)
+ correspondence of the extracted model (w_c06_script) with the ASan/UBSan host build of the real
sercomm.c + vendored msgb.c/talloc.c, driven by op scripts; implementation-level oracle = end-to-end
delivery property evaluated on the observations of the real code."""
import os
import re
import subprocess

from .. import common
from ..common import REPO, LIBOSMO, ROOT

FW = os.path.join(REPO, "src/target/firmware")
SERCOMM_C = os.path.join(FW, "comm/sercomm.c")
OSMOCON_C = os.path.join(REPO, "src/host/osmocon/osmocon.c")
DRV_GEN = os.path.join(common.WORK, "c", "c06_gen")

FLAG, ESC, CUI = 0x7E, 0x7D, 0x03          # protocol literals of the specification side (oracle)
RICH = [0x7E, 0x7D, 0x00, 0x5E, 0x5D, 0x20]
KNOWN_DLCI = [4, 5, 9, 10]                 # SC_DLCI_DEBUG, L1A_L23, LOADER, CONSOLE


def drv_function():
    """the real text of handle_sercomm_write() (fails closed: RuntimeError if the function is not there) and the
    size of its local buffer[] as written in that text"""
    txt = common.c_function_text(OSMOCON_C, "handle_sercomm_write")
    m = re.findall(r"\buint8_t\s+buffer\s*\[\s*(\d+)\s*\]", txt)
    if len(m) != 1:
        raise RuntimeError("handle_sercomm_write: local 'uint8_t buffer[N]' not found in the function text")
    if "sercomm_drv_pull" not in txt:
        raise RuntimeError("handle_sercomm_write does not call sercomm_drv_pull any more: the C06 driver-glue model does not apply")
    return txt, int(m[0])


def build_c(ctx):
    stubs = os.path.join(ROOT, "charness/stubs")
    txt, _ = drv_function()
    os.makedirs(DRV_GEN, exist_ok=True)
    inc = os.path.join(DRV_GEN, "c06_handle_sercomm_write.inc")
    tmp = inc + ".%d" % os.getpid()
    with open(tmp, "w") as f:
        f.write("/* extracted from %s on every run - do not edit */\n%s\n" % (OSMOCON_C, txt))
    os.replace(tmp, inc)
    ok, path, log = common.cc(
        "c06",
        [os.path.join(ROOT, "charness/c06.c"), os.path.join(ROOT, "charness/c06_panic.c"),
         os.path.join(LIBOSMO, "src/msgb.c"), os.path.join(LIBOSMO, "src/talloc.c")],
        flags="-fno-sanitize=vla-bound -DHOST_BUILD -I%s -I%s/a/b -I%s -I%s/comm -I%s/include/comm -I%s/include"
              % (DRV_GEN, stubs, stubs, FW, FW, LIBOSMO))
    if not ok:
        raise RuntimeError("C06 harness does not compile:\n" + log[-3000:])
    return path


def consts(binp):
    out = subprocess.run([binp, "const"], stdout=subprocess.PIPE, text=True, timeout=30, env=c_env()).stdout
    c = {}
    for l in out.strip().split("\n"):
        k, v = l.split()
        c[k] = int(v)
    return c


def c_env():
    e = dict(os.environ)
    e["ASAN_OPTIONS"] = "detect_leaks=0:abort_on_error=0"
    e["UBSAN_OPTIONS"] = "print_stacktrace=1"
    return e


def target_rx_size():
    """SERCOMM_RX_MSG_SIZE of the non-HOST_BUILD branch (cannot be compiled here): textual"""
    with open(SERCOMM_C) as f:
        vals = re.findall(r"^\s*#\s*define\s+SERCOMM_RX_MSG_SIZE\s+(\d+)", f.read(), re.M)
    return [int(v) for v in vals]


def gen(ctx):
    binp = build_c(ctx)
    c = consts(binp)
    sizes = target_rx_size()
    tgt = [v for v in sizes if v != c["SERCOMM_RX_MSG_SIZE"]]
    txt = common.gen_header("firmware/comm/sercomm.c + include/comm/sercomm.h + vendored msgb.h (compiled with -DHOST_BUILD, dumped by charness/c06.c const); "
                            "target SERCOMM_RX_MSG_SIZE textually from the #else branch")
    names = [("c_HDLC_FLAG", "HDLC_FLAG"), ("c_HDLC_ESCAPE", "HDLC_ESCAPE"), ("c_HDLC_C_UI", "HDLC_C_UI"),
             ("c_SERCOMM_RX_MSG_SIZE", "SERCOMM_RX_MSG_SIZE"), ("c_SC_DLCI_MAX", "_SC_DLCI_MAX"), ("c_SC_DLCI_ECHO", "SC_DLCI_ECHO"),
             ("c_n_tx_queues", "n_tx_queues"), ("c_n_rx_handlers", "n_rx_handlers"),
             ("c_rx_tailroom", "rx_tailroom"), ("c_rx_headroom", "rx_headroom")]
    for coqn, cn in names:
        txt += "Definition %s : Z := %d.\n" % (coqn, c[cn])
    txt += "Definition c_SERCOMM_RX_MSG_SIZE_target : Z := %d.\n" % (tgt[0] if tgt else c["SERCOMM_RX_MSG_SIZE"])
    txt += "(* sizeof(buffer) of handle_sercomm_write(), src/host/osmocon/osmocon.c, from the function text *)\n"
    txt += "Definition c_drv_write_buffer : Z := %d.\n" % drv_function()[1]
    txt += "Definition c_named_dlcis : list Z := %s.\n" % common.zlist(
        [c[k] for k in ("SC_DLCI_HIGHEST", "SC_DLCI_DEBUG", "SC_DLCI_L1A_L23", "SC_DLCI_LOADER", "SC_DLCI_CONSOLE", "SC_DLCI_ECHO")])
    ctx.gen("SercommConst", txt)
    return binp, c



# ------------------------------------------------------------------ specification side (written from the property text)

def esc(l):
    o = []
    for b in l:
        if b in (FLAG, ESC, 0x00):
            o += [ESC, b ^ 0x20]
        else:
            o.append(b)
    return o


def frame(d, p):
    return [FLAG] + esc([d, CUI] + list(p)) + [FLAG]


def needs_escape(d):
    return d in (FLAG, ESC, 0x00)


def ref_tx(ops):
    """reference scheduler: non-preemptive, lowest DLCI first, FIFO per DLCI; None = nothing to send"""
    pending, infl, pos, out, started = [], [], 0, [], []
    for op in ops:
        if op[0] == "send":
            pending.append((op[1], op[2]))
        elif op[0] in ("pull", "loop"):
            for _ in range(op[1]):
                if pos < len(infl):
                    out.append(infl[pos]); pos += 1
                elif pending:
                    i = min(range(len(pending)), key=lambda k: (pending[k][0], k))
                    d, p = pending.pop(i)
                    started.append((d, p))
                    infl, pos = frame(d, p), 1
                    out.append(infl[0])
                else:
                    out.append(None)
    return out, started, pos >= len(infl)


def parse_obs(o):
    i, evs = 0, []
    while i < len(o):
        t = o[i]
        if t == 1 and i + 1 < len(o):
            evs.append(("ch", o[i + 1])); i += 2
        elif t == 0:
            evs.append(("empty",)); i += 1
        elif t == 2 and i + 2 < len(o):
            n = o[i + 2]
            evs.append(("msg", o[i + 1], o[i + 3:i + 3 + n])); i += 3 + n
        elif t == 3:
            evs.append(("ovf",)); i += 1
        elif t == 4 and i + 1 < len(o):
            evs.append(("reg", o[i + 1])); i += 2
        elif t == 9:
            evs.append(("abort",)); i += 1
        else:
            evs.append(("bad", t)); break
    return evs


# ------------------------------------------------------------------ case generation (ctx.rng only)

def payload(rng, n):
    return [rng.choice(RICH) if rng.chance(1, 2) else rng.below(256) for _ in range(n)]


def plen(rng, cap, big):
    r = rng.below(100)
    if big and r < 14:
        return rng.choice([cap - 2, cap - 1, cap, cap + 1])
    if r < 32:
        return rng.choice([0, 1, 2])
    return rng.range(0, 40)


def encode(ops):
    s = []
    for op in ops:
        if op[0] == "send":
            s += [1, op[1], len(op[2])] + list(op[2])
        elif op[0] == "pull":
            s += [2, op[1]]
        elif op[0] == "feed":
            s += [3, len(op[1])] + list(op[1])
        elif op[0] == "reg":
            s += [4, op[1]]
        elif op[0] == "loop":
            s += [5, op[1]]
    return s


def decode(script):
    """inverse of encode (replay files carry the script only)"""
    ops, i = [], 0
    names = {2: "pull", 4: "reg", 5: "loop"}
    while i < len(script):
        t = script[i]
        if t == 1 and i + 2 < len(script) + 1:
            n = script[i + 2]
            ops.append(("send", script[i + 1], script[i + 3:i + 3 + n])); i += 3 + n
        elif t == 3:
            n = script[i + 1]
            ops.append(("feed", script[i + 2:i + 2 + n])); i += 2 + n
        elif t in names:
            ops.append((names[t], script[i + 1])); i += 2
        else:
            break
    return ops


def gen_tx(rng, cap, c):
    """sendmsg / pull interleavings on the transmit side only; every DLCI that indexes a queue, incl. 0, 125, 126"""
    big = rng.chance(1, 4)
    pool = KNOWN_DLCI + [0, 1, 2, 3, 125, 126, 127, 128]
    ops, nbig = [], 0
    for _ in range(rng.range(1, 14)):
        if rng.chance(3, 5):
            n = plen(rng, cap, big and nbig < 2)
            nbig += n > 100
            ops.append(("send", rng.choice(pool), payload(rng, n)))
        else:
            ops.append(("pull", rng.choice([0, 1, 2, 3, 5, 8, 13, 40])))
    total = sum(len(frame(o[1], o[2])) for o in ops if o[0] == "send")
    if rng.chance(4, 5):
        ops.append(("pull", total + 3))
    return dict(kind="tx", ops=ops, regs=[], tags=set(["big"] if nbig else []))


def gen_e2e(rng, cap, c, defect=None):
    """Tx looped back octet by octet into Rx; recording handlers on a subset of the DLCIs"""
    big = rng.chance(1, 4)
    pool = list(KNOWN_DLCI) + [1, 2, 3, 127]
    rng.shuffle(pool)
    regs = pool[:rng.range(2, 6)]
    unreg = pool[6:]
    tags = set()
    if defect == "dlci":
        bad = rng.choice([0, 0, 125, 126])
        regs = regs + [bad] + ([125] if bad == 0 and rng.chance(1, 2) else [])
        tags.add("dlci-needs-escape")
    ops = [("reg", d) for d in regs]
    nbig = 0
    for _ in range(rng.range(1, 12)):
        r = rng.below(10)
        if r < 6:
            n = plen(rng, cap, big and nbig < 2)
            nbig += n > 100
            if defect == "dlci" and rng.chance(1, 3):
                d = regs[-1] if regs[-1] in (0, 125, 126) else regs[-2]
            else:
                d = rng.choice(regs + regs + unreg) if unreg else rng.choice(regs)
            ops.append(("send", d, payload(rng, n)))
        elif r < 9:
            ops.append(("loop", rng.choice([0, 1, 2, 3, 5, 8, 13, 40])))
        else:
            ops.append(("pull", 0))
    if defect == "dlci" and not any(o[0] == "send" and needs_escape(o[1]) for o in ops):
        ops.append(("send", [d for d in regs if needs_escape(d)][0], payload(rng, 3)))
    total = sum(len(frame(o[1], o[2])) for o in ops if o[0] == "send")
    ops.append(("loop", total + 3))
    if nbig:
        tags.add("big")
    return dict(kind="e2e", ops=ops, regs=regs, tags=tags)


def gen_backlog(rng, cap, c):
    """a deep backlog: several hundred short messages queued on ONE DLCI (plus a few on others) before the driver pulls anything -
    counters and indices of the queueing code have to cross 255 / 256"""
    pool = list(KNOWN_DLCI)
    rng.shuffle(pool)
    main, other = pool[0], pool[1]
    regs = [main, other]
    ops = [("reg", d) for d in regs]
    n = rng.choice([255, 256, 257, 300, 520])
    for k in range(n):
        ops.append(("send", main, payload(rng, rng.choice([0, 1, 2, 3]))))
        if k in (0, n // 2, n - 1):
            ops.append(("send", other, payload(rng, 2)))
    total = sum(len(frame(o[1], o[2])) for o in ops if o[0] == "send")
    ops.append(("loop", total + 3))
    return dict(kind="e2e", ops=ops, regs=regs, tags=set(["backlog"]))


def noise(rng, n):
    o = []
    while len(o) < n:
        b = rng.choice(RICH) if rng.chance(1, 2) else rng.below(256)
        if b != FLAG:
            o.append(b)
    return o


def gen_rx(rng, cap, c, defect=None):
    """a stream of noise / frames / over-long frames fed to the receiver in chunks"""
    pool = list(KNOWN_DLCI) + [1, 2, 3, 127]
    rng.shuffle(pool)
    regs = pool[:rng.range(2, 6)]
    unreg = pool[6:]
    items, tags, nover = [], set(), 0
    want_over = rng.chance(2, 5) or defect == "noise"
    k = rng.range(1, 9)
    over_at = rng.below(k) if want_over else -1
    for j in range(k):
        if rng.chance(1, 2) and not (items and items[-1][0] == "over"):
            items.append(("noise", noise(rng, rng.choice([0, 1, 2, 3, 7, 30]))))
        if j == over_at or (want_over and nover < 2 and rng.chance(1, 8)):
            n = rng.choice([cap, cap + 1, cap + 2, cap + rng.range(1, 300), 2 * cap + 3])
            items.append(("over", rng.choice(regs), payload(rng, n)))
            nover += 1
            tags.add("over-exact" if n == cap else "over")
            if defect == "noise" and n > cap:
                items.append(("noise", noise(rng, rng.choice([1, 2, 3, 9]))))
                tags.add("noise-after-overlong")
        else:
            big = rng.chance(1, 10) and nover + sum(1 for i in items if i[0] == "good" and len(i[2]) > 100) < 2
            n = rng.choice([cap - 2, cap - 1]) if big else plen(rng, cap, False)
            d = rng.choice(regs + regs + regs + unreg) if unreg else rng.choice(regs)
            items.append(("good", d, payload(rng, n)))
            if big:
                tags.add("big")
    if defect == "noise" and "noise-after-overlong" not in tags:
        items.insert(0, ("noise", noise(rng, 2)))
        items.insert(0, ("over", regs[0], payload(rng, cap + 1)))
        tags.add("noise-after-overlong")
    if rng.chance(1, 3):
        items.append(("noise", noise(rng, rng.range(0, 5))))
    octs = []
    for it in items:
        octs += it[1] if it[0] == "noise" else frame(it[1], it[2])
    ops = [("reg", d) for d in regs]
    i = 0
    while i < len(octs):
        n = rng.choice([1, 2, 5, 17, 100, 1000, len(octs)])
        ops.append(("feed", octs[i:i + n]))
        i += n
    return dict(kind="rx", ops=ops, regs=regs, items=items, tags=tags)


def gen_garbage(rng, cap, c):
    """arbitrary octets (flags, escapes, zeros at random) into the receiver: robustness + memory safety"""
    regs = [4, 5, 10] + [rng.below(129) for _ in range(3)]
    regs = sorted(set(regs) - {128})
    n = rng.choice([10, 100, 600, cap + 50, 3 * cap])
    p_flag = rng.choice([2, 10, 50, 400, 5000])
    octs = []
    for _ in range(n):
        r = rng.below(p_flag)
        octs.append(FLAG if r == 0 else (rng.choice(regs) if r == 1 else (rng.choice(RICH) if rng.chance(1, 3) else rng.below(256))))
    ops = [("reg", d) for d in regs] + [("feed", octs)]
    if rng.chance(1, 2):
        ops.append(("pull", 4))
    return dict(kind="garbage", ops=ops, regs=regs, tags=set())


def gen_reg(rng, cap, c):
    ds = [rng.choice([0, 4, 5, 127, 128, 129, 130, 200, 255, rng.below(256)]) for _ in range(rng.range(2, 10))]
    return dict(kind="reg", ops=[("reg", d) for d in ds], regs=[], tags=set())


def gen_echo(rng, cap, c):
    """the echo DLCI set up by sercomm_init: a frame received on it is queued for transmission again"""
    ps = [payload(rng, plen(rng, cap, False)) for _ in range(rng.range(1, 4))]
    octs = []
    for p in ps:
        octs += noise(rng, rng.below(3)) + frame(c["SC_DLCI_ECHO"], p)
    ops = [("reg", 5)]
    if rng.chance(1, 2):
        # a second registration on a DLCI that already has a handler (the echo DLCI, DLCI 5) is refused with -EBUSY and must
        # leave the handler that is registered in place: the frames below still come back as echoes
        ops += [("reg", c["SC_DLCI_ECHO"]), ("reg", 5)]
    ops += [("feed", octs), ("pull", len(octs) + 4)]
    return dict(kind="echo", ops=ops, regs=[5], echo=ps, tags=set())


# ------------------------------------------------------------------ driver glue: osmocon handle_sercomm_write()

DRV_MAX = 256                              # specification side: at most this many octets per write
DRV_DLCI = KNOWN_DLCI + [1, 2, 3, 127]     # never 0 / 0x7D / 0x7E (recorded finding c06-dlci-needs-escape)
DRV_SIZES = [0, 1, 200, 251, 252, 253, 254, 255, 256, 257, 258, 400, 2000]


def encode_drv(ops):
    s = []
    for op in ops:
        if op[0] == "send":
            s += [1, op[1], len(op[2])] + list(op[2])
        elif op[0] == "calls":
            s += [6, op[1]]
        elif op[0] == "drain":
            s += [7]
    return s


def decode_drv(script):
    ops, i = [], 0
    while i < len(script):
        t = script[i]
        if t == 1 and i + 2 < len(script):
            n = script[i + 2]
            ops.append(("send", script[i + 1], script[i + 3:i + 3 + n])); i += 3 + n
        elif t == 6 and i + 1 < len(script):
            ops.append(("calls", script[i + 1])); i += 2
        elif t == 7:
            ops.append(("drain",)); i += 1
        else:
            break
    return ops


def drv_payload(rng, n):
    r = rng.below(4)
    if r == 0:
        return [0x41 + (k % 23) for k in range(n)]           # no escapes: the framed length is n + 4
    if r == 1:
        return [(k * 7 + 1) % 256 for k in range(n)]
    return payload(rng, n)


def gen_drv(rng, cap, c, fixed=None):
    """messages queued (several back to back on different DLCIs), then the real handle_sercomm_write is called
    until it disables write polling; in a part of the cases some calls happen between the sends"""
    ops = []
    if fixed is not None:
        for k, n in enumerate(fixed):
            ops.append(("send", DRV_DLCI[(k * 3 + len(fixed)) % len(DRV_DLCI)], [0x41 + ((j + k) % 23) for j in range(n)]))
        ops.append(("drain",))
        return dict(kind="drv", ops=ops, regs=sorted(set(o[1] for o in ops if o[0] == "send")), tags=set(["fixed"]))
    inter = rng.chance(1, 3)
    nbig = 0
    for _ in range(rng.range(1, 7)):
        r = rng.below(10)
        if r < 5 and nbig < 3:
            n = rng.choice(DRV_SIZES)
        elif r < 7:
            n = rng.range(240, 270)
        else:
            n = rng.range(0, 40)
        n = min(n, cap - 1)
        nbig += n >= 2000
        ops.append(("send", rng.choice(DRV_DLCI), drv_payload(rng, n)))
        if inter and rng.chance(1, 2):
            ops.append(("calls", rng.choice([1, 1, 2, 3])))
    ops.append(("drain",))
    if rng.chance(1, 6):
        ops.append(("calls", 1))                                # a call with nothing pending: writes nothing, reports end
    return dict(kind="drv", ops=ops, regs=sorted(set(o[1] for o in ops if o[0] == "send")),
                tags=set(["interleaved"] if inter else []))


class RefTx:
    """reference transmit side (from the property text): non-preemptive, lowest DLCI first, FIFO per DLCI"""
    def __init__(self):
        self.pending, self.infl, self.pos, self.started = [], [], 0, []

    def send(self, d, p):
        self.pending.append((d, list(p)))

    def pull(self):
        if self.pos < len(self.infl):
            self.pos += 1
            return self.infl[self.pos - 1]
        if self.pending:
            i = min(range(len(self.pending)), key=lambda k: (self.pending[k][0], k))
            d, p = self.pending.pop(i)
            self.started.append((d, p))
            self.infl, self.pos = frame(d, p), 1
            return self.infl[0]
        return None

    def idle(self):
        return self.pos >= len(self.infl) and not self.pending


def parse_drv_obs(o):
    calls, i = [], 0
    while i < len(o):
        if o[i] == 7 and i + 2 < len(o) + 0 and o[i + 2] >= 0 and i + 3 + o[i + 2] <= len(o):
            n = o[i + 2]
            calls.append((o[i + 1], o[i + 3:i + 3 + n])); i += 3 + n
        else:
            return calls, o[i:i + 8]
    return calls, None


def ref_drv(ops):
    """what the driver glue has to do: per call, write the pending octets in order, at most DRV_MAX of them, and
    report end exactly when the transmit side ran dry during this call"""
    tx, calls = RefTx(), []

    def one():
        ch = []
        while len(ch) < DRV_MAX:
            b = tx.pull()
            if b is None:
                calls.append((1, ch))
                return 1
            ch.append(b)
        calls.append((0, ch))
        return 0
    for op in ops:
        if op[0] == "send":
            tx.send(op[1], op[2])
        elif op[0] == "calls":
            for _ in range(op[1]):
                one()
        elif op[0] == "drain":
            while not one():
                pass
    return calls, tx


def oracle_drv(ctx, cs, obs, delivered, cap):
    full = dict(kind="drv", script=cs["script"], tags=sorted(cs["tags"]), regs=list(cs["regs"]))

    def fail(what, key, expected=None, observed=None):
        n = ctx.hist.get("oracle_fail:" + key, 0) + ctx.hist.get("oracle_fail_more:" + key, 0)
        if n >= 6:
            ctx.count("oracle_fail_more:" + key)
            return
        ctx.oracle_fail(what, full, key=key, expected=expected, observed=observed)

    calls, junk = parse_drv_obs(obs)
    if junk is not None:
        fail("handle_sercomm_write: unparsable observation / more than one write() per call / short write", "c06-drv-obs", observed=junk)
        return
    for e, ch in calls:
        if len(ch) > DRV_MAX:
            fail("handle_sercomm_write wrote %d octets in one call (more than its buffer)" % len(ch), "c06-drv-chunk-size", observed=len(ch))
            break
    exp, tx = ref_drv(cs["ops"])
    got_stream = [b for _, ch in calls for b in ch]
    exp_stream = [b for _, ch in exp for b in ch]
    if got_stream != exp_stream:
        k = next((i for i in range(min(len(got_stream), len(exp_stream))) if got_stream[i] != exp_stream[i]),
                 min(len(got_stream), len(exp_stream)))
        fail("octets written by repeated handle_sercomm_write calls are not the pulled frame stream: %d written, %d expected, "
             "first deviation at octet %d (an octet pulled from sercomm was lost, duplicated or reordered)" % (len(got_stream), len(exp_stream), k),
             "c06-drv-stream", expected=exp_stream[max(0, k - 6):k + 6], observed=got_stream[max(0, k - 6):k + 6])
    elif [(e, len(ch)) for e, ch in calls] != [(e, len(ch)) for e, ch in exp]:
        fail("chunking / end flag of handle_sercomm_write: write polling must be disabled exactly by the call that finds the queues drained",
             "c06-drv-end", expected=[(e, len(ch)) for e, ch in exp][:20], observed=[(e, len(ch)) for e, ch in calls][:20])
    # independent end-to-end judgement: the written octets went through the REAL receiver (second harness run)
    if delivered is not None:
        if not tx.idle():
            fail("reference still has octets pending after the final drain", "c06-drv-end")
        want = [(d, p) for d, p in tx.started]
        if delivered != want:
            k = next((i for i in range(min(len(delivered), len(want))) if delivered[i] != want[i]), min(len(delivered), len(want)))
            fail("feeding the octets written by handle_sercomm_write into the real receiver does not deliver every queued message "
                 "intact, exactly once, lower DLCI first / FIFO: first deviation at message %d" % k, "c06-drv-delivery",
                 expected=[(d, len(p)) for d, p in want], observed=[(d, len(p)) for d, p in delivered])


def drv_behaviour_key(cs, obs):
    calls, _ = parse_drv_obs(obs)
    total = sum(len(ch) for _, ch in calls)
    sends = [o for o in cs["ops"] if o[0] == "send"]
    escs = any(b in (FLAG, ESC, 0) for o in sends for b in o[2])
    prio = any(sends[i][1] > sends[i + 1][1] for i in range(len(sends) - 1))
    return ("drv", tuple(sorted(cs["tags"])), min(len(calls), 5), total % DRV_MAX == 0, total > DRV_MAX, min(len(sends), 3), escs, prio)


def gen_cases(ctx, cap, c):
    rng = ctx.rng
    q = ctx.tier == "quick"
    plan = [(gen_tx, 140 if q else 2500, {}), (gen_e2e, 140 if q else 2500, {}), (gen_rx, 170 if q else 3000, {}),
            (gen_garbage, 50 if q else 600, {}), (gen_reg, 10 if q else 60, {}), (gen_echo, 15 if q else 150, {}),
            (gen_e2e, 10 if q else 60, dict(defect="dlci")), (gen_rx, 10 if q else 60, dict(defect="noise")), (gen_backlog, 4 if q else 30, {})]
    cases = []
    for g, n, kw in plan:
        r = rng.fork(g.__name__ + str(sorted(kw.items())))
        for _ in range(n):
            cs = g(r, cap, c, **kw)
            cs["script"] = encode(cs["ops"])
            cases.append(cs)
    r = rng.fork("gen_drv")
    for fixed in [[n] for n in DRV_SIZES] + [[252, 252], [253, 0], [1, 254, 1], [400, 400, 400], [2000, 258, 0, 257], [255, 256, 257, 258, 254]]:
        cs = gen_drv(r, cap, c, fixed=fixed)
        cs["script"] = encode_drv(cs["ops"])
        cases.append(cs)
    for _ in range(60 if q else 1500):
        cs = gen_drv(r, cap, c)
        cs["script"] = encode_drv(cs["ops"])
        cases.append(cs)
    cases.append(dict(kind="drv-malformed", ops=[], regs=[], tags=set(), script=[1, 5, 3, 1]))
    cases.append(dict(kind="drv-malformed", ops=[], regs=[], tags=set(), script=[6, 65]))
    # a malformed script (tie robustness): both sides must answer -999
    cases.append(dict(kind="malformed", ops=[], regs=[], tags=set(), script=[4, 5, 7, 1]))
    cases.append(dict(kind="malformed", ops=[], regs=[], tags=set(), script=[3, 5, 1, 2]))
    return cases


# ------------------------------------------------------------------ implementation runs

def run_impl(ctx, binp, lines):
    """feeds all script lines to the harness; a crash / sanitizer report ends the process: the script in
    flight is recorded and the rest is run in a fresh process. Returns (observations, crashes{index: text})"""
    res, crashes = [], {}
    start = 0
    while start < len(lines):
        p = subprocess.run([binp], input="\n".join(lines[start:]) + "\n", stdout=subprocess.PIPE, stderr=subprocess.PIPE,
                           text=True, timeout=1200, env=c_env())
        outl = p.stdout.split("\n")
        complete = outl[:-1]
        got = 0
        for l in complete:
            if l.startswith("!PANIC"):
                crashes[start + got - 1] = l
                continue
            if start + got >= len(lines):
                break
            res.append([int(x) for x in l.split()])
            got += 1
        if p.returncode == 0 and start + got == len(lines):
            break
        if p.returncode == 3 and (start + got - 1) in crashes:
            start = start + got          # panic line was complete; continue after it
            continue
        # crash in the middle of script number start+got
        partial = outl[-1] if outl else ""
        try:
            obs = [int(x) for x in partial.split()]
        except ValueError:
            obs = []
        res.append(obs + [-777])
        crashes[start + got] = (p.stderr or "")[-1500:] or "rc=%d" % p.returncode
        start = start + got + 1
    return res, crashes


# ------------------------------------------------------------------ oracle: the property on the implementation's observations

def oracle(ctx, cs, obs, cap, c):
    evs = parse_obs(obs)
    kind = cs["kind"]
    tags = cs["tags"]
    small = dict(kind=kind, script=cs["script"] if len(cs["script"]) <= 400 else cs["script"][:400] + ["...(%d ints)" % len(cs["script"])],
                 tags=sorted(tags))
    full = dict(kind=kind, script=cs["script"], tags=sorted(tags), regs=list(cs["regs"]))
    if "items" in cs:
        full["items"] = [list(it) for it in cs["items"]]
    if "echo" in cs:
        full["echo"] = cs["echo"]

    def fail(what, key, expected=None, observed=None):
        # the framework keeps at most 50 failures: keep a few per key so that no key can crowd out another
        n = ctx.hist.get("oracle_fail:" + key, 0) + ctx.hist.get("oracle_fail_more:" + key, 0)
        if n >= 6:
            ctx.count("oracle_fail_more:" + key)
            return
        ctx.oracle_fail(what, full if len(cs["script"]) <= 6000 else small, key=key, expected=expected, observed=observed)

    def defect_key(default):
        if "dlci-needs-escape" in tags:
            return "c06-dlci-needs-escape"
        if "noise-after-overlong" in tags:
            return "c06-noise-after-overlong"
        return default

    if any(e[0] in ("abort", "bad") for e in evs):
        fail("MSGB_ABORT / unparsable observation", "c06-abort", observed=obs[-20:])
        return
    msgs = [(e[1], e[2]) for e in evs if e[0] == "msg"]
    # memory safety, observable part: nothing longer than the buffer is ever handed to a handler
    for d, p in msgs:
        if len(p) >= cap:
            fail("dispatched payload not shorter than the receive buffer", "c06-rx-overflow", observed=(d, len(p)))
    # transmit side: octets pulled = prefix of the frames in (non-preemptive, lowest DLCI first, FIFO) order
    if kind in ("tx", "e2e"):
        exp, started, drained = ref_tx(cs["ops"])
        got = [e[1] if e[0] == "ch" else None for e in evs if e[0] in ("ch", "empty")]
        if got != exp:
            k = next((i for i in range(min(len(got), len(exp))) if got[i] != exp[i]), min(len(got), len(exp)))
            fail("pulled octets deviate from the frames in priority/FIFO order at octet %d" % k, "c06-tx-order",
                 expected=exp[max(0, k - 8):k + 8], observed=got[max(0, k - 8):k + 8])
        # no raw flag / zero inside a frame: flags alternate open/close exactly at the frame boundaries of exp
        for b in got:
            if b == 0:
                fail("zero octet on the wire", "c06-raw-zero")
                break
    if kind == "e2e":
        # every message sent was started and completed (final drain); the wire order is the reference order
        sent = [(o[1], o[2]) for o in cs["ops"] if o[0] == "send"]
        if sorted(started) != sorted(sent) or not drained:
            fail("not every sent message was transmitted", "c06-tx-order")
        items = [("good" if len(p) < cap else "over", d, p) for (d, p) in started]
        bad = check_stream(items, set(cs["regs"]), msgs, cap)
        if bad:
            fail(bad, defect_key("c06-delivery"), expected=[(d, len(p)) for d, p in started], observed=[(d, len(p)) for d, p in msgs])
    if kind == "rx":
        bad = check_stream(cs["items"], set(cs["regs"]), msgs, cap)
        if bad:
            fail(bad, defect_key("c06-stream"), expected=[(it[1], len(it[2])) for it in cs["items"] if it[0] != "noise"],
                 observed=[(d, len(p)) for d, p in msgs])
    if kind == "echo":
        got = [e[1] for e in evs if e[0] == "ch"]
        exp = []
        for p in cs["echo"]:
            exp += frame(c["SC_DLCI_ECHO"], p)
        if got != exp:
            fail("echo DLCI does not send back the received messages", "c06-echo", expected=exp[:40], observed=got[:40])
    if kind == "reg":
        seen = {c["SC_DLCI_ECHO"]}
        exp = []
        for o in cs["ops"]:
            d = o[1]
            if d >= 129:
                exp.append(22)
            elif d in seen:
                exp.append(16)
            else:
                exp.append(0); seen.add(d)
        got = [e[1] for e in evs if e[0] == "reg"]
        if got != exp:
            fail("sercomm_register_rx_cb return codes", "c06-register", expected=exp, observed=got)


def check_stream(items, regs, msgs, cap):
    """the property on a wire stream: every in-size frame on a DLCI with a handler is delivered exactly once, in
    order, unchanged; noise is ignored; only the frame directly following an over-long frame may be missing;
    nothing else is delivered"""
    allowed, after_over, prev_over = [], [], False
    for it in items:
        if it[0] == "noise":
            continue                     # to be ignored: the next frame still is "the one frame that follows"
        if it[0] == "good":
            if it[1] in regs:
                allowed.append((it[1], it[2]))
                after_over.append(prev_over)
            prev_over = False
        else:
            prev_over = True
    j = 0
    for f, ao in zip(allowed, after_over):
        if j < len(msgs) and msgs[j] == tuple(f):
            j += 1
        elif not ao:
            return "frame (dlci %d, %d octets) not delivered although no over-long frame precedes it directly" % (f[0], len(f[1]))
    if j != len(msgs):
        return "delivery (dlci %d, %d octets) that is not a frame of the stream" % (msgs[j][0], len(msgs[j][1]))
    return None


def behaviour_key(cs, obs):
    evs = parse_obs(obs)
    nmsg = sum(1 for e in evs if e[0] == "msg")
    novf = sum(1 for e in evs if e[0] == "ovf")
    escs = any(b in (FLAG, ESC, 0) for o in cs["ops"] if o[0] == "send" for b in o[2])
    inter = any(o[0] in ("pull", "loop") and 0 < o[1] < 50 for o in cs["ops"][:-1])
    sends = [o[1] for o in cs["ops"] if o[0] == "send"]
    prio = any(sends[i] > sends[i + 1] for i in range(len(sends) - 1))
    return (cs["kind"], tuple(sorted(cs["tags"])), min(nmsg, 4), min(novf, 3), escs, inter, prio)


def run(ctx):
    binp, c = gen(ctx)
    cap = c["rx_tailroom"]
    ctx.prove()
    if ctx.tier == "thorough":
        ctx.coqchk()
    if ctx.replay:
        import json
        with open(ctx.replay) as f:
            rp = json.load(f)
        rc = rp.get("case", {}) if isinstance(rp.get("case"), dict) else {}
        sc = rc.get("script")
        cases = []
        if isinstance(sc, list) and all(isinstance(x, int) for x in sc):
            cs = dict(kind=rc.get("kind", "replay"), ops=decode(sc), regs=rc.get("regs", []), tags=set(rc.get("tags", [])), script=sc)
            if cs["kind"] == "drv":
                cs["ops"] = decode_drv(sc)
            if "items" in rc:
                cs["items"] = [tuple(it) for it in rc["items"]]
            if "echo" in rc:
                cs["echo"] = rc["echo"]
            if cs["kind"] == "rx" and "items" not in cs:
                cs["kind"] = "replay"
            cases = [cs]
        ctx.note("replay: %d script(s) from %s" % (len(cases), ctx.replay))
    else:
        cases = gen_cases(ctx, cap, c)
    lines = [("w_c06_drv " if cs["kind"].startswith("drv") else "w_c06_script ") + " ".join(map(str, cs["script"])) for cs in cases]
    impl, crashes = run_impl(ctx, binp, lines)
    for k, txt in sorted(crashes.items())[:6]:
        cs = cases[k]
        ctx.oracle_fail("harness crash / sanitizer report / panic on this script: " + txt[-600:],
                        dict(kind=cs["kind"], script=cs["script"][:6000], tags=sorted(cs["tags"])), key="c06-crash")
    if len(crashes) > 6:
        ctx.count("oracle_fail_more:c06-crash", len(crashes) - 6)
    idx = [k for k in range(len(cases)) if not cases[k]["kind"].startswith("drv")]
    ctx.correspond("sercomm-script", "Sercomm", idx, lambda k: lines[k], lambda k: impl[k],
                   show=lambda k: dict(kind=cases[k]["kind"], script=cases[k]["script"][:3000]))
    didx = [k for k in range(len(cases)) if cases[k]["kind"].startswith("drv")]
    if didx:
        ctx.correspond("sercomm-drv", "Sercomm", didx, lambda k: lines[k], lambda k: impl[k],
                       show=lambda k: dict(kind=cases[k]["kind"], script=cases[k]["script"][:3000]))
    # driver glue: the octets written by the real handle_sercomm_write go through the real receiver (second run)
    dk = [k for k in didx if cases[k]["kind"] == "drv" and cases[k]["ops"] and k not in crashes]
    lines2 = []
    for k in dk:
        calls, _ = parse_drv_obs(impl[k])
        octs = [b for _, ch in calls for b in ch if 0 <= b <= 255]
        lines2.append("w_c06_script " + " ".join(map(str, encode([("reg", d) for d in cases[k]["regs"]] + [("feed", octs)]))))
    impl2, crashes2 = run_impl(ctx, binp, lines2) if lines2 else ([], {})
    for j, k in enumerate(dk):
        cs = cases[k]
        if j in crashes2:
            ctx.oracle_fail("receiver crash on the octets written by handle_sercomm_write: " + crashes2[j][-400:],
                            dict(kind="drv", script=cs["script"][:6000], tags=sorted(cs["tags"]), regs=list(cs["regs"])), key="c06-crash")
            continue
        final_drain = cs["ops"][-1][0] == "drain" or (len(cs["ops"]) > 1 and cs["ops"][-2][0] == "drain" and cs["ops"][-1][0] == "calls")
        delivered = [(e[1], e[2]) for e in parse_obs(impl2[j]) if e[0] == "msg"] if final_drain else None
        oracle_drv(ctx, cs, impl[k], delivered, cap)
        ctx.nontrivial(drv_behaviour_key(cs, impl[k]))
        ctx.count("kind:drv")
        ctx.count("drv_calls", len(parse_drv_obs(impl[k])[0]))
    for k, cs in enumerate(cases):
        if cs["kind"] in ("malformed", "replay") or cs["kind"].startswith("drv") or not cs["ops"]:
            continue
        oracle(ctx, cs, impl[k], cap, c)
        ctx.nontrivial(behaviour_key(cs, impl[k]))
        ctx.count("kind:" + cs["kind"])
    step = max(1, len(cases) // 6)
    for k in range(0, len(cases), step):
        cs = cases[k]
        ctx.sample(dict(kind=cs["kind"], script=cs["script"][:60], observation=impl[k][:60]))
    ctx.extra["octets_through_impl"] = sum(len(cs["script"]) for cs in cases)
    ctx.extra["rule"] = ("op scripts (send d payload / pull k / feed octets / register d / loopback k) from ctx.rng: Tx interleavings on all queue "
                         "indices incl. 0/125/126, Tx->Rx loopback with recording handlers, Rx streams of flag-free noise + frames + over-long frames "
                         "(payload lengths {0,1,2,0..40,cap-2,cap-1,cap,cap+1,cap+k,2cap+3}, octets half from {7E,7D,00,5E,5D,20}), random garbage incl. flags, "
                         "register codes, echo DLCI, two malformed scripts; driver glue (w_c06_drv): the real handle_sercomm_write() text extracted from "
                         "osmocon.c, messages of {0,1,200,251..258,400,2000,240..270,0..40} octets queued back to back on DLCIs {1,2,3,4,5,9,10,127}, optionally "
                         "1-3 calls between sends, then calls until write polling is disabled; written octets re-fed into the real receiver; distinct_nontrivial = distinct (kind, tags, #deliveries, #overflows, payload needs escaping, "
                         "partial pulls interleaved, priority inversion in send order)")
