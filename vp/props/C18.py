"""C18 - burst-loss simulation (FAKE_DROP, RFMUTE, NOPE indications). Model: Model/Trx.v; theorems: Props/C18.v.
Tie: Gen (fake_trx constants) + correspondence of whole sessions on the real Application with the extracted session model
+ an independent reference of the property on the observed datagrams."""
from .. import common, session_check as SC, session_wire as W

F1, F2 = 935000, 890000


def gen(ctx):
    SC.gen_all(ctx)


def make_script(rng, n_ops):
    vers = [rng.below(2), rng.below(2)]
    ops = [("ctrl", 0, W.cmd("CMD RXTUNE %d" % F2)), ("ctrl", 0, W.cmd("CMD TXTUNE %d" % F1)),
           ("ctrl", 1, W.cmd("CMD RXTUNE %d" % F1)), ("ctrl", 1, W.cmd("CMD TXTUNE %d" % F2))]
    for i in (0, 1):
        ops.append(("ctrl", i, W.cmd("CMD SETFORMAT %d" % vers[i])))
        ops.append(("ctrl", i, W.cmd("CMD POWERON")))
    fn = rng.choice([0, 1000, 2715600, rng.below(W.H)])
    for _ in range(n_ops):
        w = rng.below(10)
        if w < 2:
            i = rng.below(2)
            n = rng.choice([-2, -1, 0, 1, 2, 3, 5, 8])
            if rng.chance(1, 2):
                ops.append(("ctrl", i, W.cmd("CMD FAKE_DROP %d" % n)))
            else:
                ops.append(("ctrl", i, W.cmd("CMD FAKE_DROP %d %d" % (n, rng.choice([-1, 0, 1, 2, 3, 4, 13])))))
        elif w < 3:
            ops.append(("ctrl", rng.below(2), W.cmd("CMD RFMUTE %d" % rng.choice([0, 0, 1, 1, 2, -1]))))
        elif w < 4 and rng.chance(1, 3):
            i = rng.below(2)
            vers[i] = rng.below(2)
            ops.append(("ctrl", i, W.cmd("CMD SETFORMAT %d" % vers[i])))
        else:
            # a burst (sometimes two, from both sides) for the next tick, then the tick
            for _ in range(1 + rng.below(2)):
                i = rng.below(2)
                # mostly for the frame ticked next, sometimes queued AHEAD of the clock (the L1 submits bursts early): FAKE_DROP / RFMUTE
                # commands arriving while a burst waits in the queue change what happens to it in ITS frame, never the queue itself
                ahead = rng.choice([0, 0, 0, 1, 2, 3])
                ops.append(("data", i, W.tx_datagram(vers[i], (fn + ahead) % W.H, rng.below(8), rng.choice([0, 5, 20]), W.rand_burst(rng, rng.choice([148, 148, 444])))))
            if rng.chance(1, 3):
                ops.append(("ctrl", rng.below(2), W.cmd("CMD RFMUTE %d" % rng.below(2))))
            ops.append(("tick", fn))
            fn = (fn + rng.choice([1, 1, 1, 1, 1, 2, 3])) % W.H
        if rng.chance(1, 12):
            ops.append(("ctrl", rng.below(2), W.rejected_cmd(rng)))      # refused / ignored: counter, period, mute and version stay as they are
    ops.append(("state",))
    return [], ops


def oracle(ctx, script, real):
    """independent reference of C18 on the observations of one session (2 transceivers, always tuned to each other)"""
    defs, ops = script
    cfg, obs, events = real
    st = [dict(ver=0, muted=False, amount=0, period=1, run=False, q=[]) for _ in range(2)]
    for e in events:
        op = e["op"]
        if op[0] == "ctrl":
            i = op[1]
            toks = bytes(op[2]).decode().strip("\0").split(" ")[1:]
            verb, args = toks[0], [int(a) for a in toks[1:]]
            rsp = bytes(e["obs"][3:]).decode().strip("\0").split(" ") if e["obs"][1] == 1 else None
            status = int(rsp[2]) if rsp else None
            if verb == "FAKE_DROP":
                bad = args[0] < 0 or (len(args) > 1 and args[1] <= 0)
                if (status == -1) != bad or status not in (0, -1):
                    ctx.oracle_fail("FAKE_DROP answered %s for arguments %s" % (status, args), dict(ops=[SC.describe(o) for o in ops]), key="c18-fake-drop-status")
                if not bad:
                    st[i]["amount"], st[i]["period"] = args[0], (args[1] if len(args) > 1 else 1)
            elif verb == "RFMUTE":
                st[i]["muted"] = args[0] > 0
            elif verb == "SETFORMAT" and len(args) == 1 and args[0] >= 0 and status == args[0]:      # applied (a refusal answers -1 or a lower version)
                st[i]["ver"] = args[0]
            elif verb == "POWERON" and status == 0:
                st[i]["run"] = True
        elif op[0] == "data":
            i = op[1]
            if e["obs"] == [2, 1]:
                st[i]["q"].append((op[2][1] << 24 | op[2][2] << 16 | op[2][3] << 8 | op[2][4], len(op[2]) - 6, op[2][0] & 7))
        elif op[0] == "tick":
            fn = op[1]
            expect = []   # (dst, kind) in emission order
            for i in (0, 1):
                due = [m for m in st[i]["q"] if (m[0] - fn) % W.H == 0]
                st[i]["q"] = [m for m in st[i]["q"] if 0 < (m[0] - fn) % W.H < W.H // 2]
                j = 1 - i
                for m in due:
                    if st[j]["muted"] or st[i]["muted"]:
                        sup = True
                    elif st[j]["amount"] != 0 and fn % st[j]["period"] == 0:
                        sup = True
                        st[j]["amount"] -= 1
                    else:
                        sup = False
                    ctx.nontrivial(("burst", sup, st[j]["ver"], st[j]["muted"], st[i]["muted"], st[j]["period"] > 1, st[j]["amount"] > 0))
                    if sup and st[j]["ver"] == 0:
                        continue
                    expect.append((j, "nope" if sup else "burst", m))
            got = []
            for src, j, d, remote in e["log"]:
                ver = d[0] >> 4
                if ver >= 1:
                    nope = bool(d[8] & 0x80)
                    kind = "nope" if nope else "burst"
                    if nope and not (len(d) == 11 and d[5] == 110 and d[6:8] == bytes([0, 0]) and d[9:11] == (-30 & 0xffff).to_bytes(2, "big")):
                        ctx.oracle_fail("NOPE indication does not have the noise-level shape", dict(datagram=list(d), ops=[SC.describe(o) for o in ops]), key="c18-nope-shape")
                else:
                    kind = "burst"
                got.append((j, kind))
            if [(j, k) for j, k, _ in expect] != got:
                ctx.oracle_fail("bursts reaching the recipients at a tick differ from the FAKE_DROP / RFMUTE pattern",
                                dict(tick=fn, expected=[(j, k) for j, k, _ in expect], observed=got, ops=[SC.describe(o) for o in ops]),
                                key="c18-drop-pattern", expected=[(j, k) for j, k, _ in expect], observed=got)
    # final counters
    final = events[-1].get("state")
    if final:
        for i in (0, 1):
            sim = final[0][i]["sim"]
            if (sim[11], sim[12], bool(sim[0])) != (st[i]["amount"], st[i]["period"], st[i]["muted"]):
                ctx.oracle_fail("final drop counter / period / mute differ from the reference", dict(trx=i, observed=sim[11:13], expected=(st[i]["amount"], st[i]["period"]),
                                ops=[SC.describe(o) for o in ops]), key="c18-final-counter")


def run(ctx):
    gen(ctx)
    ctx.prove()
    if ctx.tier == "thorough":
        ctx.coqchk()
    rng = ctx.rng
    n = 120 if ctx.tier == "quick" else 4000
    scripts = [make_script(rng, rng.range(20, 90)) for _ in range(n)]
    reals = SC.run_scripts(ctx, "session", scripts)
    for s, r in zip(scripts, reals):
        oracle(ctx, s, r)
        W.refused_leaves_no_trace(ctx, s, r, "c18")
    # fan-out: one sender, several recipients tuned to it, each with its own drop counter / mute flag / header version - every
    # recipient must see exactly ITS pattern (generator and routing oracle shared with C02: the oracle applies each recipient's
    # own counter, period and mute state per burst)
    from . import C02 as _C02
    fan = [_C02.fanout_script(rng) for _ in range(40 if ctx.tier == "quick" else 1500)]
    freals = SC.run_scripts(ctx, "fanout-session", fan)
    for s, r in zip(fan, freals):
        _C02.oracle(ctx, s, r)
        W.refused_leaves_no_trace(ctx, s, r, "c18")
    # one FAKE_DROP / RFMUTE command on the socket thread racing the tick in which the recipient decides about a burst, on two real
    # threads (vp/sched_driver.run_drop_race; preemption where the code calls out to logging / takes a lock).  Whatever the schedule,
    # the outcome must be that of ONE of the two serial orders (command first, or burst first)
    import itertools
    from .. import sched_driver as SD

    def serial(ver, pend, cmd_text, fn, first):
        amount, period, muted = pend[0], pend[1], False
        toks = cmd_text.split(" ")[1:]
        a = [int(x) for x in toks[1:]]

        def do_cmd():
            nonlocal amount, period, muted
            if toks[0] == "FAKE_DROP":
                if a[0] >= 0 and (len(a) < 2 or a[1] > 0):
                    amount, period = a[0], (a[1] if len(a) > 1 else 1)
            elif toks[0] == "RFMUTE":
                muted = a[0] > 0

        def do_burst():
            nonlocal amount
            if muted:
                sup = True
            elif amount != 0 and fn % period == 0:
                sup, amount = True, amount - 1
            else:
                sup = False
            return [] if (sup and ver == 0) else [(1 if sup else 0, fn)]
        if first == "cmd":
            do_cmd(); got = do_burst()
        else:
            got = do_burst(); do_cmd()
        return (amount, period, muted, tuple(got))
    nrace = 0
    for cmd_text in ("CMD FAKE_DROP 5", "CMD FAKE_DROP 0", "CMD FAKE_DROP 2 3", "CMD FAKE_DROP 4 5", "CMD FAKE_DROP -1", "CMD FAKE_DROP 1 0", "CMD RFMUTE 1", "CMD RFMUTE 0"):
        for ver in (0, 1):
            for pend in ((3, 1), (1, 1), (2, 4), (0, 1)):
                scheds = list(itertools.product((0, 1), repeat=7)) if ctx.tier == "thorough" else [tuple(rng.below(2) for _ in range(7)) for _ in range(10)] + [(1, 1, 1, 0, 0, 0, 0), (1, 1, 0, 0, 0, 0, 0), (0,) * 7, (1,) * 7]
                ok = {serial(ver, pend, cmd_text, 12, "cmd"), serial(ver, pend, cmd_text, 12, "burst")}
                for sched in scheds:
                    ctx.in_flight = ("drop-race", cmd_text, ver, pend, sched)
                    am, per, mu, got, reply, trace, states = SD.run_drop_race(12, ver, pend, cmd_text, list(sched))
                    nrace += 1
                    obs = (am, per, mu, tuple(got))
                    if states[0][0] != "done" or states[1][0] != "done" or obs not in ok:
                        ctx.oracle_fail("a FAKE_DROP / RFMUTE command racing the clock tick that decides about a burst leaves a state no serial order of the two explains",
                                        dict(command=cmd_text, recipient_version=ver, pending=pend, fn=12, schedule=list(sched), trace=trace, thread_states=[list(x) for x in states]),
                                        key="c18-drop-race", expected=sorted(ok), observed=obs)
                        break
    ctx.count("drop_race_schedules", nrace)
    ctx.evaluations += nrace
    ctx.sample([SC.describe(o) for o in scripts[0][1][:14]])
    ctx.count("operations", sum(len(s[1]) for s in scripts))
    ctx.extra["rule"] = ("sessions of BTS+MS tuned to each other: FAKE_DROP n [p] (n in -2..8, p in -1..13), RFMUTE, SETFORMAT 0/1 on either side interleaved with bursts and ticks "
                         "(frame numbers with gaps, across the hyperframe wrap); whole-session observations compared with the extracted model; "
                         "distinct_nontrivial = distinct (suppressed?, recipient version, mute flags, period>1, counter>0) per burst")
