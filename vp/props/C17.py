"""C17 - TRXD PDU definitions v0/v1/v2 (trx_toolkit/trxd_proto.py) have the documented structure.
Model: the C16 embedding (Model/Codec.v); the six PDU definitions are NOT written by hand: Gen/TrxdProto.v is produced on
every run by reflecting on the imported trxd_proto objects (field classes, len, p, bit-field bl/val, order, nested items;
callbacks tabulated by probing).  Theorems: Props/C17.v (the hand-written side states the documented structure literally).
Tie: Gen + correspondence of the real PDUvN.from_bytes/to_bytes with the extracted C16 model run on the Gen definitions."""
import time

from .. import common
from .. import trxd_util as TU
from . import codec_builder as cb

# canonical numbering of field names (the hand-written Coq side states the same numbers); a name that is not listed
# gets the next free number, which makes the Gen = spec obligation fail
NAMES = ["ver", "tn", "fn", "rssi", "toa256", "soft-bits", "pad", "pwr", "hard-bits", "nope", "mod", "tsc", "cir",
         "batch", "shadow", "trxn", "scpir", "bpdu"]
PDUS = ["PDUv0Rx", "PDUv0Tx", "PDUv1Rx", "PDUv1Tx", "PDUv2Rx", "PDUv2Tx"]
COQ_NAME = {"PDUv0Rx": "pdu_v0_rx", "PDUv0Tx": "pdu_v0_tx", "PDUv1Rx": "pdu_v1_rx", "PDUv1Tx": "pdu_v1_tx",
            "PDUv2Rx": "pdu_v2_rx", "PDUv2Tx": "pdu_v2_tx"}


def modules():
    common.import_toolkit()
    import codec
    import trxd_proto
    return codec, trxd_proto


# ------------------------------------------------------------------ reflection: real objects -> AST with string names

class _Rec(dict):
    """dict that records which keys a callback reads"""
    def __init__(self, log, val):
        dict.__init__(self)
        self.log, self.val = log, val

    def __getitem__(self, k):
        self.log.append(k)
        return self.val

    def get(self, k, d=None):
        self.log.append(k)
        return self.val


def probe_len(f, unknown):
    """tabulate f.get_len: LFix n | LRest | LTab key table (probed over 0..15) | LDataLen thr a b (probed over len(data) 0..1024)"""
    log = []
    try:
        f.get_len(_Rec(log, 0), b"")
    except Exception:
        pass
    keys = sorted(set(log))
    if keys:
        if len(keys) != 1:
            raise RuntimeError("get_len of %r reads several keys %r: outside the embedding" % (f.name, keys))
        tab = []
        for m in range(16):
            try:
                tab.append((m, int(f.get_len({keys[0]: m}, b""))))
            except (ValueError, KeyError) as e:
                unknown.append((type(e).__name__, m))
        return ("LTab", keys[0], tab)
    vals = [f.get_len({}, bytes(n)) for n in range(1025)]
    if all(v == n for n, v in enumerate(vals)):
        return ("LRest",)
    if all(v == vals[0] for v in vals):
        return ("LFix", int(vals[0]))
    steps = [n for n in range(1, 1025) if vals[n] != vals[n - 1]]
    if len(steps) != 1:
        raise RuntimeError("get_len of %r is not a single threshold on len(data): steps at %r" % (f.name, steps[:8]))
    thr = steps[0] - 1
    return ("LDataLen", thr, int(vals[thr + 1]), int(vals[thr]))


def probe_pres(f):
    log = []
    try:
        r = f.get_pres(_Rec(log, 0))
    except Exception:
        r = None
    keys = sorted(set(log))
    if not keys:
        if r is not True:
            raise RuntimeError("get_pres of %r is constant but not True" % (f.name,))
        return ("PAlways",)
    if len(keys) != 1:
        raise RuntimeError("get_pres of %r reads several keys %r" % (f.name, keys))
    return ("PTab", keys[0], [(m, not (f.get_pres({keys[0]: m}) is False)) for m in (0, 1)])


def reflect_field(codec, f, unknown):
    if isinstance(f, codec.BitFieldSet):
        lsb = f.p["order"] in ("little", "lsb")
        fl = list(f._fields)
        if lsb:
            fl = fl[::-1]
        bfs = []
        for b in fl:
            if isinstance(b, codec.BitField.Spare):
                bfs.append(("BitF", None, int(b.bl), None))
            else:
                bfs.append(("BitF", b.name, int(b.bl), None if b.val is None else int(b.val)))
        if f.get_len({}, b"") != f.len:
            raise RuntimeError("BitFieldSet with a non-constant length")
        return ("FBits", ("LFix", int(f.len)), probe_pres(f), lsb, bfs)
    l = probe_len(f, unknown)
    p = probe_pres(f)
    if isinstance(f, codec.Uint):
        if l != ("LFix", f.len):
            raise RuntimeError("Uint %r with a length callback" % (f.name,))
        return ("FUint", f.name, l, p, f.BO == "little", bool(f.SIGN), int(f.p["offset"]), int(f.p["mult"]))
    if isinstance(f, codec.Spare):
        fl = f.p["filler"]
        if len(fl) != 1:
            raise RuntimeError("multi-octet filler")
        return ("FSpare", l, p, fl[0])
    if isinstance(f, codec.Buf):
        return ("FBuf", f.name, l, p)
    if isinstance(f, codec.Envelope.F):
        return ("FEnv", f.name, l, p, bool(f.e.check_len), reflect_env(codec, f.e, unknown))
    if isinstance(f, codec.Sequence.F):
        if f.s._item.check_len is not False:
            raise RuntimeError("sequence item with check_len on")
        return ("FSeq", f.name, l, p, reflect_env(codec, f.s._item, unknown))
    raise RuntimeError("field class outside the embedding: %r" % (type(f),))


def reflect_env(codec, e, unknown):
    return [reflect_field(codec, f, unknown) for f in e.STRUCT]


def reflect_all():
    """-> {class name: (check_len, AST with string names)}, sorted list of (exception, code) the length tables raise on"""
    codec, proto = modules()
    unknown = []
    out = {}
    for name in PDUS:
        obj = getattr(proto, name)()      # PDUv0Rx.__init__ patches the class-level field object: instantiate first
        out[name] = (bool(obj.check_len), reflect_env(codec, obj, unknown))
    return out, sorted(set(unknown))


# ------------------------------------------------------------------ names <-> numbers

def name_table(defs):
    tab = {n: i for i, n in enumerate(NAMES)}

    def walk(fs):
        for f in fs:
            if f[0] == "FBits":
                for bf in f[4]:
                    if bf[1] is not None and bf[1] not in tab:
                        tab[bf[1]] = len(tab)
            elif f[0] != "FSpare":
                if f[1] not in tab:
                    tab[f[1]] = len(tab)
            for s in (f[2] if f[0] != "FSpare" and f[0] != "FBits" else f[1], f[3] if f[0] != "FSpare" and f[0] != "FBits" else f[2]):
                if s[0] in ("LTab", "PTab") and s[1] not in tab:
                    tab[s[1]] = len(tab)
            if f[0] in ("FEnv", "FSeq"):
                walk(f[-1])
    for _, fs in defs.values():
        walk(fs)
    return tab


def number(fs, tab):
    """AST with string names -> AST with numbers (the shape codec_builder serialises)"""
    def src(s):
        return (s[0], tab[s[1]], s[2]) if s[0] in ("LTab", "PTab") else s
    out = []
    for f in fs:
        k = f[0]
        if k == "FUint":
            out.append((k, tab[f[1]], src(f[2]), src(f[3])) + tuple(f[4:]))
        elif k == "FBuf":
            out.append((k, tab[f[1]], src(f[2]), src(f[3])))
        elif k == "FSpare":
            out.append((k, src(f[1]), src(f[2]), f[3]))
        elif k == "FBits":
            out.append((k, src(f[1]), src(f[2]), f[3], [("BitF", None if b[1] is None else tab[b[1]], b[2], b[3]) for b in f[4]]))
        elif k == "FEnv":
            out.append((k, tab[f[1]], src(f[2]), src(f[3]), f[4], number(f[5], tab)))
        elif k == "FSeq":
            out.append((k, tab[f[1]], src(f[2]), src(f[3]), number(f[4], tab)))
    return out


# ------------------------------------------------------------------ Coq text

def cid(name):
    return "n_" + name.replace("-", "_")


def _z(x):
    return str(x) if x >= 0 else "(%d)" % x


def coq_len(l):
    if l[0] == "LFix":
        return "(LFix %d)" % l[1]
    if l[0] == "LRest":
        return "LRest"
    if l[0] == "LTab":
        return "(LTab %s [%s])" % (cid(l[1]), "; ".join("(%s, %d%%nat)" % (_z(k), n) for k, n in l[2]))
    return "(LDataLen %d %d %d)" % (l[1], l[2], l[3])


def coq_pres(p):
    if p[0] == "PAlways":
        return "PAlways"
    return "(PTab %s [%s])" % (cid(p[1]), "; ".join("(%s, %s)" % (_z(k), "true" if b else "false") for k, b in p[2]))


def coq_bool(b):
    return "true" if b else "false"


def coq_fields(fs, ind):
    pad = " " * ind
    items = []
    for f in fs:
        k = f[0]
        if k == "FUint":
            items.append("FUint %s %s %s %s %s %s %s" % (cid(f[1]), coq_len(f[2]), coq_pres(f[3]), coq_bool(f[4]), coq_bool(f[5]), _z(f[6]), _z(f[7])))
        elif k == "FBuf":
            items.append("FBuf %s %s %s" % (cid(f[1]), coq_len(f[2]), coq_pres(f[3])))
        elif k == "FSpare":
            items.append("FSpare %s %s %d" % (coq_len(f[1]), coq_pres(f[2]), f[3]))
        elif k == "FBits":
            bfs = "; ".join("BitF %s %d %s" % ("None" if b[1] is None else "(Some %s)" % cid(b[1]), b[2],
                                             "None" if b[3] is None else "(Some %s)" % _z(b[3])) for b in f[4])
            items.append("FBits %s %s %s [%s]" % (coq_len(f[1]), coq_pres(f[2]), coq_bool(f[3]), bfs))
        elif k == "FEnv":
            items.append("FEnv %s %s %s %s\n%s" % (cid(f[1]), coq_len(f[2]), coq_pres(f[3]), coq_bool(f[4]), coq_fields(f[5], ind + 4)))
        elif k == "FSeq":
            items.append("FSeq %s %s %s\n%s" % (cid(f[1]), coq_len(f[2]), coq_pres(f[3]), coq_fields(f[4], ind + 4)))
    return pad + "[ " + (";\n" + pad + "  ").join(items) + " ]"


def gen_text(defs, unknown, tab):
    t = ("(* GENERATED on every run from trx_toolkit/trxd_proto.py by reflection on the imported PDU objects (field classes, len, p,\n"
         "   bit-field bl/val, order, nested items) and by probing the callbacks (get_len over codes 0..15 / len(data) 0..1024,\n"
         "   get_pres over 0/1) -- do not edit *)\n"
         "From Coq Require Import ZArith List Bool.\nFrom OBB Require Import Model.Codec.\nImport ListNotations.\nOpen Scope Z_scope.\n\n")
    for n, i in sorted(tab.items(), key=lambda kv: kv[1]):
        t += "Definition %s : nat := %d.\n" % (cid(n), i)
    t += "\n"
    for name in PDUS:
        chk, fs = defs[name]
        t += "(* %s *)\nDefinition %s_chk : bool := %s.\nDefinition %s : list field :=\n%s.\n\n" % (
            name, COQ_NAME[name], coq_bool(chk), COQ_NAME[name], coq_fields(fs, 1))
    t += "(* codes 0..15 on which a length table raises instead of returning a length (ValueError of MTS.get_burst_len) *)\n"
    t += "Definition burst_len_unknown : list Z := [%s].\n" % "; ".join(str(m) for m in sorted(set(m for _, m in unknown)))
    return t


def gen(ctx):
    defs, unknown = reflect_all()
    tab = name_table(defs)
    ctx.gen("TrxdProto", gen_text(defs, unknown, tab))
    return defs, unknown, tab


def run(ctx):
    gen(ctx)
    ctx.prove()
