"""C17 - TRXD PDU definitions v0/v1/v2 (trx_toolkit/trxd_proto.py) have the documented structure.
Model: the C16 embedding (Model/Codec.v); the six PDU definitions are NOT written by hand: Gen/TrxdProto.v is produced on
every run by reflecting on the imported trxd_proto objects (field classes, len, p, bit-field bl/val, order, nested items;
callbacks tabulated by probing).  Theorems: Props/C17.v (the hand-written side states the documented structure literally).
Tie: Gen + correspondence of the real PDUvN.from_bytes/to_bytes with the extracted C16 model run on the Gen definitions."""
import json
import time

from .. import common
from .. import trxd_util as TU
from . import codec_builder as cb
from ..gen.trxd import gen_trxd

# canonical numbering of field names (the hand-written Coq side states the same numbers); a name that is not listed
# gets the next free number, which makes the Gen = spec obligation fail
NAMES = ["ver", "tn", "fn", "rssi", "toa256", "soft-bits", "pad", "pwr", "hard-bits", "nope", "mod", "tsc", "cir",
         "batch", "shadow", "trxn", "scpir", "bpdu"]
PDUS = ["PDUv0Rx", "PDUv0Tx", "PDUv1Rx", "PDUv1Tx", "PDUv2Rx", "PDUv2Tx"]
COQ_NAME = {"PDUv0Rx": "pdu_v0_rx", "PDUv0Tx": "pdu_v0_tx", "PDUv1Rx": "pdu_v1_rx", "PDUv1Tx": "pdu_v1_tx",
            "PDUv2Rx": "pdu_v2_rx", "PDUv2Tx": "pdu_v2_tx"}


def modules():
    common.import_toolkit()
    import codec
    import trxd_proto
    return codec, trxd_proto


# ------------------------------------------------------------------ reflection: real objects -> AST with string names

class _Rec(dict):
    """dict that records which keys a callback reads"""
    def __init__(self, log, val):
        dict.__init__(self)
        self.log, self.val = log, val

    def __getitem__(self, k):
        self.log.append(k)
        return self.val

    def get(self, k, d=None):
        self.log.append(k)
        return self.val


def probe_len(f, unknown):
    """tabulate f.get_len: LFix n | LRest | LTab key table (probed over 0..15) | LDataLen thr a b (probed over len(data) 0..1024)"""
    log = []
    try:
        f.get_len(_Rec(log, 0), b"")
    except Exception:
        pass
    keys = sorted(set(log))
    if keys:
        if len(keys) != 1:
            raise RuntimeError("get_len of %r reads several keys %r: outside the embedding" % (f.name, keys))
        tab = []
        for m in range(16):
            try:
                tab.append((m, int(f.get_len({keys[0]: m}, b""))))
            except (ValueError, KeyError) as e:
                unknown.append((type(e).__name__, m))
        return ("LTab", keys[0], tab)
    vals = [f.get_len({}, bytes(n)) for n in range(1025)]
    if all(v == n for n, v in enumerate(vals)):
        return ("LRest",)
    if all(v == vals[0] for v in vals):
        return ("LFix", int(vals[0]))
    steps = [n for n in range(1, 1025) if vals[n] != vals[n - 1]]
    if len(steps) != 1:
        raise RuntimeError("get_len of %r is not a single threshold on len(data): steps at %r" % (f.name, steps[:8]))
    thr = steps[0] - 1
    return ("LDataLen", thr, int(vals[thr + 1]), int(vals[thr]))


def probe_pres(f):
    log = []
    try:
        r = f.get_pres(_Rec(log, 0))
    except Exception:
        r = None
    keys = sorted(set(log))
    if not keys:
        if r is not True:
            raise RuntimeError("get_pres of %r is constant but not True" % (f.name,))
        return ("PAlways",)
    if len(keys) != 1:
        raise RuntimeError("get_pres of %r reads several keys %r" % (f.name, keys))
    return ("PTab", keys[0], [(m, not (f.get_pres({keys[0]: m}) is False)) for m in (0, 1)])


def reflect_field(codec, f, unknown):
    if isinstance(f, codec.BitFieldSet):
        lsb = f.p["order"] in ("little", "lsb")
        fl = list(f._fields)
        if lsb:
            fl = fl[::-1]
        bfs = []
        for b in fl:
            if isinstance(b, codec.BitField.Spare):
                bfs.append(("BitF", None, int(b.bl), None))
            else:
                bfs.append(("BitF", b.name, int(b.bl), None if b.val is None else int(b.val)))
        if f.get_len({}, b"") != f.len:
            raise RuntimeError("BitFieldSet with a non-constant length")
        return ("FBits", ("LFix", int(f.len)), probe_pres(f), lsb, bfs)
    l = probe_len(f, unknown)
    p = probe_pres(f)
    if isinstance(f, codec.Uint):
        if l != ("LFix", f.len):
            raise RuntimeError("Uint %r with a length callback" % (f.name,))
        return ("FUint", f.name, l, p, f.BO == "little", bool(f.SIGN), int(f.p["offset"]), int(f.p["mult"]))
    if isinstance(f, codec.Spare):
        fl = f.p["filler"]
        if len(fl) != 1:
            raise RuntimeError("multi-octet filler")
        return ("FSpare", l, p, fl[0])
    if isinstance(f, codec.Buf):
        return ("FBuf", f.name, l, p)
    if isinstance(f, codec.Envelope.F):
        return ("FEnv", f.name, l, p, bool(f.e.check_len), reflect_env(codec, f.e, unknown))
    if isinstance(f, codec.Sequence.F):
        if f.s._item.check_len is not False:
            raise RuntimeError("sequence item with check_len on")
        return ("FSeq", f.name, l, p, reflect_env(codec, f.s._item, unknown))
    raise RuntimeError("field class outside the embedding: %r" % (type(f),))


def reflect_env(codec, e, unknown):
    return [reflect_field(codec, f, unknown) for f in e.STRUCT]


def reflect_all():
    """-> {class name: (check_len, AST with string names)}, sorted list of (exception, code) the length tables raise on"""
    codec, proto = modules()
    unknown = []
    out = {}
    for name in PDUS:
        obj = getattr(proto, name)()      # PDUv0Rx.__init__ patches the class-level field object: instantiate first
        out[name] = (bool(obj.check_len), reflect_env(codec, obj, unknown))
    return out, sorted(set(unknown))


# ------------------------------------------------------------------ names <-> numbers

def name_table(defs):
    tab = {n: i for i, n in enumerate(NAMES)}

    def walk(fs):
        for f in fs:
            if f[0] == "FBits":
                for bf in f[4]:
                    if bf[1] is not None and bf[1] not in tab:
                        tab[bf[1]] = len(tab)
            elif f[0] != "FSpare":
                if f[1] not in tab:
                    tab[f[1]] = len(tab)
            for s in (f[2] if f[0] != "FSpare" and f[0] != "FBits" else f[1], f[3] if f[0] != "FSpare" and f[0] != "FBits" else f[2]):
                if s[0] in ("LTab", "PTab") and s[1] not in tab:
                    tab[s[1]] = len(tab)
            if f[0] in ("FEnv", "FSeq"):
                walk(f[-1])
    for _, fs in defs.values():
        walk(fs)
    return tab


def number(fs, tab):
    """AST with string names -> AST with numbers (the shape codec_builder serialises)"""
    def src(s):
        return (s[0], tab[s[1]], s[2]) if s[0] in ("LTab", "PTab") else s
    out = []
    for f in fs:
        k = f[0]
        if k == "FUint":
            out.append((k, tab[f[1]], src(f[2]), src(f[3])) + tuple(f[4:]))
        elif k == "FBuf":
            out.append((k, tab[f[1]], src(f[2]), src(f[3])))
        elif k == "FSpare":
            out.append((k, src(f[1]), src(f[2]), f[3]))
        elif k == "FBits":
            out.append((k, src(f[1]), src(f[2]), f[3], [("BitF", None if b[1] is None else tab[b[1]], b[2], b[3]) for b in f[4]]))
        elif k == "FEnv":
            out.append((k, tab[f[1]], src(f[2]), src(f[3]), f[4], number(f[5], tab)))
        elif k == "FSeq":
            out.append((k, tab[f[1]], src(f[2]), src(f[3]), number(f[4], tab)))
    return out


# ------------------------------------------------------------------ Coq text

def cid(name):
    return "n_" + name.replace("-", "_")


def _z(x):
    return str(x) if x >= 0 else "(%d)" % x


def coq_len(l):
    if l[0] == "LFix":
        return "(LFix %d)" % l[1]
    if l[0] == "LRest":
        return "LRest"
    if l[0] == "LTab":
        return "(LTab %s [%s])" % (cid(l[1]), "; ".join("(%s, %d%%nat)" % (_z(k), n) for k, n in l[2]))
    return "(LDataLen %d %d %d)" % (l[1], l[2], l[3])


def coq_pres(p):
    if p[0] == "PAlways":
        return "PAlways"
    return "(PTab %s [%s])" % (cid(p[1]), "; ".join("(%s, %s)" % (_z(k), "true" if b else "false") for k, b in p[2]))


def coq_bool(b):
    return "true" if b else "false"


def coq_fields(fs, ind):
    pad = " " * ind
    items = []
    for f in fs:
        k = f[0]
        if k == "FUint":
            items.append("FUint %s %s %s %s %s %s %s" % (cid(f[1]), coq_len(f[2]), coq_pres(f[3]), coq_bool(f[4]), coq_bool(f[5]), _z(f[6]), _z(f[7])))
        elif k == "FBuf":
            items.append("FBuf %s %s %s" % (cid(f[1]), coq_len(f[2]), coq_pres(f[3])))
        elif k == "FSpare":
            items.append("FSpare %s %s %d" % (coq_len(f[1]), coq_pres(f[2]), f[3]))
        elif k == "FBits":
            bfs = "; ".join("BitF %s %d %s" % ("None" if b[1] is None else "(Some %s)" % cid(b[1]), b[2],
                                             "None" if b[3] is None else "(Some %s)" % _z(b[3])) for b in f[4])
            items.append("FBits %s %s %s [%s]" % (coq_len(f[1]), coq_pres(f[2]), coq_bool(f[3]), bfs))
        elif k == "FEnv":
            items.append("FEnv %s %s %s %s\n%s" % (cid(f[1]), coq_len(f[2]), coq_pres(f[3]), coq_bool(f[4]), coq_fields(f[5], ind + 4)))
        elif k == "FSeq":
            items.append("FSeq %s %s %s\n%s" % (cid(f[1]), coq_len(f[2]), coq_pres(f[3]), coq_fields(f[4], ind + 4)))
    return pad + "[ " + (";\n" + pad + "  ").join(items) + " ]"


def gen_text(defs, unknown, tab):
    t = ("(* GENERATED on every run from trx_toolkit/trxd_proto.py by reflection on the imported PDU objects (field classes, len, p,\n"
         "   bit-field bl/val, order, nested items) and by probing the callbacks (get_len over codes 0..15 / len(data) 0..1024,\n"
         "   get_pres over 0/1) -- do not edit *)\n"
         "From Coq Require Import ZArith List Bool.\nFrom OBB Require Import Model.Codec.\nImport ListNotations.\nOpen Scope Z_scope.\n\n")
    for n, i in sorted(tab.items(), key=lambda kv: kv[1]):
        t += "Definition %s : nat := %d.\n" % (cid(n), i)
    t += "\n"
    for name in PDUS:
        chk, fs = defs[name]
        t += "(* %s *)\nDefinition %s_chk : bool := %s.\nDefinition %s : list field :=\n%s.\n\n" % (
            name, COQ_NAME[name], coq_bool(chk), COQ_NAME[name], coq_fields(fs, 1))
    t += "(* codes 0..15 on which a length table raises instead of returning a length (ValueError of MTS.get_burst_len) *)\n"
    t += "Definition burst_len_unknown : list Z := [%s].\n" % "; ".join(str(m) for m in sorted(set(m for _, m in unknown)))
    return t


def gen(ctx):
    gen_trxd(ctx)        # Gen/TrxdConst.v: the message codec's constants (Model/Trxd.v, used by c17_accepts_msg_codec_*)
    defs, unknown = reflect_all()
    tab = name_table(defs)
    ctx.gen("TrxdProto", gen_text(defs, unknown, tab))
    return defs, unknown, tab


# ------------------------------------------------------------------ real objects: observation in the shape of w_c16_enc / w_c16_dec

def _cause(e):
    codec, _ = modules()
    r = e
    while r.__cause__ is not None:
        r = r.__cause__
    if isinstance(r, (codec.DecodeError, codec.EncodeError)):
        return 0
    if isinstance(r, (KeyError, ValueError)) and not isinstance(r, (UnicodeError,)):
        return 1        # a callback could not answer: KeyError of a dict / ValueError of MTS.get_burst_len (the model: lookup failure)
    if isinstance(r, OverflowError):
        return 2
    if isinstance(r, TypeError):
        return 3
    if isinstance(r, ZeroDivisionError):
        return 4
    return 99


def py_to_val(o, tab):
    if isinstance(o, dict):
        return ("VDict", [(tab[k], py_to_val(v, tab)) for k, v in o.items()])
    if isinstance(o, (list, tuple)):
        return ("VList", [py_to_val(x, tab) for x in o])
    if isinstance(o, (bytes, bytearray)):
        return ("VBytes", bytes(o))
    return ("VInt", int(o))


def real_decode(name, data, tab, chk=True):
    codec, proto = modules()
    obj = getattr(proto, name)(check_len=chk)
    try:
        used = obj.from_bytes(bytes(data))
        return [0, 0, used] + cb.val_to_ints(py_to_val(obj.c, tab)), dict(obj.c)
    except codec.DecodeError as e:
        return [1, _cause(e)], None
    except codec.EncodeError as e:
        return [2, _cause(e)], None
    except Exception as e:  # noqa
        return [4, _cause(e)], None


def real_encode(name, d):
    codec, proto = modules()
    obj = getattr(proto, name)()
    obj.c = d
    try:
        b = obj.to_bytes()
        return [0, 0, len(b)] + list(b)
    except codec.EncodeError as e:
        return [2, _cause(e)]
    except codec.DecodeError as e:
        return [1, _cause(e)]
    except Exception as e:  # noqa
        return [4, _cause(e)]


# ------------------------------------------------------------------ documented layouts, written independently of the codec

BURST_LEN = {0: 148, 1: 148, 2: 148, 3: 148, 4: 444, 5: 444, 6: 148, 8: 592, 9: 592, 10: 740, 11: 740, 12: 296, 13: 296, 14: 296, 15: 296}


def be(x, n):
    return list((x % (1 << (8 * n))).to_bytes(n, "big"))


def layout(name, d):
    """documented octets of the field dict d of PDU class `name`"""
    if name in ("PDUv0Tx", "PDUv1Tx"):
        return [d["ver"] * 16 + d["tn"]] + be(d["fn"], 4) + [d["pwr"]] + list(d["hard-bits"])
    if name == "PDUv0Rx":
        return [d["tn"]] + be(d["fn"], 4) + [-d["rssi"]] + be(d["toa256"], 2) + list(d["soft-bits"]) + list(d["pad"])
    mts = [d["nope"] * 128 + d["mod"] * 8 + d["tsc"]] if "nope" in d else []
    if name == "PDUv1Rx":
        return ([16 + d["tn"]] + be(d["fn"], 4) + [-d["rssi"]] + be(d["toa256"], 2) + mts + be(d["cir"], 2)
                + list(d.get("soft-bits", b"")))
    rx = name == "PDUv2Rx"

    def part(x, main):
        h0 = (32 if main else 0) + x["tn"]
        h1 = x["batch"] * 128 + (0 if main else x["shadow"] * 64) + x["trxn"]
        out = [h0, h1, x["nope"] * 128 + x["mod"] * 8 + x["tsc"]]
        if rx:
            out += [-x["rssi"]] + be(x["toa256"], 2) + be(x["cir"], 2)
        else:
            out += [x["pwr"], x["scpir"] % 256, 0, 0, 0]
        if main:
            out += be(x["fn"], 4)
        return out + list(x.get("soft-bits" if rx else "hard-bits", b""))
    out = part(d, True)
    for s in d["bpdu"]:
        out += part(s, False)
    return out


# ------------------------------------------------------------------ generators

def g_mts(rng, d, burst_key, soft):
    if rng.chance(1, 5):
        d.update(nope=1, mod=rng.choice([0, 0, 5, 7, 15]), tsc=rng.below(8))
    else:
        md = rng.choice(sorted(BURST_LEN))
        d.update(nope=0, mod=md, tsc=rng.below(8))
        n = BURST_LEN[md]
        d[burst_key] = bytes(rng.below(256) for _ in range(n)) if rng.chance(1, 2) else bytes([rng.below(256)]) * n


def g_v2(rng, rx, nsub):
    def part(main):
        x = {}
        if main:
            x["ver"] = 2
        x["tn"] = rng.below(8)
        x["batch"] = rng.below(2)
        if not main:
            x["shadow"] = rng.below(2)
        x["trxn"] = rng.choice([0, 1, 62, 63]) if rng.chance(1, 2) else rng.below(64)
        mts = {}
        g_mts(rng, mts, "soft-bits" if rx else "hard-bits", rx)
        x.update(nope=mts["nope"], mod=mts["mod"], tsc=mts["tsc"])
        if rx:
            x["rssi"] = -rng.choice([0, 1, 47, 120, 254, 255]) if rng.chance(1, 2) else -rng.below(256)
            x["toa256"] = rng.choice([-32768, -1, 0, 1, 32767]) if rng.chance(1, 2) else rng.range(-32768, 32767)
            x["cir"] = rng.choice([-32768, -1280, 0, 1280, 32767]) if rng.chance(1, 2) else rng.range(-32768, 32767)
        else:
            x["pwr"] = rng.choice([0, 255]) if rng.chance(1, 2) else rng.below(256)
            x["scpir"] = rng.choice([-128, -1, 0, 127]) if rng.chance(1, 2) else rng.range(-128, 127)
        if main:
            x["fn"] = rng.choice([0, 2715647, 2 ** 32 - 1]) if rng.chance(1, 3) else rng.below(2715648)
        for k in ("soft-bits", "hard-bits"):
            if k in mts:
                x[k] = mts[k]
        return x
    d = part(True)
    d["bpdu"] = [part(False) for _ in range(nsub)]
    return d


def g_v01(rng, name):
    d = dict(ver=0 if "v0" in name else 1, tn=rng.below(8), fn=rng.choice([0, 2715647, 2 ** 32 - 1]) if rng.chance(1, 3) else rng.below(2715648))
    if name.endswith("Tx"):
        d["pwr"] = rng.below(256)
        d["hard-bits"] = bytes(rng.below(2) for _ in range(rng.choice([0, 1, 148, 150, 444, 446])))
        return {k: d[k] for k in ("ver", "tn", "fn", "pwr", "hard-bits")}
    d["rssi"] = -rng.below(256)
    d["toa256"] = rng.range(-32768, 32767)
    if name == "PDUv0Rx":
        d["soft-bits"] = bytes(rng.below(256) for _ in range(rng.choice([148, 444])))
        d["pad"] = bytes(rng.choice([0, 0, 2]))
        return d
    g_mts(rng, d, "soft-bits", True)
    d["cir"] = rng.range(-32768, 32767)
    order = ["ver", "tn", "fn", "rssi", "toa256", "nope", "mod", "tsc", "cir", "soft-bits"]
    return {k: d[k] for k in order if k in d}


def expected_from_msg(m, legacy):
    """field dict the clause 'accepted with identical field values' asks for, from a message-codec message"""
    pad = b"\x00\x00" if (legacy and m["ver"] == 0) else b""
    if m["kind"] == "tx":
        return "PDUv%dTx" % m["ver"], dict(ver=m["ver"], tn=m["tn"], fn=m["fn"], pwr=m["pwr"], **{"hard-bits": bytes(m["burst"])}), pad
    us = None if m["burst"] is None else bytes((127 - s) % 256 for s in m["burst"])
    if m["ver"] == 0:
        return "PDUv0Rx", dict(ver=0, tn=m["tn"], fn=m["fn"], rssi=m["rssi"], toa256=m["toa"], **{"soft-bits": us, "pad": pad}), pad
    d = dict(ver=1, tn=m["tn"], fn=m["fn"], rssi=m["rssi"], toa256=m["toa"])
    if m["nope"]:
        d.update(nope=1, mod=0, tsc=0, cir=m["ci"])
    else:
        coding = [0, 4, 6, 8, 10, 12][m["mod"]]
        d.update(nope=0, mod=coding + m["tset"], tsc=m["tsc"], cir=m["ci"])
        d["soft-bits"] = us
    return "PDUv1Rx", d, pad


def same(a, b):
    """dict equality with bytes/bytearray normalised"""
    def norm(x):
        if isinstance(x, dict):
            return {k: norm(v) for k, v in x.items()}
        if isinstance(x, (list, tuple)):
            return [norm(v) for v in x]
        if isinstance(x, (bytes, bytearray)):
            return bytes(x)
        return x
    return norm(a) == norm(b)


def hexs(b):
    b = bytes(b)
    return b.hex() if len(b) <= 48 else "%s...(%d octets)" % (b[:24].hex(), len(b))


def run(ctx):
    defs, unknown, tab = gen(ctx)
    ctx.prove()
    if ctx.tier == "thorough":
        ctx.coqchk()
    rng = ctx.rng
    quick = ctx.tier != "thorough"
    num = {name: number(defs[name][1], tab) for name in PDUS}
    inv = {v: k for k, v in tab.items()}
    D = TU.toolkit()
    cases = []          # dict(op, name, data|d, tag, ...)
    shown = {}

    def add_dec(name, data, tag, chk=True, **kw):
        cases.append(dict(op="dec", name=name, data=bytes(data), chk=chk, tag=tag, **kw))

    def add_enc(name, d, tag, **kw):
        cases.append(dict(op="enc", name=name, d=d, tag=tag, **kw))

    # (1) datagrams of the real message codec: deterministic sweep + random
    msgs = []
    for ver in (0, 1):
        for n in (148, 444):
            msgs.append(dict(kind="tx", ver=ver, fn=1234, tn=3, pwr=10, burst=[1] * n))
    for n in (148, 444):
        msgs.append(dict(kind="rx", ver=0, fn=1234, tn=3, rssi=-60, toa=-5, nope=False, mod=0, tset=None, tsc=None, ci=None, burst=[1] * n))
    # burst lengths per modulation: the documented ones AND the ones the message codec itself uses (its Modulation table, read from
    # the imported module): "every datagram produced by the message codec is accepted by the corresponding definition" must hold for
    # what the codec really produces, and the codec must produce the documented ones
    real_bl = [m.bl for m in list(TU.toolkit().Modulation)]
    for i in range(6):
        for ts in range(4 if i == 0 else 2):
            for bl in sorted({TU.MOD_BL[i], real_bl[i] if i < len(real_bl) else TU.MOD_BL[i]}):
                msgs.append(dict(kind="rx", ver=1, fn=2715647, tn=7, rssi=-120, toa=32767, nope=False, mod=i, tset=ts, tsc=5, ci=-1280,
                                 burst=[-127 + (k % 255) for k in range(bl)]))
    n_spec_sweep = len(msgs)
    msgs.append(dict(kind="rx", ver=1, fn=0, tn=0, rssi=-47, toa=-32768, nope=True, mod=None, tset=None, tsc=None, ci=1280, burst=None))
    # NOPE indications built on an object whose modulation / TSC fields are still set (a message object that carried a burst before,
    # or was filled by rand_hdr()): the NOPE flag alone decides, the datagram is the 11-octet NOPE PDU the definition accepts
    for i in range(6):
        for ts in range(4 if i == 0 else 2):
            msgs.append(dict(kind="rx", ver=1, fn=77, tn=i, rssi=-90, toa=0, nope=True, mod=i, tset=ts, tsc=(i + ts) % 8, ci=-5, burst=None))
    for _ in range(700 if quick else 12000):
        msgs.append(TU.rand_rx(rng) if rng.chance(2, 3) else TU.rand_tx(rng))
    # the datagrams handed to the definitions are what a SENDER holds: several messages generated through one long-lived object
    # per direction and kept - each datagram must stay what it was when generated (generator shared with C01)
    _pairs = [(m, legacy) for m in msgs[:n_spec_sweep + 40] for legacy in (False, True)]
    TU.gen_reuse_check(ctx, _pairs, [TU.do_gen(m, legacy) for m, legacy in _pairs], "c17-gen-history")
    for mi, m in enumerate(msgs):
        for legacy in (False, True):
            try:
                b = bytes(TU.real(m).gen_msg(legacy))
            except ValueError:
                if mi < n_spec_sweep and m["kind"] == "rx" and m["ver"] == 1 and m["burst"] is not None and len(m["burst"]) == TU.MOD_BL[m["mod"]] and not legacy:
                    ctx.oracle_fail("the message codec refuses a version-1 Rx message with the documented burst length of its modulation (%d soft bits for modulation %d)"
                                    % (len(m["burst"]), m["mod"]), dict(msg=TU.short(m)), key="c17-msg-codec-refuses-documented-length")
                continue
            name, exp, pad = expected_from_msg(m, legacy)
            add_dec(name, b, "msg-codec", msg=m, legacy=legacy, exp=exp, pad=pad)
            if rng.chance(1, 4):     # the other direction's / version's definition must reject or mis-accept consistently with the model
                add_dec(rng.choice(PDUS), b, "msg-codec-other-def")
    # (2) typed PDUs: all six classes, v2 with 0..8 batched sub-PDUs
    reps = 25 if quick else 400
    for _ in range(reps):
        for name in ("PDUv0Rx", "PDUv0Tx", "PDUv1Rx", "PDUv1Tx"):
            add_enc(name, g_v01(rng, name), "typed")
        for nsub in range(9):
            for rx in (True, False):
                add_enc("PDUv2Rx" if rx else "PDUv2Tx", g_v2(rng, rx, nsub), "typed", nsub=nsub)
    # encode-side malformed: a missing field, an out-of-range value
    for c in list(cases):
        if c["op"] == "enc" and rng.chance(1, 6):
            d = dict(c["d"])
            # 'nope' is left alone: get_pres is tabulated over the value domain of its 1-bit key field (0/1); the real
            # `not v['nope']` also answers for other integers, which the reflected table does not claim
            k = rng.choice([k for k in d if k not in ("bpdu", "nope")])
            if rng.chance(1, 2) or not isinstance(d[k], int):
                del d[k]
                add_enc(c["name"], d, "enc-missing")
            else:
                d[k] = d[k] + rng.choice([256, 1 << 16, 1 << 32, -(1 << 32)])
                add_enc(c["name"], d, "enc-range", key=k)
    ctx.in_flight = None
    # run the encode cases on the real objects first: their encodings feed the decode cases
    for c in list(cases):
        if c["op"] != "enc" or c["tag"] != "typed":
            continue
        o = real_encode(c["name"], c["d"])
        if o[0] != 0:
            continue
        b = bytes(o[3:])
        add_dec(c["name"], b, "typed-encoding", exp=c["d"])
        r = rng.below(10)
        if r == 0:
            add_dec(c["name"], bytes([(b[0] & 0x0f) | (rng.choice([x for x in range(16) if x != b[0] >> 4]) << 4)]) + b[1:], "wrong-version")
        elif r == 1:
            add_dec(c["name"], b[:rng.below(len(b))], "truncated")
        elif r == 2:
            add_dec(c["name"], b + bytes(rng.below(256) for _ in range(1 + rng.below(3))), "trailing", chk=rng.chance(1, 2))
        elif r in (3, 4):
            bb = bytearray(b)
            bb[0] |= 0x08
            if c["name"].startswith("PDUv2"):
                bb[1] |= 0x40
                if c["name"] == "PDUv2Tx":
                    for k in (5, 6, 7):
                        bb[k] = rng.below(256)
            add_dec(c["name"], bytes(bb), "reserved-set", orig=b)
        elif r in (6, 7) and c["name"].startswith("PDUv2"):
            # EVERY batched sub-PDU gets its own arbitrary RFU bits; Tx: arbitrary spare octets in the main part and in every sub-PDU
            bb = bytearray(b)
            tx = c["name"] == "PDUv2Tx"
            bk = "hard-bits" if tx else "soft-bits"
            if tx:
                for k in (5, 6, 7):
                    bb[k] = rng.below(256)
            off = len(layout(c["name"], dict(c["d"], bpdu=[])))
            for sp in c["d"]["bpdu"]:
                bb[off] = (bb[off] & 0x07) | (rng.below(32) << 3)
                if tx:
                    for k in (5, 6, 7):
                        bb[off + k] = rng.below(256)
                off += 8 + len(sp.get(bk, b""))
            assert off == len(b)
            add_dec(c["name"], bytes(bb), "reserved-set-all", orig=b, chk=rng.chance(3, 4))
        elif r == 5 and c["name"].startswith("PDUv2") and c.get("nsub"):
            # reserved bits of the first batched sub-PDU: RFU(5) of its first octet, Tx spare octets
            off = len(layout(c["name"], dict(c["d"], bpdu=[])))
            bb = bytearray(b)
            bb[off] |= 0xf8 & (rng.below(256) | 0x08)
            if c["name"] == "PDUv2Tx":
                for k in (5, 6, 7):
                    bb[off + k] = rng.below(256)
            add_dec(c["name"], bytes(bb), "reserved-set-sub", orig=b)
    # (3) junk
    for _ in range(400 if quick else 6000):
        name = rng.choice(PDUS)
        n = rng.choice([0, 1, 2, 5, 6, 8, 11, 12, 13, 154, 156, 159, 160, 456, 460])
        add_dec(name, bytes(rng.below(256) for _ in range(n)), "junk", chk=rng.chance(3, 4))

    def line_of(c):
        if c["op"] == "dec":
            return cb.dec_line(c["chk"], num[c["name"]], c["data"])
        return cb.enc_line(num[c["name"]], py_to_val(c["d"], tab)[1])

    def impl_of(c):
        ctx.in_flight = (c["op"], c["name"], c["tag"])
        if c["op"] == "dec":
            o, d = real_decode(c["name"], c["data"], tab, c["chk"])
            c["dict"] = d
        else:
            o = real_encode(c["name"], c["d"])
        c["impl"] = o
        return o

    def show(c):
        s = dict(op=c["op"], pdu=c["name"], tag=c["tag"])
        if c["op"] == "dec":
            s.update(chk=c["chk"], data=hexs(c["data"]))
        else:
            s["fields"] = {k: (hexs(v) if isinstance(v, (bytes, bytearray)) else (("%d sub-PDUs" % len(v)) if isinstance(v, list) else v)) for k, v in c["d"].items()}
        if "msg" in c:
            s.update(msg=TU.short(c["msg"]), legacy=c["legacy"])
        return s
    res = ctx.correspond("trxd-proto", "Codec", cases, line_of, impl_of, show)
    ctx.in_flight = None
    if res is None:
        return
    nmis = 0
    for c, m_out, o in res:
        if m_out != o:
            nmis += 1
            if nmis <= 3:
                ctx.note("model/implementation mismatch: %s model=%r impl=%r" % (json.dumps(show(c), default=str)[:400], (m_out or [])[:12], o[:12]))
    capped = {}

    def fail(key, what, c, expected=None, observed=None, cap=3):
        ctx.count("oracle:" + key)
        capped[key] = capped.get(key, 0) + 1
        if capped[key] <= cap:
            ctx.oracle_fail(what, show(c), key=key, expected=expected, observed=observed)

    for c, m_out, o in res:
        st = o[0]
        ctx.count("%s:%s:status%d" % (c["op"], c["tag"], st))
        ctx.nontrivial((c["op"], c["name"], c["tag"], st, o[1] if st else 0, c.get("nsub"), c.get("legacy"),
                        (c["msg"]["mod"], c["msg"].get("tset"), bool(c["msg"].get("nope"))) if "msg" in c and c["msg"]["kind"] == "rx" else None))
        # only the codec's own exceptions
        if st == 4 or (c["op"] == "dec" and st == 2) or (c["op"] == "enc" and st == 1):
            fail("c17-otherexc", "an exception other than the codec's own DecodeError/EncodeError escaped (or the wrong one)", c, observed=o[:8], cap=5)
        if c["op"] == "enc":
            if c["tag"] == "typed":
                want = layout(c["name"], c["d"])
                if st != 0:
                    fail("c17-layout", "a valid field dict does not encode", c, observed=o[:8])
                elif list(o[3:]) != want:
                    fail("c17-layout", "encoding differs from the documented octet layout", c, expected=hexs(want), observed=hexs(o[3:]))
            elif c["tag"] in ("enc-missing", "enc-range") and st == 0 and c["tag"] == "enc-missing":
                # a missing fixed 'ver' is fine (fixed values need no user value); anything else must be an EncodeError
                miss = [k for k in ("tn", "fn") if k not in c["d"]]
                if miss:
                    fail("c17-errors", "missing field %r encoded without EncodeError" % miss, c)
            continue
        d = c["dict"]
        tag = c["tag"]
        if tag == "typed-encoding":
            if st == 1 and c["name"] == "PDUv0Rx" and len(c["exp"]["soft-bits"]) == 148 and len(c["exp"]["pad"]) == 2:
                fail("c17-v0rx-legacy-gmsk-rejected", "PDUv0Rx does not decode its own encoding of 148 soft bits + 2 padding octets "
                     "(soft-bit length rule answers 444 for 150 octets: Short read)", c, expected="accepted", observed=o)
            elif st != 0 or not same(d, c["exp"]) or o[2] != len(c["data"]):
                fail("c17-roundtrip", "decode(encode(fields)) differs from fields / is not length-exact", c, observed=o[:12])
            else:
                if "nope" in d:
                    bk = "hard-bits" if c["name"] == "PDUv2Tx" else "soft-bits"
                    parts = [d] + list(d.get("bpdu", []))
                    for x in parts:
                        if x["nope"] == 1 and bk in x:
                            fail("c17-nope-no-burst", "NOPE indication decoded with a burst", c)
                        if x["nope"] == 0 and len(x[bk]) != BURST_LEN.get(x["mod"]):
                            fail("c17-burst-len", "burst length is not the table entry of the MOD bits", c)
        elif tag in ("reserved-set", "reserved-set-sub", "reserved-set-all"):
            o_orig, _ = real_decode(c["name"], c["orig"], tab, c["chk"])
            ctx.evaluations += 1
            if o != o_orig:
                fail("c17-reserved-ignored", "reserved bits / spare octets set on receipt changed the decoded message", c, observed=o[:12])
        elif tag == "wrong-version":
            if o != [1, 0]:
                fail("c17-wrong-version", "a wrong version nibble was not rejected with DecodeError", c, observed=o[:8])
        elif tag == "msg-codec":
            msg, legacy, exp, pad = c["msg"], c["legacy"], c["exp"], c["pad"]
            if msg["kind"] == "tx":
                if st == 0 and same(d, exp):
                    pass
                elif st == 0 and pad and same(d, dict(exp, **{"hard-bits": exp["hard-bits"] + pad})):
                    fail("c17-v0tx-legacy-pad-in-hard-bits", "legacy-padded v0 Tx datagram of TxMsg.gen_msg is accepted, but the two padding octets "
                         "are inside 'hard-bits' (field values not identical)", c, expected="%d octets" % len(exp["hard-bits"]), observed="%d octets" % len(d["hard-bits"]))
                else:
                    fail("c17-accepts-msg-codec", "Tx datagram of the message codec not accepted with identical field values", c, observed=o[:12])
            elif msg["ver"] == 0:
                if st == 0 and same(d, exp):
                    pass
                elif st == 1 and legacy and len(msg["burst"]) == 148:
                    fail("c17-v0rx-legacy-gmsk-rejected", "legacy-padded GMSK v0 Rx datagram of RxMsg.gen_msg (148 soft bits + 2 padding octets) is rejected "
                         "by PDUv0Rx (soft-bit length rule answers 444 for 150 octets: Short read)", c, expected="accepted", observed=o)
                else:
                    fail("c17-accepts-msg-codec", "v0 Rx datagram of the message codec not accepted with identical field values", c, observed=o[:12])
            else:
                if st == 0 and same(d, exp):
                    pass
                elif st == 1 and not msg["nope"] and msg["mod"] == 2 and msg["tset"] == 1:
                    fail("c17-mts-0111-unknown", "v1 Rx datagram with MTS code 0b0111 (GMSK access burst, TSC set 1), valid for the message codec, "
                         "is rejected by PDUv1Rx (get_burst_len: ValueError)", c, expected="accepted", observed=o)
                else:
                    fail("c17-accepts-msg-codec", "v1 Rx datagram of the message codec not accepted with identical field values", c, observed=o[:12])
        # C16 law on the real objects: whatever decodes (check_len on) re-encodes to the consumed octets' length and decodes again
        if st == 0 and c["chk"] and tag in ("msg-codec", "typed-encoding", "reserved-set", "junk", "msg-codec-other-def"):
            re_ = real_encode(c["name"], dict(d))
            ctx.evaluations += 1
            if re_[0] != 0 or re_[2] != o[2]:
                fail("c17-roundtrip", "decoded message does not re-encode to the consumed number of octets", c, observed=re_[:8])
            else:
                o2, d2 = real_decode(c["name"], bytes(re_[3:]), tab)
                ctx.evaluations += 1
                if o2 != o:
                    fail("c17-roundtrip", "decode(encode(decode(d))) differs from decode(d)", c)
                zero = bytes(re_[3:])
                if zero[0] & 0x08 or (c["name"].startswith("PDUv2") and zero[1] & 0x40):
                    fail("c17-reserved-zero", "re-encoding has a reserved header bit set", c, observed=hexs(zero[:4]))
        k = (c["op"], c["name"], c["tag"], st)
        if k not in shown and len(shown) < 8:
            shown[k] = 1
            ctx.sample(dict(case=show(c), impl=o[:16]))
    ctx.extra["gen_definitions"] = {n: len(defs[n][1]) for n in PDUS}
    ctx.extra["burst_len_unknown"] = [m for _, m in unknown]
    ctx.extra["rule"] = ("definitions = Gen/TrxdProto.v reflected from the imported trxd_proto objects, run through the extracted C16 model and the real "
                         "PDUvN.from_bytes/to_bytes; inputs: datagrams of the real TxMsg/RxMsg.gen_msg (sweep over versions, burst lengths, all 6 modulations x TSC "
                         "sets, NOPE, legacy on/off + random valid messages), typed field dicts of all six classes (v2 with 0..8 batched sub-PDUs) and their encodings, "
                         "wrong version nibble, truncation, trailing octets, reserved bits / spare octets set (main and first sub-PDU), junk; "
                         "distinct_nontrivial = distinct (operation, class, input family, status, cause, #sub-PDUs, legacy, modulation/TSC-set/NOPE)")
