"""C04 - TRXD octets follow the protocol layout; Python and trxcon (C) agree.
Models: Model/Trxd.v (toolkit codec, shared with C01) and Model/TrxIf.v (trxcon's trx_if.c); theorems: Props/C04.v.
Tie: Gen/TrxdConst.v (reflection) + Gen/TrxIfConst.v (constants as compiled into a harness that #includes the real trx_if.c)
+ correspondence: the datagrams the real Python codec produces go through the real trx_data_rx_cb and the extracted c_data_rx,
burst requests go through the real trx_if_handle_phyif_burst_req, the extracted c_burst_req and the real TxMsg.parse_msg,
and the TRXC command printers / response parser of trx_if.c are compared with their models (a SEGV / sanitizer stop of the response
parser shows up here as a correspondence mismatch; naming the defect is the business of trxif_util.ctrl_malformed_campaign, used by C14)."""
from .. import common
from .. import trxd_util as U
from .. import trxif_util as T
from ..gen.trxd import gen_trxd

H = 2715648
CODING = [0, 4, 6, 8, 10, 12]


def gen(ctx):
    gen_trxd(ctx)
    T.gen_trxif(ctx)


# ---------------------------------------------------------------- the TRXD layout, transcribed from the protocol description
# (independent of data_msg.py: nothing below calls into the toolkit)

def layout_tx(m, legacy):
    o = [(m["ver"] << 4) | m["tn"]] + list(m["fn"].to_bytes(4, "big")) + [m["pwr"]] + list(m["burst"])
    if legacy and m["ver"] == 0:
        o += [0, 0]
    return o


def layout_rx(m, legacy):
    o = [(m["ver"] << 4) | m["tn"]] + list(m["fn"].to_bytes(4, "big")) + [-m["rssi"]] + list((m["toa"] & 0xffff).to_bytes(2, "big"))
    if m["ver"] == 1:
        if m["nope"]:
            o.append(0x80)
        else:
            o.append(m["tsc"] | ((CODING[m["mod"]] + m["tset"]) << 3))
        o += list((m["ci"] & 0xffff).to_bytes(2, "big"))
    if m["burst"] is not None:
        o += [127 - s for s in m["burst"]]
    if legacy and m["ver"] == 0:
        o += [0, 0]
    return o


def read_layout(kind, d):
    """decode a datagram per the layout (what c04_parse_*_is_layout states); only called on datagrams the parser accepted"""
    ver, tn = d[0] >> 4, d[0] & 7
    fn = int.from_bytes(bytes(d[1:5]), "big")
    if kind == "tx":
        rest = d[6:]
        if len(rest) > 444:
            rest = rest[:444]
        elif 148 < len(rest) < 444:
            rest = rest[:148]
        return dict(kind="tx", ver=ver, fn=fn, tn=tn, pwr=d[5], burst=rest if rest else None)
    toa = int.from_bytes(bytes(d[6:8]), "big", signed=True)
    m = dict(kind="rx", ver=ver, fn=fn, tn=tn, rssi=-d[5], toa=toa, nope=False, mod=0, tset=None, tsc=None, ci=None, burst=None)
    us = lambda u: -127 if u == 255 else 127 - u
    if ver == 0:
        rest = d[8:]
        if rest:
            n = len(rest) if len(rest) in U.MOD_BL else len(rest) - 2
            m["mod"] = U.MOD_BL.index(n)
            m["burst"] = [us(u) for u in rest[:n]]
    else:
        mts = d[8]
        m["ci"] = int.from_bytes(bytes(d[9:11]), "big", signed=True)
        if mts & 0x80:
            m.update(nope=True, mod=None)
        else:
            mm = (mts >> 3) & 0xf
            m["tsc"] = mts & 7
            if mm >= 4:
                m["mod"] = CODING.index(mm & 0xe) if (mm & 0xe) in CODING else None
                m["tset"] = mm & 1
            else:
                m["mod"], m["tset"] = 0, mm
        rest = d[11:]
        if rest:
            m["burst"] = [us(u) for u in rest]
    return m


def mutate(rng, d, kind):
    d = list(d)
    how = rng.below(7)
    if how == 0:
        return d[:rng.below(len(d) + 1)]
    if how == 1:
        d[rng.below(len(d))] ^= 1 << rng.below(8)
        return d
    if how == 2:
        return d + [rng.below(256) for _ in range(1 + rng.below(4))]
    if how == 3:
        d[0] = rng.below(256)
        return d
    if how == 4:
        hl = 8 if kind == "rx" else 6
        return d[:hl + rng.choice([0, 1, 2, 147, 148, 149, 150, 151, 295, 443, 444, 445, 446, 447, 503, 504])]
    if how == 5:
        return d + [rng.below(256)] * rng.choice([50, 58, 59, 60, 66, 67, 68, 600])      # around / beyond the 512-octet buffer
    d[1:5] = list(rng.choice([H - 1, H, H + 1, 2 ** 32 - 1, 2 ** 31]).to_bytes(4, "big"))
    return d


def run(ctx):
    gen(ctx)
    ctx.prove()
    if ctx.tier == "thorough":
        ctx.coqchk()
    rng = ctx.rng
    quick = ctx.tier == "quick"
    # ================================================================ Python side: messages and their octets
    n = 1200 if quick else 40000
    msgs = []
    for k in range(n):
        r = rng.below(20)
        if r < 11:                         # version-0 Rx (the Python -> C direction of the statement)
            m = U.rand_rx(rng, soft_domain=not rng.chance(1, 12))
            while m["ver"] != 0:
                m = U.rand_rx(rng, soft_domain=not rng.chance(1, 12))
        elif r < 14:
            m = U.rand_rx(rng)
        elif r < 18:
            m = U.rand_tx(rng)
        else:
            m = U.rand_tx(rng, valid=False) if rng.chance(1, 2) else U.rand_rx(rng, valid=False)
        msgs.append((m, rng.chance(1, 2)))
    gen_obs = [U.do_gen(m, legacy) for m, legacy in msgs]
    U.gen_reuse_check(ctx, msgs, gen_obs, "c04-gen-history")
    idx = list(range(len(msgs)))
    op = lambda m: "w_trxd_tx_gen" if m["kind"] == "tx" else "w_trxd_rx_gen"
    ctx.correspond("gen_msg", "Trxd", idx,
                   lambda k: "%s %d %s" % (op(msgs[k][0]), 1 if msgs[k][1] else 0, " ".join(map(str, U.enc(msgs[k][0])))),
                   lambda k: gen_obs[k], show=lambda k: dict(msg=U.short(msgs[k][0]), legacy=msgs[k][1]))
    # layout oracle (encoder): octets == independent transcription of the PDU layout
    for k, (m, legacy) in enumerate(msgs):
        if (gen_obs[k][0] == 0) != U.spec_valid(m):
            ctx.oracle_fail("gen_msg %s a message that is %s the protocol ranges" % (("refuses", "within") if U.spec_valid(m) else ("encodes", "outside")),
                            dict(msg=U.short(m), legacy=legacy), key="c04-encodable:%s-v%s" % (m["kind"], m["ver"]))
        if gen_obs[k][0] != 0:
            continue
        exp = layout_tx(m, legacy) if m["kind"] == "tx" else layout_rx(m, legacy)
        if gen_obs[k][1:] != exp:
            pos = next((i for i, (a, b) in enumerate(zip(gen_obs[k][1:], exp)) if a != b), min(len(exp), len(gen_obs[k]) - 1))
            ctx.oracle_fail("gen_msg octets differ from the TRXD layout at octet %d" % pos, dict(msg=m, legacy=legacy),
                            key="c04-layout-gen:%s-v%d-octet%d" % (m["kind"], m["ver"], min(pos, 11)), expected=exp[:16], observed=gen_obs[k][1:17])
        ctx.nontrivial(("gen", m["kind"], m["ver"], m.get("mod") if m["ver"] == 1 else None, bool(m.get("nope")), legacy))
    # datagrams: everything encoded, plus mutations (malformed stream)
    dgrams = []
    for k, o in enumerate(gen_obs):
        if o[0] != 0:
            continue
        kind = msgs[k][0]["kind"]
        dgrams.append((kind, o[1:], k))
        if rng.chance(1, 3):
            dgrams.append((kind, mutate(rng, o[1:], kind), None))
    for d in ([], [0], [0] * 7, [0] * 8, [7] + [255] * 7, [0] * 511, [0] * 512, [0] * 513, [0x10] + [0] * 155,
              [0, 0xff, 0xff, 0xff, 0xff, 128, 0x80, 0] + [255] * 148, [8, 0, 0x29, 0x6f, 0xff, 0, 0, 0] + [1] * 148,
              [0, 0, 0x29, 0x70, 0x00, 0, 0, 0] + [1] * 148, [0] * 8 + [254] * 444 + [9, 9] + [0] * 58, [0] * 8 + [254] * 446 + [0] * 59):
        dgrams.append(("rx", d, None))
    # layout oracle (parser): what the real parser accepts, it reads per the layout
    parse_obs = [U.do_parse(kind, d) for kind, d, _ in dgrams]
    didx = list(range(len(dgrams)))
    ctx.correspond("parse_msg", "Trxd", didx,
                   lambda j: "%s %s" % ("w_trxd_tx_parse" if dgrams[j][0] == "tx" else "w_trxd_rx_parse", " ".join(map(str, dgrams[j][1]))),
                   lambda j: parse_obs[j], show=lambda j: dict(kind=dgrams[j][0], octets=dgrams[j][1][:16], n=len(dgrams[j][1])))
    for j, (kind, d, k) in enumerate(dgrams):
        if parse_obs[j][0] != 0:
            continue
        exp = U.enc(read_layout(kind, d))
        if parse_obs[j][1:] != exp:
            ctx.oracle_fail("parse_msg reads an accepted datagram differently from the TRXD layout", dict(kind=kind, octets=d),
                            key="c04-layout-parse:" + kind, expected=exp[:24], observed=parse_obs[j][1:25])
    U.reuse_check(ctx, dgrams, parse_obs, "c04-parse-history")
    # ================================================================ Python -> C: the real trx_data_rx_cb on those octets
    rxd = [(d, k) for kind, d, k in dgrams if kind == "rx"]
    adv = [rng.choice([0, 1, 20, H - 1, H, 2 ** 32 - 1]) for _ in rxd]
    toks = T.run_lines([T.rx_line(d, a) for (d, _), a in zip(rxd, adv)])
    robs = [T.parse_rx_obs(t) for t in toks]
    ridx = list(range(len(rxd)))
    ctx.correspond("trx_data_rx_cb", "TrxIf", ridx, lambda j: T.m_rx_line(rxd[j][0], adv[j]), lambda j: T.rx_wire(robs[j]),
                   show=lambda j: dict(octets=rxd[j][0][:16], n=len(rxd[j][0]), fn_advance=adv[j]))
    for j, ((d, k), o) in enumerate(zip(rxd, robs)):
        if "crash" in o:
            ctx.oracle_fail("trx_data_rx_cb stopped by a sanitizer: " + o["crash"], dict(octets=d), key="c04-c-rx-sanitizer")
            continue
        cls = (o["rc"], o["called"], len(d) if len(d) < 8 else min(len(d) - 8, 520), d[0] >> 4 if d else None)
        ctx.nontrivial(("rx",) + cls[:2] + (cls[2] if cls[2] in (148, 150, 444, 446) else "other", cls[3] == 0))
        if o["called"] and not (o["tn"] <= 7 and o["fn"] < H and len(o["burst"]) in (148, 444) and all(-127 <= s <= 127 for s in o["burst"])
                                and o["rts_called"] and o["rts"][1] == o["tn"] and o["rts"][0] < H):
            ctx.oracle_fail("trxcon hands an ill-formed burst indication to its scheduler", dict(octets=d, observed={f: v for f, v in o.items() if f != "burst"}),
                            key="c04-c-rx-ind-shape:" + ("fn" if o["fn"] >= H else "len" if len(o["burst"]) not in (148, 444) else "other"))
        if k is None:
            continue
        m, legacy = msgs[k]
        if m["ver"] != 0:
            if o["called"] or o["rc"] != "ENOTSUP":
                ctx.oracle_fail("trxcon accepted a TRXD version %d message" % m["ver"], dict(msg=m, legacy=legacy), key="c04-c-accepts-v1")
            continue
        exp_bits = [(-127 if s == -128 else s) for s in m["burst"]]
        exp = dict(tn=m["tn"], fn=m["fn"], rssi=m["rssi"], toa256=m["toa"], burst=exp_bits, rts=((m["fn"] + adv[j]) % 2 ** 32 % H, m["tn"]))
        if o["rc"] != "OK" or not o["called"]:
            ctx.oracle_fail("a valid version-0 burst of the toolkit is not delivered by trxcon (rc=%s)" % o["rc"], dict(msg=m, legacy=legacy, octets=d),
                            key="c04-py-to-c:not-delivered")
            continue
        diff = [f for f in exp if o[f] != exp[f]]
        if diff:
            ctx.oracle_fail("trxcon decodes a toolkit burst differently: " + ",".join(diff), dict(msg=m, legacy=legacy, octets=d),
                            key="c04-py-to-c:" + ",".join(diff), expected={f: (exp[f] if f != "burst" else exp[f][:8]) for f in diff},
                            observed={f: (o[f] if f != "burst" else o[f][:8]) for f in diff})
        ctx.nontrivial(("py2c", len(m["burst"]), legacy, min(m["burst"]) == -128, m["toa"] < 0, m["fn"] > H - 3))
    # ================================================================ C -> Python: the real trx_if_handle_phyif_burst_req
    nreq = 400 if quick else 8000
    reqs = []
    for k in range(nreq):
        r = rng.below(10)
        ln = rng.choice([148, 444]) if r < 7 else rng.choice([0, 1, 147, 149, 150, 443, 445, 446, 500, 505, 506, 507, 508, 520, 600])
        tn = rng.below(8) if r < 9 else rng.choice([8, 9, 15, 16, 23, 32, 255])
        fn = U.fn_value(rng) if rng.chance(4, 5) else rng.choice([H, H + 1, 2 ** 31, 2 ** 32 - 1, rng.below(2 ** 32)])
        bits = [rng.below(2) for _ in range(ln)] if rng.chance(5, 6) else [rng.below(256) for _ in range(ln)]
        reqs.append((tn, fn, rng.choice([0, 1, 127, 128, 255]) if rng.chance(1, 2) else rng.below(256), bits))
    tobs = T.c_burst_req(reqs)
    tidx = list(range(len(reqs)))
    ctx.correspond("trx_if_handle_phyif_burst_req", "TrxIf", tidx, lambda j: T.m_tx_line(*reqs[j]), lambda j: T.tx_wire(tobs[j]),
                   show=lambda j: dict(tn=reqs[j][0], fn=reqs[j][1], pwr=reqs[j][2], burst_len=len(reqs[j][3])))
    sent = [(j, o["sent"][0]) for j, o in enumerate(tobs) if "crash" not in o and len(o["sent"]) == 1]
    back = {j: U.do_parse("tx", octets) for j, octets in sent}
    ctx.correspond("TxMsg.parse_msg(trxcon octets)", "Trxd", [j for j, _ in sent],
                   lambda j: "w_trxd_tx_parse " + " ".join(map(str, tobs[j]["sent"][0])), lambda j: back[j],
                   show=lambda j: dict(tn=reqs[j][0], fn=reqs[j][1], pwr=reqs[j][2], burst_len=len(reqs[j][3])))
    U.reuse_check(ctx, [("tx", octets) for j, octets in sent], [back[j] for j, _ in sent], "c04-parse-history")
    # the same datagrams as they really arrive: through DATAInterface.recv_tx_msg() on a socket (data_if.py is anchored here: its
    # receive size and version filter stand between trxcon's octets and the parser).  A datagram trxcon emits must come out of the
    # interface as the very message the parser gives on the full octets - and so must every valid Tx message of the toolkit itself
    U.negotiation_check(ctx, "c04")
    import logging as _logging
    from .. import fakesock
    fakesock.install()
    import data_if as _data_if
    _saved_disable = _logging.root.manager.disable
    _logging.disable(_logging.CRITICAL)
    try:
        difs = {v: _data_if.DATAInterface("127.0.0.1", 5802, "0.0.0.0", 5702) for v in (0, 1)}
        difs[1].set_hdr_ver(1)
        nvia = 0
        own = [(None, list(o[1:])) for (m, legacy), o in zip(msgs, gen_obs) if m["kind"] == "tx" and o and o[0] == 0][:400 if quick else 4000]
        for j, octets in list(sent) + own:
            fresh = U.do_parse("tx", octets)
            if fresh[0] != 0:
                continue
            ver = octets[0] >> 4
            d = difs.get(ver)
            if d is None:
                continue
            d.sock.inbox.append((bytes(octets), ("127.0.0.1", 5802)))
            try:
                got = d.recv_tx_msg()
                via = [3] if got is None else [0] + U.enc(U.from_real(got))
            except Exception as e:  # noqa
                via = U.exc_class(e)
            d.sock.inbox.clear()
            nvia += 1
            if via != fresh:
                ctx.oracle_fail("a burst datagram (%d octets, %s) comes out of DATAInterface.recv_tx_msg() differently from what the parser gives on the octets sent"
                                % (len(octets), "emitted by trxcon" if j is not None else "encoded by the toolkit"),
                                dict(octets=list(octets[:12]), length=len(octets), source="trxcon" if j is not None else "toolkit"),
                                key="c04-data-if-receive", expected=fresh[:12], observed=via[:12])
                break
        ctx.count("datagrams_through_DATAInterface", nvia)
        # the step in between on the way towards L1: TxMsg.trans(ver = the RECIPIENT's version) - the Rx message must carry exactly the
        # requested version (0 included), the sender's frame and timeslot, and the bits mapped 0 -> +127 / 1 -> -127; for version 0 the
        # datagram built from it is one trxcon accepts with those values
        D = U.toolkit()
        ntr = 0
        tcases = []
        for j, octets in (list(sent) + own)[:300 if quick else 3000]:
            t = D.TxMsg()
            try:
                t.parse_msg(bytearray(octets))
            except Exception:  # noqa
                continue
            if t.burst is None or len(t.burst) not in (148, 444):
                continue
            for target in (0, 1):
                r = t.trans(ver=target)
                ntr += 1
                want_bits = [(-127 if b else 127) for b in t.burst]
                got = (r.ver, r.fn, r.tn, list(r.burst) if r.burst is not None else None)
                if got != (target, t.fn, t.tn, want_bits):
                    ctx.oracle_fail("TxMsg.trans(ver=%d) of a version-%d burst gives an Rx message of version %d (frame %s / %s, timeslot %s / %s): what goes towards the recipient's L1 is not in the recipient's version"
                                    % (target, t.ver, r.ver, r.fn, t.fn, r.tn, t.tn), dict(octets=list(octets[:8]), source_version=t.ver, requested=target),
                                    key="c04-trans-version", expected=(target, t.fn, t.tn), observed=got[:3])
                    break
                if target == 0 and t.fn < H:
                    r.rssi, r.toa256 = -60, 0
                    try:
                        tcases.append((t, list(r.gen_msg(True))))
                    except ValueError:
                        pass
        cobs2 = T.c_data_rx([d for _, d in tcases]) if tcases else []
        for (t, d), o in zip(tcases, cobs2):
            if o.get("crash") or o.get("rc") != "OK" or not o.get("called") or (o["tn"], o["fn"]) != (t.tn, t.fn):
                ctx.oracle_fail("trxcon does not deliver (or delivers with another frame / timeslot) the version-0 datagram built from a forwarded burst",
                                dict(source_version=t.ver, fn=t.fn, tn=t.tn, datagram_head=d[:8], rc=o.get("rc")), key="c04-forwarded-py-to-c")
                break
        ctx.count("trans_to_recipient_version", ntr)
    finally:
        _logging.disable(_saved_disable)
    for j, (tn, fn, pwr, bits) in enumerate(reqs):
        o = tobs[j]
        ctx.nontrivial(("c2py", len(bits) if len(bits) in (0, 148, 444) else ("short" if len(bits) < 148 else "mid" if len(bits) < 444 else "long" if len(bits) <= 506 else "overflow"),
                        tn <= 7, fn >= H, "crash" in o))
        if "crash" in o:
            if len(bits) <= 506:
                ctx.oracle_fail("trx_if_handle_phyif_burst_req stopped by a sanitizer: " + o["crash"], dict(tn=tn, fn=fn, pwr=pwr, burst=bits), key="c04-c-tx-sanitizer")
            continue                     # > 506 octets: outside the statement (the scheduler emits 148 / 444); noted, see c04_c_tx_overflow_iff
        if tn > 7 or len(bits) not in (148, 444):
            continue
        exp = [0] + U.enc(dict(kind="tx", ver=0, fn=fn, tn=tn, pwr=pwr, burst=bits))
        if back[j] != exp:
            ctx.oracle_fail("the toolkit parses a burst emitted by trxcon to other values than trxcon was given", dict(tn=tn, fn=fn, pwr=pwr, burst=bits),
                            key="c04-c-to-py", expected=exp[:12], observed=back[j][:12])
    ctx.extra["c_tx_overflow_cases"] = sum(1 for o, r in zip(tobs, reqs) if "crash" in o and len(r[3]) > 506)
    # ================================================================ TRXC: command printers and response parser of trx_if.c vs model
    cmds = T.sample_cmds(rng, 60 if quick else 400)
    cobs = [T.parse_cmd_obs(t) for t in T.run_lines([T.cmd_line(c, fork=(c[0] == "setslot")) for c in cmds])]
    ctx.correspond("trx_if_handle_phyif_cmd", "TrxIf", list(range(len(cmds))), lambda j: T.m_cmd_line(cmds[j]), lambda j: T.cmd_wire(cobs[j]),
                   show=lambda j: cmds[j][:3])
    for c, o in zip(cmds, cobs):
        ctx.nontrivial(("cmd", c[0], o.get("rc", "crash"), len(o.get("queue", []))))
        for crit, text in o.get("queue", []):
            if o["sent"] and o["sent"][0] != o["queue"][0][1] + b"\0":
                ctx.oracle_fail("the first queued TRXC command is not what was sent (NUL-terminated)", dict(cmd=c), key="c04-c-ctrl-send")
    texts = sorted(set(q[1] for o in cobs if "queue" in o for q in o["queue"]))
    cases = T.rsp_cases(rng, 700 if quick else 12000, texts)
    sobs = T.c_ctrl_rsp_many(cases)
    mres = ctx.model("TrxIf", [T.m_rsp_line(c) for c in cases])
    det = [j for j in range(len(cases)) if mres[j][0] != 80]          # model says "uninitialised value read": the real outcome is arbitrary
    ctx.correspond("trx_ctrl_read_cb", "TrxIf", det, lambda j: T.m_rsp_line(cases[j]), lambda j: T.rsp_wire(sobs[j]),
                   show=lambda j: dict(pending=None if cases[j][0] is None else cases[j][0].decode("latin-1")[:40], critical=cases[j][1],
                                       datagram=bytes(cases[j][2])[:60].decode("latin-1"), sanitizer=sobs[j].get("crash")))
    ctx.count("ctrl_rsp_cases_model_says_uninitialised_read(not compared)", len(cases) - len(det))
    bres = ctx.model("TrxIf", [T.m_rsp_line(c, "w_trxif_rsp_branch") for c in cases])
    for c, b in zip(cases, bres):
        ctx.nontrivial(("rsp", tuple(b[:1]), b[1] != 0 if len(b) > 1 and b[0] in (4, 5) else None, c[0] is None, c[1]))
        ctx.count("ctrl_rsp_branch:%s" % {0: "read-none", 1: "ignored", 2: "no-pending", 3: "mismatch", 4: "rejected", 5: "accepted", 6: "null-deref", 7: "uninit", 8: "no-status"}.get(b[0], b[0]))
    # ================================================================ bookkeeping
    for k in range(0, len(rxd), max(1, len(rxd) // 3)):
        ctx.sample(dict(direction="python->c", octets_head=rxd[k][0][:12], n=len(rxd[k][0]), observed={f: v for f, v in robs[k].items() if f != "burst"}))
    for k in range(0, len(reqs), max(1, len(reqs) // 3)):
        ctx.sample(dict(direction="c->python", tn=reqs[k][0], fn=reqs[k][1], pwr=reqs[k][2], burst_len=len(reqs[k][3]), parsed_head=back.get(k, ["crash"])[:8]))
    ctx.count("rx_datagrams", len(rxd))
    ctx.count("rx_delivered", sum(1 for o in robs if o.get("called")))
    ctx.count("rx_refused", sum(1 for o in robs if not o.get("called")))
    ctx.count("burst_requests", len(reqs))
    ctx.extra["rule"] = ("messages from the C01 generators (boundary-heavy FN/RSSI/ToA, every modulation, NOPE, legacy on/off, 1/12 with -128 soft bits), 55% version-0 Rx; "
                         "their real gen_msg octets (+1/3 mutated: truncate, bit flip, append, first octet, odd payload lengths, > 512 octets, FN at/over the hyperframe) are decoded by the real "
                         "trx_data_rx_cb through a socketpair and by the extracted c_data_rx; burst requests (70% 148/444, lengths around 148/444/506, tn > 7, FN up to 2^32-1) go through the real "
                         "trx_if_handle_phyif_burst_req, c_burst_req and the real TxMsg.parse_msg; TRXC commands of every type and generated replies (half malformed) through "
                         "trx_if_handle_phyif_cmd / trx_ctrl_read_cb (forked, ASan+UBSan) vs model; distinct_nontrivial = distinct behaviour classes "
                         "(direction, result code, payload-length class, legacy, version, -128 present, model branch of the response parser, command type)")
