"""codec_builder - bridge between the AST of coq/theories/Model/Codec.v and the REAL trx_toolkit `codec` module
(imported from common.TOOLKIT, i.e. the working tree named by VERIF_REPO).  Used by C16, reusable by C17.

AST (plain tuples, mirrors Model/Codec.v constructor by constructor)
  lensrc : ('LFix', n) | ('LRest',) | ('LTab', key, [(int, n), ...]) | ('LDataLen', thr, a, b)
  pressrc: ('PAlways',) | ('PTab', key, [(int, bool), ...])
  bitf   : ('BitF', name_or_None, bl, fixed_or_None)
  field  : ('FUint', nm, l, p, le, sg, off, mult) | ('FBuf', nm, l, p) | ('FSpare', l, p, filler_int)
         | ('FBits', l, p, lsb, [bitf...]) | ('FEnv', nm, l, p, chk, [field...]) | ('FSeq', nm, l, p, [field...])
  a definition is a list of fields.  Names are non-negative ints; the Python field name is 'f%d' % nm (pyname).
Values
  ('VInt', z) | ('VBytes', bytes) | ('VDict', [(nm, val), ...]) (insertion order) | ('VList', [val, ...])
  <-> Python int | bytes | dict keyed 'f<nm>' | list          (to_py / from_py; env_to_py / env_from_py for dicts)

Public API
  codec_module()                         the real `codec` module of common.TOOLKIT
  build(fields, check_len=True, hang_guard=True) -> instance of a fresh codec.Envelope subclass
                                         (codec.ProtocolError raised by the real constructors propagates)
  HangDetected(BaseException)            raised by guarded sequence items that consume 0 octets of a non-empty buffer
                                         (the real Sequence.from_bytes would loop forever; the model says OutOfFuel)
  pyname, to_py, from_py, env_to_py, env_from_py
  big_to_ints, ast_to_ints, val_to_ints, env_to_ints, ints_to_val, ints_to_big, enc_line, dec_line, wf_line   (wire format;
                                         wf_line asks the model's executable well-formedness predicate wfb)
  run_encode(fields, env_pairs) -> list[int],  run_decode(chk, fields, data) -> list[int]
                                         observation of the real codec in the shape of w_c16_enc / w_c16_dec
  flen, fpres                            accessors

Observation shape (same as the model's ser_res):
  encode ok  [0, 0, len, octet...]        decode ok  [0, 0, used] + val_to_ints(VDict of obj.c in insertion order)
  codec.DecodeError [1, cause]  codec.EncodeError [2, cause]  HangDetected [3, 0]  anything else [4, cause]
  ProtocolError while building [4, 9]
  cause = class of the root of the __cause__ chain: DecodeError/EncodeError 0, KeyError 1, OverflowError 2,
          TypeError 3, ZeroDivisionError 4, anything else 99."""
from .. import common

LIMB_BASE = 1 << 30


class HangDetected(BaseException):
    """a sequence item consumed no octet of a non-empty buffer: `while offset < length` in the real
    Sequence.from_bytes does not terminate.  BaseException so that the codec's `except Exception` cannot wrap it."""


_ORDER_ALT = [0]

def codec_module():
    common.import_toolkit()
    import codec
    return codec


def pyname(nm):
    return "f%d" % nm


def flen(f):
    return f[1] if f[0] in ("FSpare", "FBits") else f[2]


def fpres(f):
    return f[2] if f[0] in ("FSpare", "FBits") else f[3]


# ------------------------------------------------------------------ building real codec objects

_GUARD = {}     # codec module -> its guarded Envelope subclass


def _guard_class(codec):
    cls = _GUARD.get(codec)
    if cls is None:
        class GuardedItem(codec.Envelope):
            def _from_bytes(self, vals, data, offset=0):
                used = super()._from_bytes(vals, data, offset)
                if used == 0 and len(data) > 0:
                    raise HangDetected("sequence item consumed 0 of %d octets" % len(data))
                return used
        _GUARD[codec] = cls = GuardedItem
    return cls


def _fix(l):
    """value of the `len=` keyword: n for ('LFix', n), 0 (flexible, callback attached later) otherwise"""
    return l[1] if l[0] == "LFix" else 0


def _attach(f, l, p, with_len=True):
    if with_len:
        if l[0] == "LTab":
            f.get_len = lambda v, _data, T=dict(l[2]), k=pyname(l[1]): T[v[k]]
        elif l[0] == "LDataLen":
            f.get_len = lambda _v, data, thr=l[1], a=l[2], b=l[3]: a if len(data) > thr else b
    if p[0] == "PTab":
        # the codec treats a field as absent iff its presence callback returns the object False (`is False`): every other result,
        # including falsy ones such as 0 or None, means present.  Callbacks written by users return such values (`v['flags'] & 1`),
        # so "present" is realised by different non-False objects, chosen by the key field's name (stable per definition)
        yes = (True, 1, 0, None, "")[sum(map(ord, pyname(p[1]))) % 5]
        f.get_pres = lambda v, T=dict((k, (yes if b else False)) for k, b in p[2]), k=pyname(p[1]): T[v[k]]
    return f


def _build_field(codec, f, hang_guard):
    kind = f[0]
    if kind == "FUint":
        _, nm, l, p, le, sg, off, mult = f
        cls = type("U", (codec.Uint,), {"SIGN": bool(sg), "BO": "little" if le else "big"})
        return _attach(cls(pyname(nm), len=_fix(l), offset=off, mult=mult), l, p)
    if kind == "FBuf":
        _, nm, l, p = f
        o = codec.Buf(pyname(nm), len=l[1]) if l[0] == "LFix" else codec.Buf(pyname(nm))
        return _attach(o, l, p)
    if kind == "FSpare":
        _, l, p, filler = f
        return _attach(codec.Spare("spare", len=_fix(l), filler=bytes([filler])), l, p)
    if kind == "FBits":
        _, l, p, lsb, bfs = f
        items = []
        for (_, nm, bl, fixed) in bfs:      # fresh objects: BitFieldSet.__init__ writes offset/mask into them
            if nm is None:
                items.append(codec.BitField.Spare(bl=bl))
            elif fixed is None:
                items.append(codec.BitField(pyname(nm), bl=bl))
            else:
                items.append(codec.BitField(pyname(nm), bl=bl, val=fixed))
        kw = {"len": l[1]} if (l[0] == "LFix" and l[1] >= 1) else {}
        # both spellings the class documents for each bit order ('lsb' / 'little', 'msb' / 'big'), alternating
        _ORDER_ALT[0] += 1
        o = codec.BitFieldSet(set=tuple(items), order=(("lsb", "little") if lsb else ("msb", "big"))[_ORDER_ALT[0] % 2], **kw)
        return _attach(o, l, p, with_len=False)     # BitFieldSet re-defines get_len to its constant length
    if kind == "FEnv":
        _, nm, l, p, chk, body = f
        inner = build(body, check_len=bool(chk), hang_guard=hang_guard)
        return _attach(inner.f(pyname(nm), len=_fix(l)), l, p)
    if kind == "FSeq":
        _, nm, l, p, item = f
        it = build(item, hang_guard=hang_guard, _item=True)
        # both documented ways of giving a sequence its item: the item= keyword, or a subclass with a class-level ITEM
        # (chosen by a property of the field name, so that a definition is always built the same way)
        if sum(map(ord, str(nm))) % 3 == 0:
            seq = type("Seq_" + pyname(nm), (codec.Sequence,), {"ITEM": it})()
        else:
            seq = codec.Sequence(item=it)
        return _attach(seq.f(pyname(nm), len=_fix(l)), l, p)
    raise ValueError("unknown field kind %r" % (kind,))


def build(fields, check_len=True, hang_guard=True, _item=False):
    """definition -> instance of a fresh subclass of the real codec.Envelope (own STRUCT tuple, fresh field objects).
    hang_guard: sequence ITEM envelopes raise HangDetected instead of letting Sequence.from_bytes spin."""
    codec = codec_module()
    fs = tuple(_build_field(codec, f, hang_guard) for f in fields)
    base = _guard_class(codec) if (_item and hang_guard) else codec.Envelope
    cls = type("Env", (base,), {"STRUCT": fs})
    return cls(check_len=check_len)


# ------------------------------------------------------------------ values

def to_py(val):
    t = val[0]
    if t == "VInt":
        return int(val[1])
    if t == "VBytes":
        return bytes(val[1])
    if t == "VDict":
        return env_to_py(val[1])
    if t == "VList":
        return [to_py(x) for x in val[1]]
    raise ValueError("bad value tag %r" % (t,))


def env_to_py(pairs):
    d = {}
    for nm, v in pairs:
        d[pyname(nm)] = to_py(v)
    return d


def from_py(obj):
    if isinstance(obj, dict):
        return ("VDict", env_from_py(obj))
    if isinstance(obj, (list, tuple)):
        return ("VList", [from_py(x) for x in obj])
    if isinstance(obj, (bytes, bytearray)):
        return ("VBytes", bytes(obj))
    if isinstance(obj, int):
        return ("VInt", int(obj))
    raise TypeError("value outside the typed domain: %r" % (obj,))


def env_from_py(d):
    """dict -> [(nm, val)] in the dict's insertion order"""
    return [(int(k[1:]), from_py(v)) for k, v in d.items()]


# ------------------------------------------------------------------ wire format (see the end of Model/Codec.v)

def big_to_ints(z):
    z = int(z)
    a, ls = abs(z), []
    while a:
        ls.append(a % LIMB_BASE)
        a //= LIMB_BASE
    return [1 if z < 0 else 0, len(ls)] + ls


def ints_to_big(ints, pos):
    sg, n = ints[pos], ints[pos + 1]
    m = 0
    for i in range(n - 1, -1, -1):
        m = m * LIMB_BASE + ints[pos + 2 + i]
    return (-m if sg else m), pos + 2 + n


def _len_ints(l):
    t = l[0]
    if t == "LFix":
        return [0, l[1]]
    if t == "LRest":
        return [1]
    if t == "LTab":
        out = [2, l[1], len(l[2])]
        for k, n in l[2]:
            out += big_to_ints(k) + [n]
        return out
    if t == "LDataLen":
        return [3, l[1], l[2], l[3]]
    raise ValueError("bad lensrc %r" % (l,))


def _pres_ints(p):
    if p[0] == "PAlways":
        return [0]
    if p[0] == "PTab":
        out = [1, p[1], len(p[2])]
        for k, b in p[2]:
            out += big_to_ints(k) + [1 if b else 0]
        return out
    raise ValueError("bad pressrc %r" % (p,))


def _bitf_ints(bf):
    _, nm, bl, fixed = bf
    out = [0 if nm is None else 1, 0 if nm is None else nm, bl, 0 if fixed is None else 1]
    if fixed is not None:
        out += big_to_ints(fixed)
    return out


def _field_ints(f):
    kind = f[0]
    if kind == "FUint":
        _, nm, l, p, le, sg, off, mult = f
        return [0, nm] + _len_ints(l) + _pres_ints(p) + [1 if le else 0, 1 if sg else 0] + big_to_ints(off) + big_to_ints(mult)
    if kind == "FBuf":
        _, nm, l, p = f
        return [1, nm] + _len_ints(l) + _pres_ints(p)
    if kind == "FSpare":
        _, l, p, filler = f
        return [2] + _len_ints(l) + _pres_ints(p) + [filler]
    if kind == "FBits":
        _, l, p, lsb, bfs = f
        out = [3] + _len_ints(l) + _pres_ints(p) + [1 if lsb else 0, len(bfs)]
        for bf in bfs:
            out += _bitf_ints(bf)
        return out
    if kind == "FEnv":
        _, nm, l, p, chk, body = f
        return [4, nm] + _len_ints(l) + _pres_ints(p) + [1 if chk else 0] + ast_to_ints(body)
    if kind == "FSeq":
        _, nm, l, p, item = f
        return [5, nm] + _len_ints(l) + _pres_ints(p) + ast_to_ints(item)
    raise ValueError("unknown field kind %r" % (kind,))


def ast_to_ints(fields):
    out = [len(fields)]
    for f in fields:
        out += _field_ints(f)
    return out


def val_to_ints(val):
    t = val[0]
    if t == "VInt":
        return [0] + big_to_ints(val[1])
    if t == "VBytes":
        return [1, len(val[1])] + list(val[1])
    if t == "VDict":
        return [2] + env_to_ints(val[1])
    if t == "VList":
        out = [3, len(val[1])]
        for x in val[1]:
            out += val_to_ints(x)
        return out
    raise ValueError("bad value tag %r" % (t,))


def env_to_ints(pairs):
    out = [len(pairs)]
    for nm, v in pairs:
        out.append(nm)
        out += val_to_ints(v)
    return out


def ints_to_val(ints, pos):
    """parse one `val` of the wire format at ints[pos:] -> (val, next position)"""
    t = ints[pos]
    if t == 0:
        z, pos = ints_to_big(ints, pos + 1)
        return ("VInt", z), pos
    if t == 1:
        n = ints[pos + 1]
        return ("VBytes", bytes(ints[pos + 2:pos + 2 + n])), pos + 2 + n
    if t == 2:
        n, pos = ints[pos + 1], pos + 2
        pairs = []
        for _ in range(n):
            nm = ints[pos]
            v, pos = ints_to_val(ints, pos + 1)
            pairs.append((nm, v))
        return ("VDict", pairs), pos
    if t == 3:
        n, pos = ints[pos + 1], pos + 2
        xs = []
        for _ in range(n):
            v, pos = ints_to_val(ints, pos)
            xs.append(v)
        return ("VList", xs), pos
    raise ValueError("bad value tag %r at %d" % (t, pos))


def enc_line(fields, env_pairs):
    return "w_c16_enc " + " ".join(map(str, ast_to_ints(fields) + env_to_ints(env_pairs)))


def wf_line(fields):
    return "w_c16_wf " + " ".join(map(str, ast_to_ints(fields)))


def dec_line(chk, fields, data):
    return "w_c16_dec " + " ".join(map(str, [1 if chk else 0] + ast_to_ints(fields) + [len(data)] + list(data)))


# ------------------------------------------------------------------ observations of the real codec

def _cause(codec, e):
    root, hops = e, 0
    while root.__cause__ is not None and hops < 1000:
        root, hops = root.__cause__, hops + 1
    if isinstance(root, (codec.DecodeError, codec.EncodeError)):
        return 0
    if isinstance(root, KeyError):
        return 1
    if isinstance(root, OverflowError):
        return 2
    if isinstance(root, TypeError):
        return 3
    if isinstance(root, ZeroDivisionError):
        return 4
    return 99


def _observe(codec, thunk):
    try:
        return thunk()
    except codec.DecodeError as e:
        return [1, _cause(codec, e)]
    except codec.EncodeError as e:
        return [2, _cause(codec, e)]
    except HangDetected:
        return [3, 0]
    except Exception as e:
        return [4, _cause(codec, e)]


def run_encode(fields, env_pairs):
    """Envelope.to_bytes() of a freshly built codec object with obj.c = the given dict"""
    codec = codec_module()
    try:
        obj = build(fields)
    except codec.ProtocolError:
        return [4, 9]
    obj.c = env_to_py(env_pairs)

    def go():
        b = obj.to_bytes()
        return [0, 0, len(b)] + list(b)
    return _observe(codec, go)


def run_decode(chk, fields, data):
    """Envelope(check_len=chk).from_bytes(data) of a freshly built codec object"""
    codec = codec_module()
    try:
        obj = build(fields, check_len=bool(chk))
    except codec.ProtocolError:
        return [4, 9]

    def go():
        used = obj.from_bytes(bytes(data))
        return [0, 0, used] + val_to_ints(from_py(obj.c))
    return _observe(codec, go)
