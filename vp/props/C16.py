"""C16 - declarative codec (trx_toolkit/codec.py): encode and decode are mutually inverse and length-exact.
Model: Model/Codec.v; theorems: Props/C16.v.
Tie: Gen/CodecConst.v (class defaults read by reflection) + correspondence of the extracted model
(w_c16_enc / w_c16_dec) with the REAL codec objects that codec_builder builds from definitions drawn in the
model's AST: random nested definitions (mostly well-formed, ~15 % deliberately not), valid / boundary / invalid
values, and octet strings derived from the real encodings (prefixes, trailing octets, bit flips) plus junk.
The implementation-level oracle states the round-trip / error-class laws directly on the real observations."""
import time

from .. import common
from . import codec_builder as cb
from .codec_builder import flen, fpres, pyname

A = ("PAlways",)
REST = ("LRest",)
PROTO_TAGS = ("bits-overflow", "bits-bl0")


# ------------------------------------------------------------------ Gen

def gen(ctx):
    codec = cb.codec_module()

    def z(x):
        x = int(x)
        return str(x) if x >= 0 else "(%d)" % x
    order = codec.BitFieldSet.DEF_PARAMS["order"]
    rows = [
        ("py_uint_def_len", codec.Uint.DEF_LEN),
        ("py_uint16_len", codec.Uint16BE.DEF_LEN),
        ("py_uint32_len", codec.Uint32BE.DEF_LEN),
        ("py_int16_len", codec.Int16BE.DEF_LEN),
        ("py_int32_len", codec.Int32BE.DEF_LEN),
        ("py_spare_filler", codec.Spare.DEF_PARAMS["filler"][0]),
        ("py_uint_def_offset", codec.Uint.DEF_PARAMS["offset"]),
        ("py_uint_def_mult", codec.Uint.DEF_PARAMS["mult"]),
        ("py_bits_def_order_msb", 1 if order in ("big", "msb") else 0),
        ("py_field_def_len", codec.Field.DEF_LEN),
    ]
    txt = common.gen_header("trx_toolkit/codec.py class defaults (DEF_LEN / DEF_PARAMS, read by reflection on the imported module)")
    txt += "".join("Definition %s : Z := %s.\n" % (n, z(v)) for n, v in rows)
    ctx.gen("CodecConst", txt)


# ------------------------------------------------------------------ static analysis of a definition

def bits_total(bfs):
    return sum(b[2] for b in bfs)


def bits_len(l, bfs):
    return l[1] if (l[0] == "LFix" and l[1] >= 1) else (bits_total(bfs) + 7) // 8


def bits_layout(l, lsb, bfs):
    """[(bitf, offset)] in processing order (BitFieldSet.__init__)"""
    off = 8 * bits_len(l, bfs)
    out = []
    for bf in (bfs[::-1] if lsb else bfs):
        off -= bf[2]
        out.append((bf, off))
    return out


def field_static(f):
    """octets the field always occupies, or None"""
    if fpres(f)[0] != "PAlways":
        return None
    if f[0] == "FBits":
        return bits_len(f[1], f[4])
    l = flen(f)
    return l[1] if (l[0] == "LFix" and l[1] >= 1) else None


def static_size(fields):
    s = 0
    for f in fields:
        x = field_static(f)
        if x is None:
            return None
        s += x
    return s


def field_max(f):
    if f[0] == "FBits":
        return bits_len(f[1], f[4])
    l = flen(f)
    if l[0] == "LFix" and l[1] >= 1:
        return l[1]
    if l[0] == "LTab":
        return max([n for _, n in l[2]] or [0])
    if l[0] == "LDataLen":
        return max(l[2], l[3])
    return None


def max_size(fields):
    s = 0
    for f in fields:
        x = field_max(f)
        if x is None:
            return None
        s += x
    return s


def body_of(f):
    return f[5] if f[0] == "FEnv" else f[4] if f[0] == "FSeq" else None


class Info:
    """kinds, nesting depth, callbacks, spare/padding, flexible lengths of a definition"""

    def __init__(self, fields):
        self.kinds, self.depth, self.cb, self.spare, self.flex, self.nfields = set(), 0, False, False, False, 0
        self.walk(fields, 0)
        self.kinds_t = tuple(sorted(self.kinds))

    def walk(self, fields, d):
        self.depth = max(self.depth, d)
        for f in fields:
            self.nfields += 1
            self.kinds.add(f[0])
            l, p = flen(f), fpres(f)
            if p[0] == "PTab":
                self.cb = True
            if f[0] == "FBits":
                if 8 * bits_len(l, f[4]) != bits_total(f[4]) or any(b[1] is None for b in f[4]):
                    self.spare = True
                continue
            if l[0] in ("LTab", "LDataLen"):
                self.cb = True
            if l[0] in ("LRest", "LDataLen") or l == ("LFix", 0):
                self.flex = True
            if f[0] == "FSpare":
                self.spare = True
            b = body_of(f)
            if b is not None:
                self.walk(b, d + 1)


# ------------------------------------------------------------------ definition generator (well-formed)

class Level:
    def __init__(self):
        self.names = set()
        self.keys = []      # candidates: dict(name, lo, hi, set)

    def new(self, rng):
        while True:
            n = rng.below(100)
            if n not in self.names:
                self.names.add(n)
                return n


def int_range(n, sg):
    return (-(1 << (8 * n - 1)), (1 << (8 * n - 1)) - 1) if sg else (0, (1 << (8 * n)) - 1)


def keyset_for(rng, kc):
    if kc["set"] is None:
        lo, hi = kc["lo"], kc["hi"]
        pool = []
        for v in (0, 1, 2, 3, 4, 5, 7, 8, 15, 16, 255, 256, 65535, -1, -2, -128, lo, hi):
            if lo <= v <= hi and v not in pool:
                pool.append(v)
        rng.shuffle(pool)
        kc["set"] = pool[:min(len(pool), rng.range(2, 5))]
    return kc["set"]


def g_ptab(rng, lv):
    kc = rng.choice(lv.keys)
    ks = keyset_for(rng, kc)
    bs = [rng.chance(1, 2) for _ in ks]
    if not any(bs):
        bs[rng.below(len(bs))] = True
    elif all(bs) and rng.chance(3, 4):
        bs[rng.below(len(bs))] = False
    return ("PTab", kc["name"], list(zip(ks, bs)))


def g_ltab(rng, lv, length_of):
    kc = rng.choice(lv.keys)
    ks = keyset_for(rng, kc)
    return ("LTab", kc["name"], [(k, length_of()) for k in ks])


def g_uint(rng, lv, p, plain=None):
    n = rng.choice([1, 1, 1, 2, 2, 2, 3, 4, 4, 5, 6, 7, 8])
    le, sg = rng.chance(1, 2), rng.chance(1, 2)
    if plain is None:
        plain = rng.chance(3, 5)
    off, mult = 0, 1
    if not plain:
        w = rng.below(3)
        if w != 0:
            off = rng.choice([1, -1, 5, -100, 1000, 1 << 31, -(1 << 63), 1 << 64, rng.range(-(1 << 64), 1 << 64)])
        if w != 1:
            mult = rng.choice([-1, 2, 3, -7, 10, 256])
    nm = lv.new(rng)
    if off == 0 and mult == 1 and p == A:
        lo, hi = int_range(n, sg)
        lv.keys.append(dict(name=nm, lo=lo, hi=hi, set=None))
    return ("FUint", nm, ("LFix", n), p, le, sg, off, mult)


def g_bits(rng, lv, p):
    octs = rng.range(1, 4)
    total = 8 * octs if rng.chance(3, 5) else 8 * octs - rng.range(1, 7)
    nb = min(total, rng.range(1, 6))
    cuts = set()
    while len(cuts) < nb - 1:
        cuts.add(rng.range(1, total - 1))
    edges = [0] + sorted(cuts) + [total]
    bfs = []
    for a, b in zip(edges, edges[1:]):
        bl = b - a
        w = rng.below(20)
        if w < 4:
            bfs.append(("BitF", None, bl, None))
        elif w < 9:
            mx = (1 << bl) - 1
            bfs.append(("BitF", lv.new(rng), bl, rng.choice([0, 1 & mx, mx, mx >> 1, rng.range(0, mx)])))
        else:
            nm = lv.new(rng)
            bfs.append(("BitF", nm, bl, None))
            if p == A:
                lv.keys.append(dict(name=nm, lo=0, hi=(1 << bl) - 1, set=None))
    need = (total + 7) // 8
    w = rng.below(20)
    l = REST if w < 12 else ("LFix", need) if w < 17 else ("LFix", need + 1)
    return ("FBits", l, p, rng.chance(1, 2), bfs)


def g_level(rng, depth, nf, allow_flex=True, static=False, item=False, tail=None):
    """one envelope level.  static: every field always present with a fixed length; item: first field is an
    always-present fixed-length FUint/FBits; tail: None | 'rest' (last field is a Buf LRest) | 'ldl' (LDataLen Buf + LRest Buf)"""
    lv = Level()
    fields = []
    n_tail = {None: 0, "rest": 1, "ldl": 2}[tail]
    for i in range(nf):
        last = (i == nf - 1) and n_tail == 0
        first_item = item and i == 0
        p = A
        if not static and not first_item and lv.keys and rng.chance(1, 5):
            p = g_ptab(rng, lv)
        nest = depth < 3
        w = rng.below(100)
        if first_item:
            kind = "FUint" if w < 60 else "FBits"
        else:
            kind = "FUint" if w < 30 else "FBuf" if w < 50 else "FSpare" if w < 57 else "FBits" if w < 74 else "FEnv" if w < 88 else "FSeq"
            if kind in ("FEnv", "FSeq") and (not nest or rng.chance(depth, 6)):
                kind = rng.choice(["FUint", "FBits", "FBuf"])
        if kind == "FUint":
            fields.append(g_uint(rng, lv, p, plain=True if first_item and rng.chance(1, 2) else None))
        elif kind == "FBits":
            fields.append(g_bits(rng, lv, p))
        elif kind == "FBuf":
            nm = lv.new(rng)
            w = rng.below(10)
            if not static and last and allow_flex and w < 4:
                l = REST if rng.chance(5, 6) else ("LFix", 0)
            elif not static and lv.keys and w < 7:
                l = g_ltab(rng, lv, lambda: rng.range(0, 8))
            else:
                l = ("LFix", rng.range(1, 8) if rng.chance(9, 10) else rng.range(9, 40))
            fields.append(("FBuf", nm, l, p))
        elif kind == "FSpare":
            if not static and lv.keys and rng.chance(1, 3):
                l = g_ltab(rng, lv, lambda: rng.range(0, 4))
            else:
                l = ("LFix", rng.range(1, 4))
            fields.append(("FSpare", l, p, rng.choice([0, 0x2b, 0xff, rng.below(256)])))
        elif kind == "FEnv":
            nm = lv.new(rng)
            variants = ["fix", "fix"]
            if not static:
                variants.append("fixflex")
                if last and allow_flex:
                    variants += ["rest", "rest"]
                if lv.keys:
                    variants += ["tab"]
            v = rng.choice(variants)
            sub_nf = rng.range(1, max(2, 4 - depth))
            chk = True
            if v == "fix":
                body = g_level(rng, depth + 1, sub_nf, static=True)
                l = ("LFix", static_size(body))
                chk = rng.chance(5, 6)
            elif v == "rest":
                body = g_level(rng, depth + 1, sub_nf, allow_flex=True, tail=rng.choice([None, None, "rest", "ldl"]))
                l = REST
            else:
                body = g_level(rng, depth + 1, max(1, sub_nf - 1), allow_flex=False, tail="rest")
                mx = max_size(body[:-1])
                if v == "fixflex":
                    l = ("LFix", max(1, mx + rng.range(0, 4)))
                else:
                    l = g_ltab(rng, lv, lambda: mx + rng.range(0, 4))
            fields.append(("FEnv", nm, l, p, chk, body))
        else:
            nm = lv.new(rng)
            variants = ["fix"]
            if not static:
                if lv.keys:
                    variants.append("tab")
                if last and allow_flex:
                    variants += ["rest", "rest", "rest"]
            v = rng.choice(variants)
            sub_nf = rng.range(1, max(2, 4 - depth))
            if v == "rest":
                it = g_level(rng, depth + 1, sub_nf, allow_flex=False, item=True)
                l = REST
            else:
                it = g_level(rng, depth + 1, sub_nf, static=True, item=True)
                s = static_size(it)
                if v == "fix":
                    l = ("LFix", s * rng.range(1, 3))
                else:
                    l = g_ltab(rng, lv, lambda: s * rng.range(0, 3))
            fields.append(("FSeq", nm, l, p, it))
    if tail == "ldl":
        thr = rng.range(1, 12)
        if rng.chance(1, 2):            # PDUv0Rx style: a if len(data) > thr else thr
            a, b = thr + rng.range(1, 8), thr
        else:
            a, b = rng.range(0, 10), rng.range(0, 10)
        fields.append(("FBuf", lv.new(rng), ("LDataLen", thr, a, b), A))
    if tail in ("rest", "ldl"):
        fields.append(("FBuf", lv.new(rng), REST, A))
    return fields


def partial_tables(rng, fields):
    """an optional buffer whose length table lists only the cases in which the field EXISTS (`type | [body(TABLE[type])]`: TABLE has
    no entry for the types without a body) - the way such tables are written by hand; the length callback of an absent field must
    never be evaluated (it would raise KeyError)"""
    out = []
    for f in fields:
        g = list(f)
        if g[0] == "FEnv":
            g[5] = partial_tables(rng, g[5])
        elif g[0] == "FSeq":
            g[4] = partial_tables(rng, g[4])
        elif g[0] == "FBuf" and g[3][0] == "PTab" and g[2][0] in ("LFix", "LTab") and any(b for _, b in g[3][2]) and rng.chance(1, 2):
            g[2] = ("LTab", g[3][1], [(kv, rng.range(1, 4)) for kv, b in g[3][2] if b])
        out.append(tuple(g))
    return out


def gen_wf(rng):
    nf = rng.range(1, 6)
    if nf >= 2 and rng.chance(1, 12):
        return partial_tables(rng, g_level(rng, 0, nf - 2, tail="ldl"))
    return partial_tables(rng, g_level(rng, 0, nf))


# ------------------------------------------------------------------ definition mutations (NOT well-formed stream)

def thaw(fields):
    out = []
    for f in fields:
        g = list(f)
        if f[0] == "FEnv":
            g[5] = thaw(f[5])
        elif f[0] == "FSeq":
            g[4] = thaw(f[4])
        elif f[0] == "FBits":
            g[4] = [list(b) for b in f[4]]
        out.append(g)
    return out


def freeze(fields):
    out = []
    for g in fields:
        f = list(g)
        if f[0] == "FEnv":
            f[5] = freeze(f[5])
        elif f[0] == "FSeq":
            f[4] = freeze(f[4])
        elif f[0] == "FBits":
            f[4] = [tuple(b) for b in f[4]]
        for k in (1, 2, 3):
            if k < len(f) and isinstance(f[k], list) and f[k] and f[k][0] in ("LFix", "LRest", "LTab", "LDataLen", "PAlways", "PTab"):
                f[k] = tuple(f[k])
        out.append(tuple(f))
    return out


def levels_of(fields, acc=None):
    """all field lists of a (thawed) definition"""
    if acc is None:
        acc = []
    acc.append(fields)
    for f in fields:
        if f[0] == "FEnv":
            levels_of(f[5], acc)
        elif f[0] == "FSeq":
            levels_of(f[4], acc)
    return acc


ZERO_ITEMS = [
    lambda rng: [("FBuf", 1, ("LDataLen", rng.range(0, 9), 0, 0), A)],
    lambda rng: [("FSpare", ("LDataLen", rng.range(1, 4), 1, 0), A, 0x55)],
    lambda rng: [("FBits", REST, A, rng.chance(1, 2), [])],
    lambda rng: [("FBuf", 1, ("LDataLen", rng.range(1, 4), rng.range(1, 2), 0), A)],
    lambda rng: [("FBits", REST, A, False, [("BitF", None, 0, None)]), ("FBuf", 2, ("LDataLen", 3, 2, 0), A)],
    # all-optional item: presence keyed on a name the (empty) item dict never holds -> KeyError, wrapped
    lambda rng: [("FBuf", 2, ("LFix", 1), ("PTab", 140, [(0, True), (1, False)])), ("FSpare", ("LFix", 1), ("PTab", 140, [(0, False), (1, True)]), 0)],
]

# hand-shaped well-formed definitions: optional fields whose length callback is defined only where the field exists
def _u8(nm, p=None):
    return ("FUint", nm, ("LFix", 1), p or A, False, False, 0, 1)


SHAPED = [
    # type | [body(TABLE[type])] - TABLE has no entry for the types without a body
    lambda rng: [_u8(0), ("FBuf", 1, ("LTab", 0, [(1, 2), (2, 3)]), ("PTab", 0, [(0, False), (1, True), (2, True)]))],
    # flag | [len] | [data(len)] - 'len' does not exist when the flag is 0
    lambda rng: [_u8(0), _u8(1, ("PTab", 0, [(0, False), (1, True)])),
                 ("FBuf", 2, ("LTab", 1, [(1, 1), (2, 2), (3, 3)]), ("PTab", 0, [(0, False), (1, True)]))],
    # the same as the item of a sequence
    lambda rng: [_u8(0), ("FSeq", rng.choice([3, 4, 5]), REST, A,
                          [_u8(0), ("FBuf", 1, ("LTab", 0, [(1, 2), (2, 1)]), ("PTab", 0, [(0, False), (1, True), (2, True)]))])],
    lambda rng: [("FSeq", rng.choice([3, 4, 5]), REST, A,
                  [_u8(0), _u8(1, ("PTab", 0, [(0, False), (1, True)])),
                   ("FBuf", 2, ("LTab", 1, [(1, 1), (2, 2)]), ("PTab", 0, [(0, False), (1, True)]))])],
    # an optional nested envelope with a table length
    lambda rng: [_u8(0), ("FEnv", 2, ("LTab", 0, [(1, 2), (2, 3)]), ("PTab", 0, [(0, False), (1, True), (2, True)]), True, [("FBuf", 0, REST, A)])],
]

MUTS = ("dup-name", "flex-middle", "bad-key", "mult0", "fixed-range", "spare-rest", "env-loose",
        "bits-overflow", "bits-bl0", "bits-spare0", "seq-zero")


def mutate_def(rng, fields):
    """one well-formedness violation; returns (fields, tag) or None when the kind does not apply"""
    d = thaw(fields)
    lvls = levels_of(d)
    kind = rng.choice(MUTS)

    def pick(pred):
        c = [(lv, i) for lv in lvls for i, f in enumerate(lv) if pred(lv, i, f)]
        return rng.choice(c) if c else None
    if kind == "dup-name":
        # only between fields of the same value type, so that values stay typed (int / bytes / dict / list)
        c = pick(lambda lv, i, f: f[0] in ("FUint", "FBuf", "FEnv", "FSeq") and sum(1 for g in lv if g[0] == f[0]) >= 2)
        if c and rng.chance(2, 3):
            lv, i = c
            others = [g for j, g in enumerate(lv) if j != i and g[0] == lv[i][0]]
            lv[i][1] = rng.choice(others)[1]
        else:
            c = pick(lambda lv, i, f: f[0] == "FBits" and any(b[1] is not None and b[3] is None for b in f[4])
                     and any(g[0] == "FUint" for g in lv))
            if not c:
                return None
            lv, i = c
            b = rng.choice([b for b in lv[i][4] if b[1] is not None and b[3] is None])
            b[1] = rng.choice([g for g in lv if g[0] == "FUint"])[1]
    elif kind == "flex-middle":
        c = pick(lambda lv, i, f: i < len(lv) - 1)
        if not c:
            return None
        lv, i = c
        if lv[i][0] == "FBuf" and rng.chance(1, 2):
            lv[i][2] = REST
        else:
            lv.insert(i, ["FBuf", 100 + rng.below(20), rng.choice([REST, ("LFix", 0), ("LDataLen", 2, 5, 1)]), A])
    elif kind == "bad-key":
        def has_tab(lv, i, f):
            return (flen(f)[0] == "LTab" and f[0] != "FBits") or fpres(f)[0] == "PTab"
        c = pick(has_tab)
        if not c:
            return None
        lv, i = c
        f = lv[i]
        later = [g[1] for g in lv[i + 1:] if g[0] in ("FUint",)]
        bufs = [g[1] for g in lv if g[0] in ("FBuf", "FEnv", "FSeq") and g is not f]
        nk = rng.choice([150 + rng.below(10)] + later[:1] + bufs[:1])
        li, pi = (1, 2) if f[0] in ("FSpare", "FBits") else (2, 3)
        if fpres(f)[0] == "PTab" and (flen(f)[0] != "LTab" or f[0] == "FBits" or rng.chance(1, 2)):
            f[pi] = ("PTab", nk, f[pi][2])
        else:
            f[li] = ("LTab", nk, f[li][2])
        kind = "bad-key"
    elif kind == "mult0":
        c = pick(lambda lv, i, f: f[0] == "FUint")
        if not c:
            return None
        lv, i = c
        lv[i][7] = 0
    elif kind == "fixed-range":
        c = pick(lambda lv, i, f: f[0] == "FBits" and any(b[1] is not None for b in f[4]))
        if not c:
            return None
        lv, i = c
        b = rng.choice([b for b in lv[i][4] if b[1] is not None])
        b[3] = rng.choice([(1 << b[2]) + rng.below(1 << b[2]), -1, -(1 << b[2]), 1 << 70])
    elif kind == "spare-rest":
        c = pick(lambda lv, i, f: f[0] == "FSpare")
        if c:
            lv, i = c
            lv[i][1] = rng.choice([REST, ("LFix", 0)])
        else:
            lv = rng.choice(lvls)
            lv.insert(rng.below(len(lv) + 1), ["FSpare", REST, A, 0xaa])
    elif kind == "env-loose":
        c = pick(lambda lv, i, f: f[0] == "FEnv" and flen(f)[0] == "LFix" and static_size(freeze(f[5])) is not None)
        if not c:
            return None
        lv, i = c
        lv[i][4] = False
        lv[i][2] = ("LFix", lv[i][2][1] + rng.range(1, 3))
    elif kind == "bits-overflow":
        c = pick(lambda lv, i, f: f[0] == "FBits")
        if not c:
            return None
        lv, i = c
        need = (bits_total(lv[i][4]) + 7) // 8
        if need >= 2 and rng.chance(1, 2):
            lv[i][1] = ("LFix", need - 1)
        else:
            lv[i][1] = ("LFix", need)
            lv[i][4].insert(rng.below(len(lv[i][4]) + 1), ["BitF", None if rng.chance(1, 2) else 120, 8 * need - bits_total(lv[i][4]) + rng.range(1, 9), None])
    elif kind == "bits-bl0":
        c = pick(lambda lv, i, f: f[0] == "FBits")
        if not c:
            return None
        lv, i = c
        named = [b for b in lv[i][4] if b[1] is not None]
        if named and rng.chance(1, 2):
            b = rng.choice(named)
            b[2] = 0
            if b[3] is not None:
                b[3] = 0
        else:
            lv[i][4].insert(rng.below(len(lv[i][4]) + 1), ["BitF", 121, 0, rng.choice([None, 0])])
    elif kind == "bits-spare0":
        c = pick(lambda lv, i, f: f[0] == "FBits")
        if not c:
            return None
        lv, i = c
        lv[i][4].insert(rng.below(len(lv[i][4]) + 1), ["BitF", None, 0, None])
    elif kind == "seq-zero":
        item = rng.choice(ZERO_ITEMS)(rng)
        c = pick(lambda lv, i, f: f[0] == "FSeq")
        if c and rng.chance(1, 2):
            lv, i = c
            lv[i][4] = thaw(item)
        else:
            top = d
            if top and top[-1][0] != "FBits" and (flen(top[-1])[0] in ("LRest", "LDataLen") or flen(top[-1]) == ("LFix", 0)):
                top[-1] = ["FSeq", 130, REST, A, thaw(item)]
            else:
                top.append(["FSeq", 130, REST, A, thaw(item)])
    return freeze(d), kind


# ------------------------------------------------------------------ values

class VState:
    def __init__(self):
        self.valid = True
        self.sites = []
        self.bounds = set()


def pick_raw(rng, lo, hi):
    if rng.chance(3, 5):
        c = [v for v in (lo, lo + 1, -1, 0, 1, (lo + hi) // 2, hi - 1, hi) if lo <= v <= hi]
        return rng.choice(c)
    return rng.range(lo, hi)


def gen_value(rng, fields, st, path, base, target=None):
    """walk one envelope level; returns (env dict given to the encoder, expected decoded dict, size in octets).
    Python-native objects (dict / list / int / bytes); dict order is the order the real decoder inserts."""
    env, exp = {}, {}
    keyuse = {}
    for f in fields:
        srcs = [fpres(f)] + ([] if f[0] == "FBits" else [flen(f)])
        pp = fpres(f)
        for s in srcs:
            if s[0] in ("LTab", "PTab"):
                ks = [k for k, _ in s[2]]
                if s[0] == "LTab" and pp[0] == "PTab" and pp[1] == s[1]:
                    # a length table that lists only the cases in which the field exists: the key values for which the field is
                    # absent are fine as well (the length callback is never evaluated for them)
                    ks = ks + [k for k, b in pp[2] if not b and k not in ks]
                keyuse.setdefault(s[1], []).append(ks)

    def wanted(nm):
        ls = keyuse.get(nm)
        if not ls:
            return None
        w = set(ls[0])
        for x in ls[1:]:
            w &= set(x)
        return sorted(w)

    def keyval(nm):
        for d in (exp, env):
            v = d.get(pyname(nm))
            if isinstance(v, int):
                return v
        return None

    def table(src):
        kv = keyval(src[1])
        T = dict(src[2])
        if kv in T:
            return T[kv]
        st.valid = False
        return rng.choice(src[2])[1] if src[2] else 0

    off = base
    pending_rest = None
    nfl = len(fields)
    for i, f in enumerate(fields):
        last = i == nfl - 1
        kind, l, p = f[0], flen(f), fpres(f)
        if p[0] == "PTab" and not table(p):
            st.bounds.add(off)
            continue
        if kind == "FUint":
            _, nm, _, _, le, sg, foff, mult = f
            n = l[1] if (l[0] == "LFix" and l[1] >= 1) else 1
            lo, hi = int_range(n, sg)
            v = None
            w = wanted(nm)
            if w is not None:
                c = [x for x in w if mult != 0 and (x - foff) % mult == 0 and lo <= (x - foff) // mult <= hi]
                if c:
                    v = rng.choice(c)
                else:
                    st.valid = False
            if v is None:
                raw = pick_raw(rng, lo, hi)
                v = raw * mult + foff
            env[pyname(nm)] = v
            exp[pyname(nm)] = v
            st.sites.append(dict(kind="uint", path=path, name=pyname(nm), lo=lo, hi=hi, mult=mult, off=foff, key=w is not None, keys=w))
            off += n
        elif kind == "FBuf":
            nm = f[1]
            if l[0] == "LFix" and l[1] >= 1:
                L = l[1]
                st.sites.append(dict(kind="buf_fix", path=path, name=pyname(nm), n=L))
            elif l[0] == "LTab":
                L = table(l)
                st.sites.append(dict(kind="buf_tab", path=path, name=pyname(nm), n=L))
            elif l[0] == "LDataLen":
                thr, a, b = l[1], l[2], l[3]
                nxt = fields[i + 1] if i + 1 < nfl else None
                if i == nfl - 2 and target is None and nxt[0] == "FBuf" and flen(nxt)[0] == "LRest" and fpres(nxt) == A:
                    L = None
                    for _ in range(8):
                        r = rng.choice([0, 1, 2, thr + 1, max(0, thr - a), max(0, thr - a + 1), max(0, thr - b), rng.range(0, 8)])
                        if a + r > thr:
                            L = a
                        elif b + r <= thr:
                            L = b
                        if L is not None:
                            break
                    if L is None:
                        r, L = thr + 1, a
                    pending_rest = r
                    st.sites.append(dict(kind="buf_tab", path=path, name=pyname(nm), n=L, ldl=(thr, a, b, r)))
                else:
                    L = b
                    st.valid = False
            else:   # LRest / LFix 0
                if pending_rest is not None:
                    L = pending_rest
                elif last and target is not None:
                    L = max(0, target - (off - base))
                elif last:
                    L = rng.choice([0, 1, 2, 3, 5, rng.range(0, 12)])
                else:
                    L = rng.range(0, 3)
            data = rng.bytes(L)
            env[pyname(nm)] = data
            exp[pyname(nm)] = data
            st.sites.append(dict(kind="name", path=path, name=pyname(nm)))
            off += L
        elif kind == "FSpare":
            if l[0] == "LFix":
                L = l[1]
            elif l[0] == "LTab":
                L = table(l)
            elif l[0] == "LDataLen":
                L = l[3]
                st.valid = False
            else:
                L = 0
            off += L
        elif kind == "FBits":
            _, _, _, lsb, bfs = f
            L = bits_len(l, bfs)
            for (bf, bo) in bits_layout(l, lsb, bfs):
                _, nm, bl, fixed = bf
                if nm is None:
                    continue
                if fixed is not None:
                    exp[pyname(nm)] = fixed
                    st.sites.append(dict(kind="bitfixed", path=path, name=pyname(nm), bl=bl, fixed=fixed, at=off, L=L, bo=bo))
                    continue
                mx = (1 << bl) - 1
                w = wanted(nm)
                x = None
                if w is not None:
                    c = [v for v in w if 0 <= v <= mx]
                    if c:
                        x = rng.choice(c)
                    else:
                        st.valid = False
                if x is None:
                    x = rng.choice([0, mx, mx >> 1, 1 & mx, rng.range(0, mx)])
                env[pyname(nm)] = x
                exp[pyname(nm)] = x
                st.sites.append(dict(kind="bit", path=path, name=pyname(nm), bl=bl, x=x, key=w is not None, keys=w, at=off, L=L, bo=bo))
            off += L
        elif kind == "FEnv":
            _, nm, _, _, chk, body = f
            if l[0] == "LFix" and l[1] >= 1:
                tgt = l[1]
            elif l[0] == "LTab":
                tgt = table(l)
            elif last and target is not None:
                tgt = max(0, target - (off - base))
            else:
                tgt = None
            cenv, cexp, csize = gen_value(rng, body, st, path + (pyname(nm),), off, target=tgt)
            env[pyname(nm)] = cenv
            exp[pyname(nm)] = cexp
            st.sites.append(dict(kind="name", path=path, name=pyname(nm)))
            off += csize
        elif kind == "FSeq":
            _, nm, _, _, item = f
            s = static_size(item)
            if l[0] == "LFix" and l[1] >= 1:
                cnt = l[1] // s if s else rng.range(0, 3)
            elif l[0] == "LTab":
                t = table(l)
                cnt = t // s if s else rng.range(0, 3)
            else:
                cnt = rng.choice([0, 1, 1, 2, 2, 3])
            xs, es = [], []
            for k in range(cnt):
                cenv, cexp, csize = gen_value(rng, item, st, path + (pyname(nm), k), off)
                xs.append(cenv)
                es.append(cexp)
                off += csize
            env[pyname(nm)] = xs
            exp[pyname(nm)] = es
            st.sites.append(dict(kind="name", path=path, name=pyname(nm)))
        st.bounds.add(off)
    return env, exp, off - base


def deep_copy(o):
    if isinstance(o, dict):
        return {k: deep_copy(v) for k, v in o.items()}
    if isinstance(o, list):
        return [deep_copy(v) for v in o]
    return o


def at_path(env, path):
    o = env
    for k in path:
        o = o[k]
    return o


def mutate_value(rng, env, site, fam):
    """one invalid variant of a valid value; returns (env', mutation kind) or None"""
    e = deep_copy(env)
    d = at_path(e, site["path"])
    k, nm = site["kind"], site["name"]
    if k == "uint":
        lo, hi, mult, off = site["lo"], site["hi"], site["mult"], site["off"]
        if fam == "not-multiple":
            d[nm] = d[nm] + rng.range(1, abs(mult) - 1)
            return e, "not-multiple"
        raw = rng.choice([lo - 1, hi + 1, hi + 1 + rng.below(1000), lo - 1 - rng.below(1000), 1 << 80, -(1 << 80)])
        d[nm] = raw * mult + off
        return e, "int-range"
    if k == "buf_fix":
        n = site["n"]
        d[nm] = rng.bytes(rng.choice([n - 1, n + 1, 0, n + rng.range(2, 5)]))
        return e, "buf-fix-len"
    if k == "buf_tab":
        n = site["n"]
        c = [x for x in (n - 1, n + 1, 0, n + 3) if x >= 0 and x != n]
        if "ldl" in site:   # the rule looks at len(data): keep only lengths the rule itself would not choose
            thr, a, b, r = site["ldl"]
            c = [x for x in c if (a if x + r > thr else b) != x]
            if not c:
                return None
        d[nm] = rng.bytes(rng.choice(c))
        return e, "buf-tab-len"
    if k == "bit":
        bl, x = site["bl"], site["x"]
        d[nm] = x + rng.choice([1, -1, 2, 5, -3, 1 << 40, -(1 << 33)]) * (1 << bl)
        return e, "bit-wide-key" if site["key"] else "bit-wide"
    if k == "bitfixed":
        bl, fx = site["bl"], site["fixed"]
        d[nm] = rng.choice([fx ^ 1, fx + 1, 0 if fx else (1 << bl) - 1, -1, 1 << 50])
        return e, "fixed-user"
    return None


def mutate_key(rng, env, site):
    """key value not in any table: only for plain key fields"""
    if not site.get("key"):
        return None
    e = deep_copy(env)
    d = at_path(e, site["path"])
    nm = site["name"]
    if site["kind"] == "uint":
        lo, hi = site["lo"], site["hi"]
    else:
        lo, hi = 0, (1 << site["bl"]) - 1
    c = [v for v in (6, 9, 11, 13, 77, 200, lo + 17, hi - 1, hi - 9, rng.range(lo, hi)) if lo <= v <= hi and v not in (site.get("keys") or ())]
    if not c:
        return None
    d[nm] = rng.choice(c)
    return e, "key-not-in-table"


def delete_name(rng, env, site):
    if site["kind"] not in ("uint", "bit", "name"):
        return None
    e = deep_copy(env)
    d = at_path(e, site["path"])
    if site["name"] not in d:
        return None
    del d[site["name"]]
    return e, "missing"


# ------------------------------------------------------------------ cases

class Def:
    def __init__(self, fields, wf, tag):
        self.fields, self.wf, self.tag = fields, wf, tag
        self.wfb = None     # the model's executable well-formedness predicate (w_c16_wf), filled in by run()
        self.info = Info(fields)
        self.static = static_size(fields)
        # octets of the leading run of always-present fixed-length fields of a flat definition
        self.flat = self.info.depth == 0
        s = 0
        for f in fields:
            x = field_static(f)
            if x is None:
                break
            s += x
        self.static_prefix = s


def mk_enc(D, env, mut, valid, exp=None, size=None, ref=None):
    return dict(op="enc", D=D, pairs=cb.env_from_py(env), mut=mut, valid=valid, exp=exp, size=size, ref=ref, impl=None)


def mk_dec(D, chk, data, mut, exp=None, cut=None):
    return dict(op="dec", D=D, chk=chk, data=bytes(data), mut=mut, exp=exp, cut=cut, impl=None)


def impl_of(c):
    if c["impl"] is None:
        if c["op"] == "enc":
            c["impl"] = cb.run_encode(c["D"].fields, c["pairs"])
        else:
            c["impl"] = cb.run_decode(c["chk"], c["D"].fields, c["data"])
    return c["impl"]


def line_of(c):
    if c["op"] == "enc":
        return cb.enc_line(c["D"].fields, c["pairs"])
    return cb.dec_line(c["chk"], c["D"].fields, c["data"])


def jsonable(o):
    if isinstance(o, (bytes, bytearray)):
        return "hex:" + bytes(o).hex()
    if isinstance(o, (list, tuple)):
        return [jsonable(x) for x in o]
    if isinstance(o, dict):
        return {str(k): jsonable(v) for k, v in o.items()}
    return o


def show(c):
    d = dict(op=c["op"], fields=jsonable(c["D"].fields), wellformed=c["D"].wf, wfb=c["D"].wfb, def_tag=c["D"].tag, mutation=c["mut"])
    if c["op"] == "enc":
        d["env"] = jsonable(c["pairs"])
    else:
        d["check_len"] = bool(c["chk"])
        d["data"] = c["data"].hex()
    return d


def flip(b, byte, bit):
    x = bytearray(b)
    x[byte] ^= 1 << bit
    return bytes(x)


def cases_for_def(rng, D, nvals, rich):
    """rich = number of derived cases of each family per value"""
    out = []
    first_size = None
    for _ in range(nvals):
        st = VState()
        env, exp, size = gen_value(rng, D.fields, st, (), 0)
        valid = D.wf and st.valid
        if D.wf and not st.valid:
            raise RuntimeError("C16 harness: value generator could not resolve a table of a well-formed definition: %r" % (D.fields,))
        if first_size is None:
            first_size = size
        e0 = mk_enc(D, env, None, valid, exp=exp, size=size)
        out.append(e0)
        obs = impl_of(e0)
        if obs[0] == 0 and obs[1] == 0:
            b = bytes(obs[3:])
            out.append(mk_dec(D, True, b, "valid-encoding", exp=exp if valid else None))
            n = len(b)
            if n > 0:
                bounds = sorted(x for x in st.bounds if 0 <= x < n)
                cuts = set()
                for _ in range(rich):
                    if bounds:
                        cuts.add(rng.choice(bounds))
                    cuts.add(rng.below(n))
                if rng.chance(1, 2):
                    cuts.add(n - 1)
                for cut in sorted(cuts):
                    out.append(mk_dec(D, True, b[:cut], "prefix", cut=cut))
            for _ in range(max(1, rich - 1)):
                t = b + rng.bytes(rng.range(1, 3))
                out.append(mk_dec(D, True, t, "trailing-chk", cut=n))
                out.append(mk_dec(D, False, t, "trailing-nochk", cut=n))
            if n > 0:
                fx = [s for s in st.sites if s["kind"] == "bitfixed" and s["bl"] >= 1]
                for _ in range(min(rich, len(fx))):
                    s = rng.choice(fx)
                    bitno = s["bo"] + rng.below(s["bl"])
                    byte = s["at"] + s["L"] - 1 - bitno // 8
                    if 0 <= byte < n:
                        out.append(mk_dec(D, True, flip(b, byte, bitno % 8), "flip-fixed"))
                for _ in range(rich):
                    out.append(mk_dec(D, rng.chance(3, 4), flip(b, rng.below(n), rng.below(8)), "flip"))
        # invalid variants of the value: draw the mutation family first, then a site that supports it
        if st.sites:
            fam = {}
            for s in st.sites:
                k = s["kind"]
                for name in {"uint": ("int-range", "missing") + (("not-multiple",) if abs(s.get("mult", 1)) > 1 else ()) + (("key",) if s.get("key") else ()),
                             "buf_fix": ("buf-fix-len",), "buf_tab": ("buf-tab-len",), "name": ("missing",),
                             "bit": ("bit-wide", "missing") + (("key",) if s.get("key") else ()), "bitfixed": ("fixed-user",)}[k]:
                    fam.setdefault(name, []).append(s)
            names = sorted(fam)
            for _ in range(rich + 1):
                name = rng.choice(names)
                s = rng.choice(fam[name])
                try:
                    if name == "key":
                        m = mutate_key(rng, env, s)
                    elif name == "missing":
                        m = delete_name(rng, env, s)
                    else:
                        m = mutate_value(rng, env, s, name)
                except (KeyError, TypeError, IndexError):
                    if D.wf:
                        raise
                    m = None    # duplicate names of a non-well-formed definition: the site's path no longer exists
                if m is None:
                    continue
                env2, mk = m
                c = mk_enc(D, env2, mk, False, ref=obs if valid else None)
                out.append(c)
                o2 = impl_of(c)
                if o2[0] == 0 and mk in ("buf-tab-len", "not-multiple", "key-not-in-table", "bit-wide-key") and rng.chance(1, 2):
                    out.append(mk_dec(D, True, bytes(o2[3:]), "encoding-of-invalid"))
    # junk octet strings, once per definition
    s = D.static if D.static is not None else (first_size or 0)
    lens = [0, max(0, s - 1), s, s + 1, rng.range(0, 2 * s + 4)]
    for L in lens[:2 + 2 * rich]:
        w = rng.below(4)
        data = bytes(L) if w == 0 else b"\xff" * L if w == 1 else rng.bytes(L)
        out.append(mk_dec(D, rng.chance(2, 3), data, "junk"))
    return out


# ------------------------------------------------------------------ oracle

def oracle(ctx, c, deep):
    D, o = c["D"], c["impl"]
    op, mut = c["op"], c["mut"]
    st, cause = o[0], (o[1] if len(o) > 1 else None)
    ctx.count("%s:status%d" % (op, st))
    ctx.nontrivial((op, st, cause if st else 0, D.info.kinds_t, D.info.depth, D.info.cb, D.tag or "wf", mut or "valid"))

    def fail(key, what, expected=None):
        ctx.oracle_fail(what, show(c), key=key, expected=expected, observed=o[:64])
    # foreign exceptions never escape the Envelope API (ProtocolError only while the definition is built)
    if st == 4 and not (o == [4, 9] and D.tag in PROTO_TAGS):
        fail("c16-otherexc", "exception other than DecodeError/EncodeError escapes (status 4, cause %s)" % cause)
    if D.tag in PROTO_TAGS and o != [4, 9]:
        fail("c16-proto", "definition with an overflowing / zero-width bit-field was accepted by the constructors", expected=[4, 9])
    if (op == "enc" and st == 1) or (op == "dec" and st == 2):
        fail("c16-errors", "encode raised DecodeError / decode raised EncodeError")
    if not D.wf:
        # the model's wfb is weaker than the generator's notion: the re-encoding law is checked wherever wfb holds
        if D.wfb == 1 and op == "dec" and st == 0 and deep:
            dec_enc_law(ctx, c, fail)
        return
    if st == 3:
        fail("c16-errors", "well-formed definition: sequence item consumed no octet (decoder would not terminate)")
    if op == "enc":
        if c["valid"]:
            if st != 0:
                fail("c16-enc-dec", "valid value of a well-formed definition does not encode")
            elif o[2] != c["size"]:
                fail("c16-enc-dec", "encoding of a valid value is not length-exact", expected=c["size"])
        ref = c["ref"]
        if mut == "int-range" and o != [2, 2]:
            fail("c16-errors", "integer outside the representable range must give EncodeError caused by OverflowError", expected=[2, 2])
        elif mut == "buf-fix-len" and o != [2, 0]:
            fail("c16-errors", "wrong-length buffer for a fixed-length Buf must give EncodeError (length mismatch)", expected=[2, 0])
        elif mut == "missing" and o != [2, 1]:
            fail("c16-errors", "missing value must give EncodeError caused by KeyError", expected=[2, 1])
        elif mut == "bit-wide" and ref is not None and o != ref:
            fail("c16-bits-truncate", "over-wide bit-field value is not truncated to its width", expected=ref[:64])
        elif mut == "fixed-user" and ref is not None and o != ref:
            fail("c16-fixed-ignored", "user value of a fixed-value bit-field changes the encoding", expected=ref[:64])
        elif mut == "buf-tab-len" and st == 0:
            # recorded finding (known_findings.json): Field.to_bytes checks the length only when self.len > 0
            ctx.count("varlen-buf-length-not-enforced")
            if ctx.hist["varlen-buf-length-not-enforced"] <= 3:     # a few witnesses; the failure list is capped
                ctx.oracle_fail("variable-length (callback) Buf accepts a value whose length disagrees with get_len: no EncodeError, decode(encode v) != v",
                                show(c), key="c16-varlen-buf-length-not-enforced", expected="EncodeError", observed=bytes(o[3:]).hex())
        elif mut == "key-not-in-table" and not (st == 0 or o == [2, 1]):
            fail("c16-errors", "key value outside its table: expected success or EncodeError caused by KeyError")
        return
    # ---- decode
    data, chk = c["data"], c["chk"]
    if mut == "valid-encoding" and c["exp"] is not None:
        want = [0, 0, len(data)] + cb.val_to_ints(cb.from_py(c["exp"]))
        if o != want:
            fail("c16-enc-dec", "decode(encode(v)) differs from (v, len)", expected=want[:64])
    elif mut == "prefix":
        if st not in (0, 1):
            fail("c16-errors", "short input: neither success nor DecodeError")
        elif (not D.info.flex or (D.flat and c["cut"] < D.static_prefix)) and o != [1, 0]:
            fail("c16-errors", "short input (strict prefix of a valid encoding) must give DecodeError", expected=[1, 0])
    elif mut == "trailing-chk":
        if not D.info.flex and o != [1, 0]:
            fail("c16-errors", "trailing octets under check_len must give DecodeError", expected=[1, 0])
    elif mut == "trailing-nochk":
        if not D.info.flex and not (st == 0 and o[2] == c["cut"]):
            fail("c16-errors", "trailing octets without check_len: the valid prefix must decode with used = its length", expected=c["cut"])
    elif mut == "flip-fixed":
        if o != [1, 0]:
            fail("c16-errors", "flipped bit of a fixed-value bit-field must give DecodeError", expected=[1, 0])
    if st == 0 and deep:
        dec_enc_law(ctx, c, fail)


def dec_enc_law(ctx, c, fail):
    """decode succeeded with (v, n): v re-encodes to n octets that decode to (v, n) again"""
    D, o, data, chk = c["D"], c["impl"], c["data"], c["chk"]
    used = o[2]
    v, _ = cb.ints_to_val(o, 3)
    re = cb.run_encode(D.fields, v[1])
    ctx.evaluations += 1
    ctx.count("dec-enc-checked")
    if re[0] != 0:
        fail("c16-dec-enc", "decoded value does not re-encode: %r" % (re[:8],))
        return
    b2 = bytes(re[3:])
    if len(b2) != used:
        fail("c16-dec-enc", "re-encoding has %d octets, decoder used %d" % (len(b2), used))
        return
    rd = cb.run_decode(chk, D.fields, b2 + data[used:])
    ctx.evaluations += 1
    if rd != o:
        fail("c16-dec-enc", "decode(encode(decode(data))) differs from decode(data)", expected=rd[:64])
    if not D.info.spare and b2 != data[:used]:
        fail("c16-dec-enc", "no spare octets/bits in the definition, yet the re-encoding differs from the consumed octets", expected=b2.hex())
    if used < len(data):
        # informative only: the re-encoding decoded WITHOUT the unconsumed tail (differs when a length rule looks at len(data))
        rd2 = cb.run_decode(chk, D.fields, b2)
        ctx.evaluations += 1
        if rd2 != o:
            ctx.count("dec-enc-without-tail-differs")
            if "dec_enc_without_tail_witness" not in ctx.extra:
                w = show(c)
                w.update(decode_of_data=o[:64], reencoding=b2.hex(), decode_of_reencoding_alone=rd2[:64], wfb=D.wfb)
                ctx.extra["dec_enc_without_tail_witness"] = w


# ------------------------------------------------------------------ run

def run(ctx):
    gen(ctx)
    ctx.prove()
    if ctx.tier == "thorough":
        ctx.coqchk()
    rng = ctx.rng
    quick = ctx.tier != "thorough"
    n_defs = 300 if quick else 20000
    nvals = 10 if quick else 4
    rich = 2 if quick else 1
    budget = 45 if quick else 660       # safety cut-off for the Python part (seconds)
    chunk = 100 if quick else 400
    t0 = time.time()
    done = 0
    n_cases = 0
    sampled = set()
    n_intended = n_intended_wfb = 0
    witness = Def([("FUint", 0, ("LFix", 1), A, False, False, 0, 1), ("FBuf", 1, ("LTab", 0, [(0, 2), (1, 3)]), A)], True, None)
    first = True
    while done < n_defs:
        if time.time() - t0 > budget:
            ctx.note("time budget reached after %d of %d definitions" % (done, n_defs))
            break
        cases = []
        for _ in range(min(chunk, n_defs - done)):
            fields = gen_wf(rng) if not rng.chance(1, 12) else [tuple(f) for f in rng.choice(SHAPED)(rng)]
            D = Def(fields, True, None)
            if first:
                # fixed witness of the recorded finding c16-varlen-buf-length-not-enforced, always the first case
                first, D = False, witness
                w0 = mk_enc(D, {"f0": 1, "f1": b"\x01\x02"}, "buf-tab-len", False)
                cases.append(w0)
                o0 = impl_of(w0)
                if o0[0] == 0:
                    cases.append(mk_dec(D, True, bytes(o0[3:]), "encoding-of-invalid"))
            elif rng.chance(3, 20):
                m = None
                for _ in range(6):
                    m = mutate_def(rng, fields)
                    if m is not None:
                        break
                if m is not None:
                    D = Def(m[0], False, m[1])
            ctx.count("def:" + (D.tag or "wellformed"))
            for k in D.info.kinds:
                ctx.count("def-kind:" + k)
            ctx.count("def-depth:%d" % D.info.depth)
            cases += cases_for_def(rng, D, nvals, rich)
            done += 1
        defs = []
        for c in cases:
            if not defs or defs[-1] is not c["D"]:
                defs.append(c["D"])
        try:
            wres = ctx.model("Codec", [cb.wf_line(D.fields) for D in defs])
        except common.ModelUnavailable:
            return
        for D, r in zip(defs, wres):
            D.wfb = r[0] if (r and r[0] in (0, 1)) else None
            ctx.count("wf:%s" % D.wfb)
            ctx.count("wf:%s:%s" % ("intended-wellformed" if D.wf else "tag-" + D.tag, D.wfb))
            n_intended += 1 if D.wf else 0
            n_intended_wfb += 1 if (D.wf and D.wfb == 1) else 0

        def impl(c):
            ctx.in_flight = c
            return impl_of(c)
        res = ctx.correspond("codec", "Codec", cases, line_of, impl, show)
        ctx.in_flight = None
        if res is None:
            return
        for c, m, i in res:
            ctx.count("case:" + c["op"] + ":" + (c["mut"] or "valid"))
            if m != i:
                ctx.count("mismatch:%s:%s" % (c["op"], c["mut"] or "valid"))
            oracle(ctx, c, deep=True)
            key = (c["op"], c["mut"], i[0])
            if key not in sampled and len(sampled) < 8 and c["D"].info.nfields <= 4:
                sampled.add(key)
                s = show(c)
                s["impl"] = i[:40]
                ctx.sample(s, limit=8)
        n_cases += len(cases)
    ctx.extra["definitions"] = done
    ctx.extra["intended_wellformed_with_wfb"] = "%d of %d" % (n_intended_wfb, n_intended)
    if n_intended and n_intended_wfb * 10 < n_intended * 6:
        ctx.note("generator: only %d of %d intended-well-formed definitions satisfy the model's wfb" % (n_intended_wfb, n_intended))
    ctx.extra["python_part_seconds"] = round(time.time() - t0, 1)
    ctx.extra["rule"] = (
        "definitions drawn in the AST of Model/Codec.v: nesting depth <= 3, 1..6 fields per level, Uint/Int widths 1..8 both byte orders with "
        "offset/mult, Buf (fixed, rest, table keyed on an earlier integer, LDataLen), Spare, bit-field sets of 1..4 octets (both orders, named / spare / "
        "fixed-value fields, padding bits, explicit or computed length), nested envelopes (fixed, rest, table length), sequences (static or TLV-like items), "
        "table-shaped presence; ~15 % carry one deliberate well-formedness violation (" + ", ".join(MUTS) + "). Per definition: valid values at range "
        "boundaries + one-mutation invalid variants (int out of range, wrong buffer length, missing name, key outside table, over-wide bit value, "
        "user value for a fixed bit-field, non-multiple of mult); octet strings: real encodings, prefixes at/inside field boundaries, trailing octets "
        "with/without check_len, single-bit flips (targeting fixed-value bit-fields), zero/0xff/random strings. Every case runs on the real codec objects "
        "(codec_builder) and on the extracted model; the laws c16-enc-dec / c16-dec-enc / c16-errors / c16-bits-truncate are asserted on the real "
        "observations. distinct_nontrivial = distinct (op, status, cause, field kinds present, nesting depth, callbacks?, definition tag, case mutation) classes.")
